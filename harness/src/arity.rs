//! Deterministic catalogue "every kind of callee × every argument count × every call context".
//!
//! A call whose argument count differs from the callee's parameter count must end in a diagnostic, never
//! in a panic — whatever the callee is (a builtin of the initial environment, a builtin inherent / trait
//! method, a user function, generic function, constructor, closure, method, extern function), whatever
//! is shadowing a builtin's *name* (a user function or a local of another arity: the compiler has special
//! cases keyed on the spelling `ref` / `array_set` / `array_get` / …), and wherever the call sits.
//!
//! Nothing here is hard-wired to one builtin: the builtin callees and their parameter lists are read from
//! the REAL initial environment (`GlobalTypeEnv::new()`: `value_env.funcs`, `trait_env.inherent_impls`,
//! `trait_env.trait_defs`) every time the catalogue is built, so a builtin added tomorrow is covered too.
//! Used by `gv c04` (stream `call-arity`, every entry point) and `gv c20` (the queries on the same texts).
use compiler::env::{GlobalTypeEnv, InherentImplKey};
use compiler::tast::Ty;

/// a source expression of (roughly) the given type; type parameters are instantiated with int32
pub fn value_of(t: &Ty) -> String {
    match t {
        Ty::TUnit => "()".into(),
        Ty::TBool => "true".into(),
        Ty::TInt8 => "1i8".into(),
        Ty::TInt16 => "1i16".into(),
        Ty::TInt32 => "1".into(),
        Ty::TInt64 => "1i64".into(),
        Ty::TUint8 => "1u8".into(),
        Ty::TUint16 => "1u16".into(),
        Ty::TUint32 => "1u32".into(),
        Ty::TUint64 => "1u64".into(),
        Ty::TFloat32 => "1.5f32".into(),
        Ty::TFloat64 => "1.5".into(),
        Ty::TString => "\"s\"".into(),
        Ty::TTuple { typs } => format!("({})", typs.iter().map(value_of).collect::<Vec<_>>().join(", ")),
        Ty::TArray { elem, .. } => format!("[{}, {}]", value_of(elem), value_of(elem)),
        Ty::TVec { elem } => format!("vec_push(vec_new(), {})", value_of(elem)),
        Ty::TRef { elem } => format!("ref({})", value_of(elem)),
        Ty::TFunc { params, ret_ty } => format!(
            "|{}| {}",
            params.iter().enumerate().map(|(i, _)| format!("q{}", i)).collect::<Vec<_>>().join(", "),
            value_of(ret_ty)
        ),
        _ => "1".into(),
    }
}

#[derive(Clone, Debug)]
pub struct Callee {
    /// builtin | builtin-method | builtin-trait-method | user-fn | generic-fn | ctor | closure | fn-param |
    /// inherent-method | inherent-path | trait-method | dyn-method | extern-go | shadow-fn | shadow-extern | shadow-local
    pub kind: &'static str,
    pub label: String,
    /// top-level items the call needs
    pub items: String,
    /// statements at the start of the enclosing body
    pub lets: String,
    /// what is applied: `head(args…)`
    pub head: String,
    /// one well-typed argument per declared parameter
    pub params: Vec<String>,
}

fn fn_params(t: &Ty) -> Vec<Ty> {
    match t {
        Ty::TFunc { params, .. } => params.clone(),
        _ => Vec::new(),
    }
}

/// (name, declared parameter types) of every function of the initial environment
pub fn builtin_functions() -> Vec<(String, Vec<Ty>)> {
    let genv = GlobalTypeEnv::new();
    let mut v: Vec<(String, Vec<Ty>)> = genv.value_env.funcs.iter().map(|(n, s)| (n.clone(), fn_params(&s.ty))).collect();
    // names the compiler lists as builtin but that are not in `funcs` (none today) still get arity 1
    for n in compiler::builtins::builtin_function_names() {
        if !v.iter().any(|(m, _)| *m == n) {
            v.push((n, vec![Ty::TInt32]));
        }
    }
    v.retain(|(n, _)| n.chars().all(|c| c.is_ascii_alphanumeric() || c == '_'));
    v
}

pub fn callees() -> Vec<Callee> {
    let genv = GlobalTypeEnv::new();
    let mut out = Vec::new();
    let plain = |kind: &'static str, label: String, head: String, params: Vec<String>| Callee { kind, label, items: String::new(), lets: String::new(), head, params };
    // ---- the initial environment
    for (name, ps) in builtin_functions() {
        out.push(plain("builtin", name.clone(), name.clone(), ps.iter().map(value_of).collect()));
    }
    for (key, imp) in genv.trait_env.inherent_impls.iter() {
        if let InherentImplKey::Exact(recv) = key {
            for (m, s) in imp.methods.iter() {
                let ps = fn_params(&s.ty);
                let rest: Vec<String> = ps.iter().skip(1).map(value_of).collect();
                out.push(plain("builtin-method", format!("{:?}.{}", recv, m), format!("{}.{}", value_of(recv), m), rest));
            }
        }
    }
    for (tr, def) in genv.trait_env.trait_defs.iter() {
        let tr_name = tr.rsplit("::").next().unwrap_or("").to_string();
        if tr_name.is_empty() || !tr_name.chars().all(|c| c.is_ascii_alphanumeric() || c == '_') {
            continue;
        }
        for (m, s) in def.methods.iter() {
            // Self is instantiated with int32
            let ps: Vec<String> = fn_params(&s.ty).iter().map(value_of).collect();
            out.push(plain("builtin-trait-method", format!("{}::{}", tr_name, m), format!("{}::{}", tr_name, m), ps));
        }
    }
    // ---- user-defined callees of every kind
    let items = "enum Opt[T] { Non, Som(T) }\nenum Sh2 { Pair(int32, bool), Lone }\nstruct P { a: int32 }\nimpl P { fn get(self: P, k: int32) -> int32 { self.a + k } fn make(a: int32) -> P { P { a: a } } }\n\
trait Tr { fn tm(Self, int32) -> string; }\nimpl Tr for int32 { fn tm(self: int32, k: int32) -> string { int32_to_string(self + k) } }\n\
fn u0() -> int32 { 0 }\nfn u1(a: int32) -> int32 { a }\nfn u3(a: int32, b: string, c: bool) -> int32 { a }\nfn ug[T](x: T, y: T) -> T { x }\n\
fn hof(f: (int32, int32) -> int32) -> int32 { f(1, 2) }\nextern \"go\" \"strings\" \"Repeat\" rep(s: string, n: int32) -> string\n";
    let user = |kind: &'static str, head: &str, lets: &str, params: &[&str]| Callee {
        kind,
        label: head.to_string(),
        items: items.to_string(),
        lets: lets.to_string(),
        head: head.to_string(),
        params: params.iter().map(|s| s.to_string()).collect(),
    };
    out.push(user("user-fn", "u0", "", &[]));
    out.push(user("user-fn", "u1", "", &["1"]));
    out.push(user("user-fn", "u3", "", &["1", "\"s\"", "true"]));
    out.push(user("generic-fn", "ug", "", &["1", "2"]));
    out.push(user("ctor", "Som", "", &["1"]));
    out.push(user("ctor", "Opt::Som", "", &["1"]));
    out.push(user("ctor", "Non", "", &[]));
    out.push(user("ctor", "Sh2::Pair", "", &["1", "true"]));
    out.push(user("ctor", "Lone", "", &[]));
    out.push(user("ctor", "P", "", &["1"]));
    out.push(user("closure", "c2", "let c2 = |x: int32, y: int32| x + y; ", &["1", "2"]));
    out.push(user("closure", "c0", "let c0 = || 1; ", &[]));
    out.push(user("closure", "cu", "let cu = |x, y| x; ", &["1", "2"]));
    out.push(user("closure", "(|x: int32| x)", "", &["1"]));
    out.push(user("hof-arg", "hof", "", &["|x: int32| x"])); // the closure has the wrong arity when the call has the right one
    out.push(user("inherent-method", "P { a: 1 }.get", "", &["1"]));
    out.push(user("inherent-method", "pv.get", "let pv = P { a: 1 }; ", &["1"]));
    out.push(user("inherent-path", "P::get", "", &["P { a: 1 }", "1"]));
    out.push(user("inherent-path", "P::make", "", &["1"]));
    out.push(user("trait-method", "Tr::tm", "", &["1", "2"]));
    out.push(user("trait-method", "5.tm", "", &["2"]));
    out.push(user("dyn-method", "Tr::tm", "let dv: dyn Tr = 1; ", &["dv", "2"]));
    out.push(user("extern-go", "rep", "", &["\"s\"", "2"]));
    out.push(user("non-callee", "7", "", &[]));
    out.push(user("non-callee", "nf", "let nf = 1; ", &[]));
    out.push(user("non-callee", "undefined_function", "", &["1"]));
    // ---- a builtin's NAME bound to something of another shape
    for (name, ps) in builtin_functions() {
        let n = ps.len();
        let mut arities = vec![0usize, 1, n + 1];
        if n > 0 {
            arities.push(n);
        }
        arities.sort();
        arities.dedup();
        for j in arities {
            let formal: Vec<String> = (0..j).map(|i| format!("p{}: int32", i)).collect();
            out.push(Callee {
                kind: "shadow-fn",
                label: format!("fn {}/{}", name, j),
                items: format!("fn {}({}) -> int32 {{ 0 }}\n", name, formal.join(", ")),
                lets: String::new(),
                head: name.clone(),
                params: vec!["1".to_string(); j],
            });
        }
        for j in [0usize, 2] {
            let formal: Vec<String> = (0..j).map(|i| format!("p{}: string", i)).collect();
            out.push(Callee {
                kind: "shadow-extern",
                label: format!("extern {}/{}", name, j),
                items: format!("extern \"go\" \"strings\" \"Repeat\" {}({}) -> string\n", name, formal.join(", ")),
                lets: String::new(),
                head: name.clone(),
                params: vec!["\"s\"".to_string(); j],
            });
        }
        for j in [0usize, 1] {
            let formal: Vec<String> = (0..j).map(|i| format!("p{}: int32", i)).collect();
            out.push(Callee {
                kind: "shadow-local",
                label: format!("let {}/{}", name, j),
                items: String::new(),
                lets: format!("let {} = |{}| 0; ", name, formal.join(", ")),
                head: name.clone(),
                params: vec!["1".to_string(); j],
            });
        }
    }
    out
}

pub const CONTEXTS: &[&str] = &[
    "let", "stmt", "tuple", "closure-body", "fn-tail", "match-scrutinee", "if-cond", "callee-as-value", "generic-body", "operand", "annotated-let", "array-elem", "nested-arg",
    "method-on-result", "go-stmt", "while-cond",
];

fn in_context(ctx: &str, c: &Callee, call: &str, args: &str) -> String {
    let (items, lets) = (&c.items, &c.lets);
    match ctx {
        "let" => format!("{items}fn main() -> unit {{\n    {lets}let a = {call};\n    ()\n}}\n"),
        "stmt" => format!("{items}fn main() -> unit {{\n    {lets}{call};\n    ()\n}}\n"),
        "tuple" => format!("{items}fn main() -> unit {{\n    {lets}let a = ({call}, 1);\n    ()\n}}\n"),
        "closure-body" => format!("{items}fn main() -> unit {{\n    {lets}let f = |z: int32| {call};\n    ()\n}}\n"),
        "fn-tail" => format!("{items}fn w() -> int32 {{\n    {lets}{call}\n}}\nfn main() -> unit {{ let a = w(); () }}\n"),
        "match-scrutinee" => format!("{items}fn main() -> unit {{\n    {lets}match {call} {{ _ => () }}\n}}\n"),
        "if-cond" => format!("{items}fn main() -> unit {{\n    {lets}if {call} {{ () }} else {{ () }}\n}}\n"),
        "callee-as-value" => format!("{items}fn main() -> unit {{\n    {lets}let g = {};\n    let a = g({args});\n    ()\n}}\n", c.head),
        "generic-body" => format!("{items}fn w[T](x: T) -> T {{\n    {lets}let a = {call};\n    x\n}}\nfn main() -> unit {{ let a = w(1); () }}\n"),
        "operand" => format!("{items}fn main() -> unit {{\n    {lets}let a = {call} + 1;\n    ()\n}}\n"),
        "annotated-let" => format!("{items}fn main() -> unit {{\n    {lets}let a: int32 = {call};\n    ()\n}}\n"),
        "array-elem" => format!("{items}fn main() -> unit {{\n    {lets}let a = [{call}, {call}];\n    ()\n}}\n"),
        "nested-arg" => format!("{items}fn main() -> unit {{\n    {lets}let a = {}({call});\n    ()\n}}\n", c.head),
        "method-on-result" => format!("{items}fn main() -> unit {{\n    {lets}let a = {call}.to_string();\n    ()\n}}\n"),
        "go-stmt" => format!("{items}fn main() -> unit {{\n    {lets}go || {{ let a = {call}; () }};\n    ()\n}}\n"),
        _ => format!("{items}fn main() -> unit {{\n    {lets}while {call} {{ () }};\n    ()\n}}\n"),
    }
}

#[derive(Clone, Debug)]
pub struct ArityCase {
    pub tag: String,
    pub src: String,
    pub kind: &'static str,
    pub declared: usize,
    pub given: usize,
}

/// the argument lists tried for a callee with `n` declared parameters: (description, arguments)
fn arg_lists(c: &Callee) -> Vec<(String, Vec<String>)> {
    let n = c.params.len();
    let mut v = Vec::new();
    for k in 0..=n + 2 {
        // the declared arguments, truncated / extended with int literals
        let typed: Vec<String> = (0..k).map(|i| c.params.get(i).cloned().unwrap_or_else(|| "7".into())).collect();
        v.push((format!("typed/{}", k), typed.clone()));
        if k > 0 && k != n {
            // the LAST k declared arguments (drops the first ones), and uniform unit arguments
            if k < n {
                v.push((format!("suffix/{}", k), c.params[n - k..].to_vec()));
            }
            v.push((format!("units/{}", k), vec!["()".to_string(); k]));
        }
    }
    v
}

/// The whole catalogue, in a fixed order. `full` = every context for every argument list; otherwise the
/// wrong-arity `typed` lists get every context and the other lists get the first three contexts.
pub fn catalogue(full: bool) -> Vec<ArityCase> {
    let mut out = Vec::new();
    for c in callees() {
        let n = c.params.len();
        let shadow = c.kind.starts_with("shadow");
        for (desc, args) in arg_lists(&c) {
            let k = args.len();
            let typed = desc.starts_with("typed");
            let nctx = if full {
                CONTEXTS.len()
            } else if shadow {
                if typed { 4 } else { 0 }
            } else if typed {
                CONTEXTS.len()
            } else {
                3
            };
            let argtext = args.join(", ");
            let call = format!("{}({})", c.head, argtext);
            for ctx in CONTEXTS.iter().take(nctx) {
                if *ctx == "nested-arg" && k == 0 {
                    continue;
                }
                out.push(ArityCase {
                    tag: format!("{} {} declared={} given={} args={} ctx={}", c.kind, c.label, n, k, desc, ctx),
                    src: in_context(ctx, &c, &call, &argtext),
                    kind: c.kind,
                    declared: n,
                    given: k,
                });
            }
        }
    }
    out
}
