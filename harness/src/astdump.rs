//! S-expression serialiser for the SURFACE syntax: the real `ast::File`s produced by the
//! repository's own parser and CST->AST lowering, names exactly as written (paths as segment
//! lists, struct patterns / literals with their field names in written order, literals with
//! their suffix and text).  Decoded by `lean/GomlVerif/Driver/DecSrc.lean`, run by `SrcSem`.
use crate::sexp::{S, a, l, n, tagged};
use ::ast::ast;
use std::path::Path;

fn opt(x: Option<S>) -> S {
    match x {
        Some(s) => tagged("some", vec![s]),
        None => tagged("none", vec![]),
    }
}

fn path(p: &ast::Path) -> S {
    tagged("path", p.segments().iter().map(|s| a(&s.ident.0)).collect())
}

pub fn ty(t: &ast::TypeExpr) -> S {
    use ast::TypeExpr as T;
    match t {
        T::TUnit => a("unit"),
        T::TBool => a("bool"),
        T::TInt8 => a("i8"),
        T::TInt16 => a("i16"),
        T::TInt32 => a("i32"),
        T::TInt64 => a("i64"),
        T::TUint8 => a("u8"),
        T::TUint16 => a("u16"),
        T::TUint32 => a("u32"),
        T::TUint64 => a("u64"),
        T::TFloat32 => a("f32"),
        T::TFloat64 => a("f64"),
        T::TString => a("string"),
        T::TTuple { typs } => tagged("tuple", typs.iter().map(ty).collect()),
        T::TCon { path: p } => tagged("con", p.segments().iter().map(|s| a(&s.ident.0)).collect()),
        T::TDyn { trait_path } => tagged("dyn", trait_path.segments().iter().map(|s| a(&s.ident.0)).collect()),
        T::TApp { ty: t, args } => {
            let mut v = vec![ty(t)];
            v.extend(args.iter().map(ty));
            tagged("app", v)
        }
        T::TArray { len, elem } => tagged("array", vec![n(len), ty(elem)]),
        T::TFunc { params, ret_ty } => tagged("fnty", vec![l(params.iter().map(ty).collect()), ty(ret_ty)]),
    }
}

fn int_lit(tag: &str, sfx: &str, text: &str) -> S {
    tagged(tag, vec![a(sfx), S::A(text.to_string())])
}

fn float_bits(text: &str) -> u64 {
    // the meaning of the decimal text as a binary64 (Rust's correctly rounded `str::parse`);
    // floats are validated, never proved (DESIGN §1.1)
    text.parse::<f64>().map(|v| v.to_bits()).unwrap_or(0)
}

pub fn pat(p: &ast::Pat) -> S {
    use ast::Pat as P;
    match p {
        P::PVar { name, .. } => tagged("pvar", vec![a(&name.0)]),
        P::PUnit { .. } => tagged("punit", vec![]),
        P::PBool { value, .. } => tagged("pbool", vec![a(if *value { "true" } else { "false" })]),
        P::PInt { value, .. } => int_lit("pint", "none", value),
        P::PInt8 { value, .. } => int_lit("pint", "i8", value),
        P::PInt16 { value, .. } => int_lit("pint", "i16", value),
        P::PInt32 { value, .. } => int_lit("pint", "i32", value),
        P::PInt64 { value, .. } => int_lit("pint", "i64", value),
        P::PUInt8 { value, .. } => int_lit("pint", "u8", value),
        P::PUInt16 { value, .. } => int_lit("pint", "u16", value),
        P::PUInt32 { value, .. } => int_lit("pint", "u32", value),
        P::PUInt64 { value, .. } => int_lit("pint", "u64", value),
        P::PString { value, .. } => tagged("pstr", vec![S::A(value.clone())]),
        P::PConstr { constructor, args, .. } => {
            let mut v = vec![path(constructor)];
            v.extend(args.iter().map(pat));
            tagged("pconstr", v)
        }
        P::PStruct { name, fields, .. } => {
            let mut v = vec![path(name)];
            v.extend(fields.iter().map(|(f, p)| l(vec![a(&f.0), pat(p)])));
            tagged("pstruct", v)
        }
        P::PTuple { pats, .. } => tagged("ptuple", pats.iter().map(pat).collect()),
        P::PWild { .. } => tagged("pwild", vec![]),
    }
}

pub fn expr(e: &ast::Expr) -> S {
    use ast::Expr as E;
    match e {
        E::EPath { path: p, .. } => path(p),
        E::EUnit { .. } => tagged("unit", vec![]),
        E::EBool { value, .. } => tagged("bool", vec![a(if *value { "true" } else { "false" })]),
        E::EInt { value, .. } => int_lit("int", "none", value),
        E::EInt8 { value, .. } => int_lit("int", "i8", value),
        E::EInt16 { value, .. } => int_lit("int", "i16", value),
        E::EInt32 { value, .. } => int_lit("int", "i32", value),
        E::EInt64 { value, .. } => int_lit("int", "i64", value),
        E::EUInt8 { value, .. } => int_lit("int", "u8", value),
        E::EUInt16 { value, .. } => int_lit("int", "u16", value),
        E::EUInt32 { value, .. } => int_lit("int", "u32", value),
        E::EUInt64 { value, .. } => int_lit("int", "u64", value),
        E::EFloat { value, .. } => tagged("float", vec![a("none"), S::A(format!("{:?}", value)), n(value.to_bits())]),
        E::EFloat32 { value, .. } => tagged("float", vec![a("f32"), S::A(value.clone()), n(float_bits(value))]),
        E::EFloat64 { value, .. } => tagged("float", vec![a("f64"), S::A(value.clone()), n(float_bits(value))]),
        E::EString { value, .. } => tagged("str", vec![S::A(value.clone())]),
        E::EConstr { constructor, args, .. } => {
            let mut v = vec![path(constructor)];
            v.extend(args.iter().map(expr));
            tagged("constr", v)
        }
        E::EStructLiteral { name, fields, .. } => {
            let mut v = vec![path(name)];
            v.extend(fields.iter().map(|(f, e)| l(vec![a(&f.0), expr(e)])));
            tagged("structlit", v)
        }
        E::ETuple { items, .. } => tagged("tuple", items.iter().map(expr).collect()),
        E::EArray { items, .. } => tagged("array", items.iter().map(expr).collect()),
        E::ELet { pat: p, annotation, value, .. } => tagged("let", vec![pat(p), opt(annotation.as_ref().map(ty)), expr(value)]),
        E::EClosure { params, body, .. } => tagged(
            "closure",
            vec![l(params.iter().map(|p| l(vec![a(&p.name.0), opt(p.ty.as_ref().map(ty))])).collect()), expr(body)],
        ),
        E::EMatch { expr: s, arms, .. } => {
            let mut v = vec![expr(s)];
            v.extend(arms.iter().map(|arm| tagged("arm", vec![pat(&arm.pat), expr(&arm.body)])));
            tagged("match", v)
        }
        E::EIf { cond, then_branch, else_branch, .. } => tagged("if", vec![expr(cond), expr(then_branch), expr(else_branch)]),
        E::EWhile { cond, body, .. } => tagged("while", vec![expr(cond), expr(body)]),
        E::EGo { expr: x, .. } => tagged("go", vec![expr(x)]),
        E::ECall { func, args, .. } => {
            let mut v = vec![expr(func)];
            v.extend(args.iter().map(expr));
            tagged("call", v)
        }
        E::EUnary { op, expr: x, .. } => tagged("un", vec![a(op.method_name()), expr(x)]),
        E::EBinary { op, lhs, rhs, .. } => tagged("bin", vec![a(op.method_name()), expr(lhs), expr(rhs)]),
        E::EProj { tuple, index, .. } => tagged("proj", vec![expr(tuple), n(index)]),
        E::EField { expr: x, field, .. } => tagged("field", vec![expr(x), a(&field.0)]),
        E::EBlock { exprs, .. } => tagged("block", exprs.iter().map(expr).collect()),
    }
}

fn params(ps: &[(ast::AstIdent, ast::TypeExpr)]) -> S {
    tagged("params", ps.iter().map(|(x, t)| l(vec![a(&x.0), ty(t)])).collect())
}

fn idents(tag: &str, xs: &[ast::AstIdent]) -> S {
    tagged(tag, xs.iter().map(|x| a(&x.0)).collect())
}

fn attrs(xs: &[ast::Attribute]) -> S {
    tagged("attrs", xs.iter().map(|x| S::A(x.text.clone())).collect())
}

pub fn func(f: &ast::Fn) -> S {
    tagged(
        "fn",
        vec![
            a(&f.name.0),
            attrs(&f.attrs),
            idents("generics", &f.generics),
            tagged(
                "bounds",
                f.generic_bounds
                    .iter()
                    .map(|(g, bs)| {
                        let mut v = vec![a(&g.0)];
                        v.extend(bs.iter().map(path));
                        l(v)
                    })
                    .collect(),
            ),
            params(&f.params),
            opt(f.ret_ty.as_ref().map(ty)),
            expr(&f.body),
        ],
    )
}

pub fn item(it: &ast::Item) -> S {
    use ast::Item as I;
    match it {
        I::Fn(f) => func(f),
        I::EnumDef(d) => tagged(
            "enum",
            vec![
                a(&d.name.0),
                attrs(&d.attrs),
                idents("generics", &d.generics),
                tagged(
                    "variants",
                    d.variants
                        .iter()
                        .map(|(v, ts)| {
                            let mut x = vec![a(&v.0)];
                            x.extend(ts.iter().map(ty));
                            l(x)
                        })
                        .collect(),
                ),
            ],
        ),
        I::StructDef(d) => tagged(
            "struct",
            vec![
                a(&d.name.0),
                attrs(&d.attrs),
                idents("generics", &d.generics),
                tagged("fields", d.fields.iter().map(|(f, t)| l(vec![a(&f.0), ty(t)])).collect()),
            ],
        ),
        I::TraitDef(d) => tagged(
            "trait",
            vec![
                a(&d.name.0),
                attrs(&d.attrs),
                tagged(
                    "sigs",
                    d.method_sigs
                        .iter()
                        .map(|m| l(vec![a(&m.name.0), l(m.params.iter().map(ty).collect()), ty(&m.ret_ty)]))
                        .collect(),
                ),
            ],
        ),
        I::ImplBlock(b) => tagged(
            "impl",
            vec![
                attrs(&b.attrs),
                idents("generics", &b.generics),
                opt(b.trait_name.as_ref().map(path)),
                ty(&b.for_type),
                tagged("methods", b.methods.iter().map(func).collect()),
            ],
        ),
        I::ExternGo(x) => tagged(
            "externgo",
            vec![
                S::A(x.package_path.clone()),
                S::A(x.go_symbol.clone()),
                a(&x.goml_name.0),
                a(if x.explicit_go_symbol { "true" } else { "false" }),
                params(&x.params),
                opt(x.ret_ty.as_ref().map(ty)),
            ],
        ),
        I::ExternType(x) => tagged("externtype", vec![a(&x.goml_name.0)]),
        I::ExternBuiltin(x) => tagged("externbuiltin", vec![a(&x.name.0), params(&x.params), opt(x.ret_ty.as_ref().map(ty))]),
    }
}

pub fn file(f: &ast::File) -> S {
    let mut v = vec![tagged("package", vec![a(&f.package.0)]), idents("imports", &f.imports)];
    v.extend(f.toplevels.iter().map(item));
    tagged("file", v)
}

/// parse + lower one source text with the repository's own front end, WITHOUT derive expansion
pub fn parse_lower(path: &Path, src: &str) -> Result<ast::File, String> {
    use cst::cst::CstNode;
    let parse_result = parser::parse(path, src);
    if parse_result.has_errors() {
        return Err("parser".into());
    }
    let root = parser::syntax::MySyntaxNode::new_root(parse_result.green_node);
    let cst = cst::cst::File::cast(root).ok_or("cst")?;
    ::ast::lower::lower(cst).into_result().map_err(|_| "lower".to_string())
}

/// Every file of every package of the project rooted at `entry` (the same discovery the
/// pipeline uses, `pipeline/packages.rs`), in discovery order.  Returns `(plain, expanded)`:
/// the ASTs as lowered, and after `derive::expand` (what the rest of the pipeline sees).
pub fn project(entry: &Path, src: &str) -> Result<(S, S), String> {
    use compiler::pipeline::{packages, pipeline};
    let entry_ast = pipeline::parse_ast_file(entry, src).map_err(|_| "entry".to_string())?;
    let root_dir = entry.parent().filter(|p| !p.as_os_str().is_empty()).unwrap_or_else(|| Path::new("."));
    let graph = packages::discover_packages(root_dir, Some(entry), Some(entry_ast)).map_err(|_| "discover".to_string())?;
    let mut plain = Vec::new();
    let mut expanded = Vec::new();
    for name in graph.discovery_order.iter() {
        let Some(pkg) = graph.packages.get(name) else { continue };
        for f in pkg.files.iter() {
            expanded.push(file(&f.ast));
            let text = if f.path == entry { src.to_string() } else { std::fs::read_to_string(&f.path).map_err(|e| e.to_string())? };
            let raw = parse_lower(&f.path, &text)?;
            plain.push(file(&raw));
        }
    }
    // the declarations of `builtin.gom` (package Builtin): which names are builtins
    let b = file(&compiler::builtins::get_builtin_ast());
    plain.push(b.clone());
    expanded.push(b);
    Ok((tagged("srcprog", plain), tagged("srcprog", expanded)))
}
