//! C01 — stage dumps of accepted programs for the Lean interpreters (`Sem`, `Go.Sem`).
use crate::dump;
use crate::godump;
use crate::sexp::{S, a, l, tagged};
use crate::util::{self, Outcome};
use compiler::env::GlobalTypeEnv;
use compiler::tast::Ty;
use std::fmt::Write as _;

pub fn ty_key(t: &Ty) -> String {
    match t {
        Ty::TUnit => "unit".into(),
        Ty::TBool => "bool".into(),
        Ty::TString => "string".into(),
        Ty::TInt8 => "int8".into(),
        Ty::TInt16 => "int16".into(),
        Ty::TInt32 => "int32".into(),
        Ty::TInt64 => "int64".into(),
        Ty::TUint8 => "uint8".into(),
        Ty::TUint16 => "uint16".into(),
        Ty::TUint32 => "uint32".into(),
        Ty::TUint64 => "uint64".into(),
        Ty::TFloat32 => "float32".into(),
        Ty::TFloat64 => "float64".into(),
        Ty::TEnum { name } | Ty::TStruct { name } => name.clone(),
        Ty::TApp { ty, .. } => ty_key(ty),
        _ => "?".into(),
    }
}

/// (trait, type key, method) -> implementing function: environment data for dyn/trait dispatch
pub fn impls_table(genv: &GlobalTypeEnv) -> S {
    let mut rows = Vec::new();
    for (key, def) in genv.trait_env.trait_impls.iter() {
        let (tr, ty) = (&key.0, &key.1);
        for (m, _) in def.methods.iter() {
            let tr_ident = compiler::tast::TastIdent::new(tr);
            let f = compiler::names::trait_impl_fn_name(&tr_ident, ty, m);
            rows.push(l(vec![a(tr), a(ty_key(ty)), a(m), a(f)]));
        }
    }
    tagged("impls", rows)
}

pub fn prog(file: S, impls: &S) -> S {
    tagged("prog", vec![file, impls.clone()])
}

/// the SURFACE program (every file of every package, as parsed and lowered by the repository's own
/// front end): `STAGE src` = after derive expansion (what the rest of the pipeline is given),
/// `SRCPLAIN` = before it (`same` when the project uses no derive)
pub fn dump_src(id: &str, entry: &std::path::Path, src: &str, out: &mut String) {
    match crate::astdump::project(entry, src) {
        Ok((plain, expanded)) => {
            let (pt, et) = (plain.to_text(), expanded.to_text());
            writeln!(out, "{}\tSTAGE\tsrc\t{}", id, et).unwrap();
            if pt == et {
                writeln!(out, "{}\tSRCPLAIN\tsame", id).unwrap();
            } else {
                writeln!(out, "{}\tSRCPLAIN\t{}", id, pt).unwrap();
            }
        }
        Err(e) => writeln!(out, "{}\tSRCERR\t{}", id, crate::sexp::esc_line(&e)).unwrap(),
    }
}

pub fn dump_case(id: &str, c: &compiler::pipeline::pipeline::Compilation, out: &mut String) {
    let impls = impls_table(&c.genv);
    writeln!(out, "{}\tSTAGE\tcore\t{}", id, prog(dump::core_file(&c.core), &impls).to_text()).unwrap();
    writeln!(out, "{}\tSTAGE\tmono\t{}", id, prog(dump::mono_file(&c.mono), &impls).to_text()).unwrap();
    writeln!(out, "{}\tSTAGE\tlift\t{}", id, prog(dump::lift_file(&c.lambda), &impls).to_text()).unwrap();
    writeln!(out, "{}\tSTAGE\tanf\t{}", id, prog(dump::anf_file(&c.anf), &impls).to_text()).unwrap();
    writeln!(out, "{}\tSTAGE\tgo\t{}", id, godump::gfile(&c.go).to_text()).unwrap();
    // inputs of the whole-pipeline model (C01 pipeline composition): what `go_file` reads of `GlobalGoEnv`, and the
    // ANF with every `ty` field (to check the model's re-annotation)
    writeln!(out, "{}\tGOENV\t{}", id, crate::gocomp::env_dump(c).to_text()).unwrap();
    writeln!(out, "{}\tAANF\t{}", id, crate::gocomp::anf_annot(&c.anf).to_text()).unwrap();
    // input of the composite middle-end model (C01 pipeline composition): the type definitions of `genv`
    writeln!(out, "{}\tGENV\t{}", id, tagged("genv", vec![crate::c07::enums_s(c.genv.enums()), crate::c07::structs_s(c.genv.structs())]).to_text()).unwrap();
    // input of the type-soundness oracle (`gomlmodel tsound`): builtin / extern schemes and trait definitions of `genv`
    writeln!(out, "{}\tSIG\t{}\t{}", id, crate::c03::builtins_s(&c.genv).to_text(), crate::c03::traits_s(&c.genv).to_text()).unwrap();
    // the printer tie: what the user runs is the printed text
    let text = c.go.to_pretty(&c.goenv, 120);
    let erased = crate::goparse::erase_file(&c.go);
    let verdict = match crate::goparse::parse_go(&text) {
        Ok(parsed) => {
            if parsed == erased {
                "ok".to_string()
            } else {
                let d = crate::goparse::first_diff(&erased, &parsed, &mut Vec::new());
                format!("diff\t{}", crate::sexp::esc_line(&format!("{:?}", d)))
            }
        }
        Err(e) => format!("parse-error\t{}", crate::sexp::esc_line(&e)),
    };
    writeln!(out, "{}\tPPRINT\t{}", id, verdict).unwrap();
}

/// a library package `Lib` (optionally a second one `Base` below it) exporting a struct, an enum,
/// a generic enum, a trait with impls, generic and trait-bounded functions, a closure-returning
/// function; `Main` uses item kind `i % 12` across the boundary (qualified names, dyn, generics)
pub fn multi_package_project(i: usize) -> (Vec<(String, String)>, String) {
    let two = i % 2 == 1;
    let mut files = Vec::new();
    let base = "package Base\n\nstruct Unit2 { v: int32 }\n\nfn base_val(u: Unit2) -> int32 { u.v * 2 }\n\ntrait Named { fn name(Self) -> string; }\n\nimpl Named for Unit2 { fn name(self: Unit2) -> string { \"unit2\" } }\n";
    let mut lib = String::from("package Lib\n");
    if two {
        lib.push_str("import Base\n");
    }
    lib.push_str("\nstruct Pebble { w: int32 }\n\nenum Shape { Dot, Box(int32, int32) }\n\nenum Maybe[T] { Nothing, Just(T) }\n\ntrait Pretty { fn show(Self) -> string; }\n\nimpl Pretty for Pebble { fn show(self: Pebble) -> string { \"pebble \" + int32_to_string(self.w) } }\n\nimpl Pretty for Shape { fn show(self: Shape) -> string { match self { Shape::Dot => \"dot\", Shape::Box(a, b) => \"box \" + int32_to_string(a * b), } } }\n\nimpl Pretty for int32 { fn show(self: int32) -> string { \"int \" + int32_to_string(self) } }\n\nfn area(s: Shape) -> int32 { match s { Shape::Dot => 0, Shape::Box(a, b) => a * b, } }\n\nfn pick[T](c: bool, a: T, b: T) -> T { if c { a } else { b } }\n\nfn twice[T: Pretty](x: T) -> string { Pretty::show(x) + \"/\" + x.show() }\n\nfn unwrap_or(m: Maybe[int32], d: int32) -> int32 { match m { Maybe::Just(v) => v, Maybe::Nothing => d, } }\n\nfn label() -> string { let d: Pebble = Pebble { w: 1 }; let s: dyn Pretty = d; Pretty::show(s) }\n\nfn adder(k: int32) -> (int32) -> int32 { |x: int32| x + k }\n");
    if two {
        lib.push_str("\nfn via_base(n: int32) -> int32 { Base::base_val(Base::Unit2 { v: n }) }\n\nfn base_name() -> string { let u: dyn Base::Named = Base::Unit2 { v: 1 }; Base::Named::name(u) }\n");
    }
    let body = match i % 12 {
        0 => "string_println(Lib::label())".to_string(),
        1 => "let p = Lib::Pebble { w: 4 }; string_println(Lib::Pretty::show(p))".to_string(),
        2 => "let p: Lib::Pebble = Lib::Pebble { w: 5 }; let d: dyn Lib::Pretty = p; string_println(Lib::Pretty::show(d))".to_string(),
        3 => "let s = Lib::Shape::Box(2, 3); string_println(int32_to_string(Lib::area(s)))".to_string(),
        4 => "let s = Lib::Shape::Box(2, 3); let r = match s { Lib::Shape::Dot => 0, Lib::Shape::Box(a, b) => a + b, }; string_println(int32_to_string(r))".to_string(),
        5 => "string_println(Lib::twice(Lib::Pebble { w: 2 }) + Lib::twice(7))".to_string(),
        6 => "let m: Lib::Maybe[int32] = Lib::Maybe::Just(9); string_println(int32_to_string(Lib::unwrap_or(m, 1)))".to_string(),
        7 => "string_println(int32_to_string(Lib::pick(true, 1, 2)) + Lib::pick(false, \"a\", \"b\"))".to_string(),
        8 => "let f = Lib::adder(3); string_println(int32_to_string(f(4)))".to_string(),
        9 => "let s0: Lib::Shape = Lib::Shape::Dot; let d: dyn Lib::Pretty = s0; let n: int32 = 12; let e: dyn Lib::Pretty = n; string_println(Lib::Pretty::show(d) + Lib::Pretty::show(e))".to_string(),
        10 => "let m: Lib::Maybe[Lib::Pebble] = Lib::Maybe::Just(Lib::Pebble { w: 8 }); let r = match m { Lib::Maybe::Just(p) => p.w, Lib::Maybe::Nothing => 0, }; string_println(int32_to_string(r))".to_string(),
        _ => "let x = Lib::Shape::Box(1, 2); string_println(Lib::twice(x))".to_string(),
    };
    let extra = if two { "\n    string_println(int32_to_string(Lib::via_base(5)) + Lib::base_name());" } else { "" };
    // every third project: Main declares items spelled like Lib's (an enum with the variants in the
    // other order, a struct with other fields, a function, an impl of Lib's trait for its own type)
    let clash = i % 3 == 2;
    let (decls, clash_body) = if clash {
        (
            "enum Shape { Box(int32, int32), Dot }\n\nstruct Pebble { extra: int32, w: int32 }\n\nfn area(s: Shape) -> int32 { match s { Shape::Dot => 0 - 1, Shape::Box(a, b) => a + b, } }\n\nimpl Lib::Pretty for Pebble { fn show(self: Pebble) -> string { \"main pebble \" + int32_to_string(self.extra) } }\n\n",
            "\n    let own = Shape::Box(4, 5);\n    let theirs = Lib::Shape::Box(4, 5);\n    string_println(int32_to_string(area(own)) + \" \" + int32_to_string(Lib::area(theirs)));\n    let mp = Pebble { w: 1, extra: 2 };\n    string_println(Lib::Pretty::show(mp) + \"/\" + Lib::Pretty::show(Lib::Pebble { w: 3 }));\n    let r1 = match theirs { Lib::Shape::Dot => 0, Lib::Shape::Box(a, _) => a, };\n    let r2 = match own { Shape::Dot => 0, Shape::Box(_, b) => b, };\n    let Pebble { w: pw, extra: pe } = mp;\n    string_println(int32_to_string(r1 * 1000 + r2 * 100 + pw * 10 + pe));",
        )
    } else {
        ("", "")
    };
    let main = format!("package Main\nimport Lib\n\n{}fn main() {{\n    {};{}{}\n    ()\n}}\n", decls, body, extra, clash_body);
    if two {
        files.push(("Base/lib.gom".to_string(), base.to_string()));
    }
    files.push(("Lib/lib.gom".to_string(), lib));
    files.push(("main.gom".to_string(), main.clone()));
    (files, main)
}

pub fn main(args: &util::Args) {
    util::quiet_panics();
    let mut out = String::new();
    for d in util::corpus_pipeline_dirs() {
        let path = d.join("main.gom");
        let Ok(src) = std::fs::read_to_string(&path) else { continue };
        let id = format!("repo:{}", d.file_name().unwrap().to_string_lossy());
        let expected = std::fs::read_to_string(d.join("main.gom.out")).ok();
        match util::compile_path(&path, &src) {
            Outcome::Ok(c) => {
                writeln!(
                    out,
                    "{}\tEXPECT\t{}\t{}",
                    id,
                    if expected.is_some() { "out" } else { "none" },
                    crate::sexp::esc_line(expected.as_deref().unwrap_or(""))
                )
                .unwrap();
                dump_src(&id, &path, &src, &mut out);
                dump_case(&id, &c, &mut out);
            }
            Outcome::Err(stage, msgs) => {
                writeln!(out, "{}\tREJECT\t{}\t{}", id, stage, crate::sexp::esc_line(&msgs.join(" | "))).unwrap()
            }
            Outcome::Panic(m) => writeln!(out, "{}\tPANIC\t{}", id, crate::sexp::esc_line(&m)).unwrap(),
        }
    }
    // the repository's multi-package projects
    {
        let pk = util::repo_root().join("crates/compiler/src/tests/package");
        let mut dirs: Vec<_> = std::fs::read_dir(&pk)
            .map(|rd| rd.filter_map(|e| e.ok().map(|e| e.path())).filter(|p| p.join("main.gom").exists()).collect())
            .unwrap_or_default();
        dirs.sort();
        for d in dirs {
            let path = d.join("main.gom");
            let Ok(src) = std::fs::read_to_string(&path) else { continue };
            let id = format!("pkg:{}", d.file_name().unwrap().to_string_lossy());
            let expected = std::fs::read_to_string(d.join("main.gom.out")).ok();
            match util::compile_path(&path, &src) {
                Outcome::Ok(c) => {
                    writeln!(out, "{}\tEXPECT\t{}\t{}", id, if expected.is_some() { "out" } else { "none" }, crate::sexp::esc_line(expected.as_deref().unwrap_or(""))).unwrap();
                    dump_src(&id, &path, &src, &mut out);
                    dump_case(&id, &c, &mut out);
                }
                Outcome::Err(stage, msgs) => writeln!(out, "{}\tREJECT\t{}\t{}", id, stage, crate::sexp::esc_line(&msgs.join(" | "))).unwrap(),
                Outcome::Panic(m) => writeln!(out, "{}\tPANIC\t{}", id, crate::sexp::esc_line(&m)).unwrap(),
            }
        }
    }
    // generated two-/three-package projects: every kind of item used across a package boundary
    {
        let dir = util::scratch_dir("c01m");
        let n_multi = if args.tier == "thorough" { 96 } else { 24 };
        for i in 0..n_multi {
            let (files, main_src) = multi_package_project(i);
            let root = dir.join(format!("m{}", i));
            let _ = std::fs::remove_dir_all(&root);
            for (rel, text) in &files {
                let p = root.join(rel);
                std::fs::create_dir_all(p.parent().unwrap()).unwrap();
                std::fs::write(&p, text).unwrap();
            }
            let id = format!("multi:{}", i);
            let all: String = files.iter().map(|(r, t)| format!("// {}\n{}", r, t)).collect::<Vec<_>>().join("\n");
            match util::compile_path(&root.join("main.gom"), &main_src) {
                Outcome::Ok(c) => {
                    writeln!(out, "{}\tEXPECT\tnone\t", id).unwrap();
                    writeln!(out, "{}\tSRC\t{}", id, crate::sexp::esc_line(&all)).unwrap();
                    dump_src(&id, &root.join("main.gom"), &main_src, &mut out);
                    dump_case(&id, &c, &mut out);
                }
                Outcome::Err(stage, msgs) => writeln!(out, "{}\tREJECT\t{}\t{}\t{}", id, stage, crate::sexp::esc_line(&msgs.join(" | ")), crate::sexp::esc_line(&all)).unwrap(),
                Outcome::Panic(m) => writeln!(out, "{}\tPANIC\t{}\t{}", id, crate::sexp::esc_line(&m), crate::sexp::esc_line(&all)).unwrap(),
            }
        }
        let _ = std::fs::remove_dir_all(&dir);
    }
    // minimised past failures kept under /verif/corpus
    for sub in ["C01", "C01pipe", "C02", "C03", "C06", "C07", "C08", "C09", "C17"] {
        let Ok(rd) = std::fs::read_dir(util::verif_root().join("corpus").join(sub)) else { continue };
        // a witness is a single file `<name>.gom` or a project `<name>/main.gom` (+ package sub-directories), compiled where it lives
        let mut files: Vec<_> = rd
            .filter_map(|e| e.ok().map(|e| e.path()))
            .filter(|p| p.extension().is_some_and(|x| x == "gom") || p.join("main.gom").is_file())
            .collect();
        files.sort();
        let dir = util::scratch_dir("c01c");
        for f in files {
            let project = f.is_dir();
            let name = f.file_name().unwrap().to_string_lossy().to_string();
            let f = if project { f.join("main.gom") } else { f };
            let Ok(src) = std::fs::read_to_string(&f) else { continue };
            let id = format!("corpus:{}/{}", sub, name);
            // `<name>.gom.out`: the output the SOURCE denotes, written down by hand with the witness
            let expected = std::fs::read_to_string(format!("{}.out", f.display())).ok();
            match if project { util::compile_path(&f, &src) } else { util::compile_text(&dir, &src) } {
                Outcome::Ok(c) => {
                    writeln!(
                        out,
                        "{}\tEXPECT\t{}\t{}",
                        id,
                        if expected.is_some() { "out" } else { "none" },
                        crate::sexp::esc_line(expected.as_deref().unwrap_or(""))
                    )
                    .unwrap();
                    writeln!(out, "{}\tSRC\t{}", id, crate::sexp::esc_line(&src)).unwrap();
                    dump_src(&id, &if project { f.clone() } else { dir.join("main.gom") }, &src, &mut out);
                    dump_case(&id, &c, &mut out);
                }
                Outcome::Err(stage, msgs) => writeln!(out, "{}\tREJECT\t{}\t{}\t{}", id, stage, crate::sexp::esc_line(&msgs.join(" | ")), crate::sexp::esc_line(&src)).unwrap(),
                Outcome::Panic(m) => writeln!(out, "{}\tPANIC\t{}\t{}", id, crate::sexp::esc_line(&m), crate::sexp::esc_line(&src)).unwrap(),
            }
        }
        let _ = std::fs::remove_dir_all(&dir);
    }
    // C08's capture sites whose loss only shows where the variable is used: the contexts that were
    // once skipped by a seeded change of `collect_captured` (go operand, match default), nesting 2
    {
        let dir = util::scratch_dir("c01s");
        for cx in ["go-lit", "go-named", "match-default", "enum-default", "str-match-default", "while-body", "dyn-arg"] {
            for kind in crate::progen::SITE_KINDS.iter() {
                let mut root = crate::rng::Rng::new(args.seed);
                let mut rng = root.fork(0x51_7E00 + (cx.len() * 16 + kind.len()) as u64);
                let Some(src) = crate::progen::capture_site_program(cx, kind, 2, &mut rng) else { continue };
                let id = format!("site:{}:{}:d2", cx, kind);
                match util::compile_text(&dir, &src) {
                    Outcome::Ok(c) => {
                        writeln!(out, "{}\tEXPECT\tnone\t", id).unwrap();
                        writeln!(out, "{}\tSRC\t{}", id, crate::sexp::esc_line(&src)).unwrap();
                        dump_case(&id, &c, &mut out);
                    }
                    Outcome::Err(stage, msgs) => writeln!(out, "{}\tREJECT\t{}\t{}\t{}", id, stage, crate::sexp::esc_line(&msgs.join(" | ")), crate::sexp::esc_line(&src)).unwrap(),
                    Outcome::Panic(m) => writeln!(out, "{}\tPANIC\t{}\t{}", id, crate::sexp::esc_line(&m), crate::sexp::esc_line(&src)).unwrap(),
                }
            }
        }
        let _ = std::fs::remove_dir_all(&dir);
    }
    // a local binder spelled like a package-level name (harness/src/namecat.rs): every binder kind x use
    // position x kind of package-level name x declaring file; each program (`…:a`) with its twin (`…:b`)
    // whose binder has a fresh name, the output both print by construction, and the lowering oracle.
    // A program that is rejected although its twin is accepted is split into its cells (one program each),
    // so that the cells that are still accepted are compared for behaviour
    {
        let dir = util::scratch_dir("c01n");
        let mut emit = |case: &crate::namecat::NameCase, out: &mut String| -> (bool, bool) {
            let all = |files: &[(String, String)]| files.iter().map(|(r, t)| format!("//// file: {}\n{}", r, t)).collect::<Vec<_>>().join("");
            let mut ok = [false, false];
            for (k, (suffix, files)) in [("a", &case.files), ("b", &case.twin)].into_iter().enumerate() {
                let id = format!("{}:{}", case.id, suffix);
                let entry = crate::namecat::write_project(&dir.join(suffix), files);
                let text = all(files);
                match util::compile_path(&entry, &files[0].1) {
                    Outcome::Ok(c) => {
                        ok[k] = true;
                        writeln!(out, "{}\tEXPECT\tout\t{}", id, crate::sexp::esc_line(&case.expected)).unwrap();
                        writeln!(out, "{}\tSRC\t{}", id, crate::sexp::esc_line(&text)).unwrap();
                        dump_src(&id, &entry, &files[0].1, out);
                        dump_case(&id, &c, out);
                    }
                    Outcome::Err(stage, msgs) => writeln!(out, "{}\tREJECT\t{}\t{}\t{}", id, stage, crate::sexp::esc_line(&msgs.join(" | ")), crate::sexp::esc_line(&text)).unwrap(),
                    Outcome::Panic(m) => writeln!(out, "{}\tPANIC\t{}\t{}", id, crate::sexp::esc_line(&m), crate::sexp::esc_line(&text)).unwrap(),
                }
            }
            let cells = case.cells.iter().map(|(u, b)| format!("{}/{}", u, b)).collect::<Vec<_>>().join(" ");
            match crate::namecat::lowering_alpha(case, &dir) {
                Ok(n) => writeln!(out, "{}:a\tALPHA\tok\t{}\t{}\t{}\t{}", case.id, n, case.name, case.fresh, cells).unwrap(),
                Err(e) => writeln!(out, "{}:a\tALPHA\tdiff\t{}\t{}\t{}\t{}", case.id, crate::sexp::esc_line(&e), case.name, case.fresh, cells).unwrap(),
            }
            (ok[0], ok[1])
        };
        for case in crate::namecat::catalogue(args.seed, args.tier == "thorough") {
            let (a_ok, b_ok) = emit(&case, &mut out);
            if !a_ok && b_ok {
                for single in case.split() {
                    emit(&single, &mut out);
                }
            }
        }
        let _ = std::fs::remove_dir_all(&dir);
    }
    // constructor names in PATTERN position under a local binder of the same spelling (harness/src/patpos.rs):
    // programs that print, by construction, what first-match semantics on the written patterns prints; a third
    // of the catalogue (chosen by the seed) in the quick tier — C06 and C05 run all of it
    {
        let dir = util::scratch_dir("c01q");
        for (i, case) in crate::patpos::catalogue().into_iter().enumerate() {
            if args.tier != "thorough" && i % 3 != (args.seed % 3) as usize {
                continue;
            }
            let entry = dir.join("main.gom");
            match util::compile_text(&dir, &case.src) {
                Outcome::Ok(c) => {
                    writeln!(out, "{}\tEXPECT\tout\t{}", case.id, crate::sexp::esc_line(&case.expected)).unwrap();
                    writeln!(out, "{}\tSRC\t{}", case.id, crate::sexp::esc_line(&case.src)).unwrap();
                    dump_src(&case.id, &entry, &case.src, &mut out);
                    dump_case(&case.id, &c, &mut out);
                }
                Outcome::Err(stage, msgs) => writeln!(out, "{}\tREJECT\t{}\t{}\t{}", case.id, stage, crate::sexp::esc_line(&msgs.join(" | ")), crate::sexp::esc_line(&case.src)).unwrap(),
                Outcome::Panic(m) => writeln!(out, "{}\tPANIC\t{}\t{}", case.id, crate::sexp::esc_line(&m), crate::sexp::esc_line(&case.src)).unwrap(),
            }
        }
        let _ = std::fs::remove_dir_all(&dir);
    }
    // generated programs (G-prog)
    let total = args.n.unwrap_or(if args.tier == "thorough" { 3000 } else { 300 });
    let dir = util::scratch_dir("c01");
    let mut feats_total: std::collections::BTreeMap<&'static str, usize> = Default::default();
    // … followed by total/6 programs over the rich-generics library (generic functions, methods, types,
    // inherent impls of single instantiations overlapping the generic impls)
    for i in 0..total + total / 6 {
        let mut root = crate::rng::Rng::new(args.seed);
        let mut rng = root.fork(i as u64);
        let rich = i >= total;
        let cfg = if rich {
            crate::progen::Cfg {
                traits: i % 3 != 0,
                generics: true,
                max_depth: 1 + i % 2,
                effects: true,
                rich_generics: true,
                vec_generics: true,
                overlapping_impls: true,
                result_only_generics: true,
                cov_shapes: i % 4 == 1,
                finite_polyrec: true,
                ..Default::default()
            }
        } else { crate::progen::Cfg {
            closure_flows: i % 10 == 9,
            traits: i % 3 != 0,
            generics: i % 2 == 0,
            go_stmt: i % 7 == 3,
            max_depth: 1 + i % 3,
            effects: true,
            wildcard_arrays: i % 10 == 8,
            src_forms: i % 4 != 1,
            lit_field_effects: i % 20 == 7,
            nested_patterns: i % 4 == 1,
            logic_rhs_shapes: i % 5 == 2,
            cov_shapes: i % 6 == 4,
            ..Default::default()
        } };
        let (src, feats) = crate::progen::gen_program(&mut rng, cfg);
        let id = format!(
            "gen:{}:{}{}{}{}{}{}",
            args.seed,
            i,
            if rich { ":rg" } else { "" },
            if cfg.closure_flows { ":cf" } else { "" },
            if cfg.wildcard_arrays { ":wa" } else { "" },
            if cfg.lit_field_effects { ":lfe" } else { "" },
            if cfg.cov_shapes { ":cov" } else { "" }
        );
        match util::compile_text(&dir, &src) {
            Outcome::Ok(c) => {
                for (k, v) in feats {
                    *feats_total.entry(k).or_default() += v;
                }
                writeln!(out, "{}\tEXPECT\tnone\t", id).unwrap();
                writeln!(out, "{}\tSRC\t{}", id, crate::sexp::esc_line(&src)).unwrap();
                dump_src(&id, &dir.join("main.gom"), &src, &mut out);
                dump_case(&id, &c, &mut out);
            }
            Outcome::Err(stage, msgs) => {
                writeln!(out, "{}\tREJECT\t{}\t{}\t{}", id, stage, crate::sexp::esc_line(&msgs.join(" | ")), crate::sexp::esc_line(&src)).unwrap()
            }
            Outcome::Panic(m) => writeln!(out, "{}\tPANIC\t{}\t{}", id, crate::sexp::esc_line(&m), crate::sexp::esc_line(&src)).unwrap(),
        }
    }
    writeln!(out, "#FEATS\t{}", feats_total.iter().map(|(k, v)| format!("{}={}", k, v)).collect::<Vec<_>>().join(" ")).unwrap();
    let _ = std::fs::remove_dir_all(&dir);
    let _ = std::fs::create_dir_all(&args.out);
    std::fs::write(args.out.join("c01.cases.tsv"), out).unwrap();
}
