//! C01 — stage dumps of accepted programs for the Lean interpreters (`Sem`, `Go.Sem`).
use crate::dump;
use crate::godump;
use crate::sexp::{S, a, l, tagged};
use crate::util::{self, Outcome};
use compiler::env::GlobalTypeEnv;
use compiler::tast::Ty;
use std::fmt::Write as _;

pub fn ty_key(t: &Ty) -> String {
    match t {
        Ty::TUnit => "unit".into(),
        Ty::TBool => "bool".into(),
        Ty::TString => "string".into(),
        Ty::TInt8 => "int8".into(),
        Ty::TInt16 => "int16".into(),
        Ty::TInt32 => "int32".into(),
        Ty::TInt64 => "int64".into(),
        Ty::TUint8 => "uint8".into(),
        Ty::TUint16 => "uint16".into(),
        Ty::TUint32 => "uint32".into(),
        Ty::TUint64 => "uint64".into(),
        Ty::TFloat32 => "float32".into(),
        Ty::TFloat64 => "float64".into(),
        Ty::TEnum { name } | Ty::TStruct { name } => name.clone(),
        Ty::TApp { ty, .. } => ty_key(ty),
        _ => "?".into(),
    }
}

/// (trait, type key, method) -> implementing function: environment data for dyn/trait dispatch
pub fn impls_table(genv: &GlobalTypeEnv) -> S {
    let mut rows = Vec::new();
    for (key, def) in genv.trait_env.trait_impls.iter() {
        let (tr, ty) = (&key.0, &key.1);
        for (m, _) in def.methods.iter() {
            let tr_ident = compiler::tast::TastIdent::new(tr);
            let f = compiler::names::trait_impl_fn_name(&tr_ident, ty, m);
            rows.push(l(vec![a(tr), a(ty_key(ty)), a(m), a(f)]));
        }
    }
    tagged("impls", rows)
}

pub fn prog(file: S, impls: &S) -> S {
    tagged("prog", vec![file, impls.clone()])
}

pub fn dump_case(id: &str, c: &compiler::pipeline::pipeline::Compilation, out: &mut String) {
    let impls = impls_table(&c.genv);
    writeln!(out, "{}\tSTAGE\tcore\t{}", id, prog(dump::core_file(&c.core), &impls).to_text()).unwrap();
    writeln!(out, "{}\tSTAGE\tmono\t{}", id, prog(dump::mono_file(&c.mono), &impls).to_text()).unwrap();
    writeln!(out, "{}\tSTAGE\tlift\t{}", id, prog(dump::lift_file(&c.lambda), &impls).to_text()).unwrap();
    writeln!(out, "{}\tSTAGE\tanf\t{}", id, prog(dump::anf_file(&c.anf), &impls).to_text()).unwrap();
    writeln!(out, "{}\tSTAGE\tgo\t{}", id, godump::gfile(&c.go).to_text()).unwrap();
}

pub fn main(args: &util::Args) {
    util::quiet_panics();
    let mut out = String::new();
    for d in util::corpus_pipeline_dirs() {
        let path = d.join("main.gom");
        let Ok(src) = std::fs::read_to_string(&path) else { continue };
        let id = format!("repo:{}", d.file_name().unwrap().to_string_lossy());
        let expected = std::fs::read_to_string(d.join("main.gom.out")).ok();
        match util::compile_path(&path, &src) {
            Outcome::Ok(c) => {
                writeln!(
                    out,
                    "{}\tEXPECT\t{}\t{}",
                    id,
                    if expected.is_some() { "out" } else { "none" },
                    crate::sexp::esc_line(expected.as_deref().unwrap_or(""))
                )
                .unwrap();
                dump_case(&id, &c, &mut out);
            }
            Outcome::Err(stage, msgs) => {
                writeln!(out, "{}\tREJECT\t{}\t{}", id, stage, crate::sexp::esc_line(&msgs.join(" | "))).unwrap()
            }
            Outcome::Panic(m) => writeln!(out, "{}\tPANIC\t{}", id, crate::sexp::esc_line(&m)).unwrap(),
        }
    }
    // minimised past failures kept under /verif/corpus
    for sub in ["C01", "C02", "C03", "C06", "C07", "C08", "C09"] {
        let Ok(rd) = std::fs::read_dir(util::verif_root().join("corpus").join(sub)) else { continue };
        let mut files: Vec<_> = rd.filter_map(|e| e.ok().map(|e| e.path())).filter(|p| p.extension().is_some_and(|x| x == "gom")).collect();
        files.sort();
        let dir = util::scratch_dir("c01c");
        for f in files {
            let Ok(src) = std::fs::read_to_string(&f) else { continue };
            let id = format!("corpus:{}/{}", sub, f.file_name().unwrap().to_string_lossy());
            match util::compile_text(&dir, &src) {
                Outcome::Ok(c) => {
                    writeln!(out, "{}\tEXPECT\tnone\t", id).unwrap();
                    writeln!(out, "{}\tSRC\t{}", id, crate::sexp::esc_line(&src)).unwrap();
                    dump_case(&id, &c, &mut out);
                }
                Outcome::Err(stage, msgs) => writeln!(out, "{}\tREJECT\t{}\t{}\t{}", id, stage, crate::sexp::esc_line(&msgs.join(" | ")), crate::sexp::esc_line(&src)).unwrap(),
                Outcome::Panic(m) => writeln!(out, "{}\tPANIC\t{}\t{}", id, crate::sexp::esc_line(&m), crate::sexp::esc_line(&src)).unwrap(),
            }
        }
        let _ = std::fs::remove_dir_all(&dir);
    }
    // generated programs (G-prog)
    let total = args.n.unwrap_or(if args.tier == "thorough" { 3000 } else { 300 });
    let dir = util::scratch_dir("c01");
    let mut feats_total: std::collections::BTreeMap<&'static str, usize> = Default::default();
    for i in 0..total {
        let mut root = crate::rng::Rng::new(args.seed);
        let mut rng = root.fork(i as u64);
        let cfg = crate::progen::Cfg {
            closure_flows: i % 10 == 9,
            traits: i % 3 != 0,
            generics: i % 2 == 0,
            go_stmt: i % 7 == 3,
            max_depth: 1 + i % 3,
            effects: true,
            wildcard_arrays: i % 10 == 8,
            ..Default::default()
        };
        let (src, feats) = crate::progen::gen_program(&mut rng, cfg);
        let id = format!(
            "gen:{}:{}{}{}",
            args.seed,
            i,
            if cfg.closure_flows { ":cf" } else { "" },
            if cfg.wildcard_arrays { ":wa" } else { "" }
        );
        match util::compile_text(&dir, &src) {
            Outcome::Ok(c) => {
                for (k, v) in feats {
                    *feats_total.entry(k).or_default() += v;
                }
                writeln!(out, "{}\tEXPECT\tnone\t", id).unwrap();
                writeln!(out, "{}\tSRC\t{}", id, crate::sexp::esc_line(&src)).unwrap();
                dump_case(&id, &c, &mut out);
            }
            Outcome::Err(stage, msgs) => {
                writeln!(out, "{}\tREJECT\t{}\t{}\t{}", id, stage, crate::sexp::esc_line(&msgs.join(" | ")), crate::sexp::esc_line(&src)).unwrap()
            }
            Outcome::Panic(m) => writeln!(out, "{}\tPANIC\t{}\t{}", id, crate::sexp::esc_line(&m), crate::sexp::esc_line(&src)).unwrap(),
        }
    }
    writeln!(out, "#FEATS\t{}", feats_total.iter().map(|(k, v)| format!("{}={}", k, v)).collect::<Vec<_>>().join(" ")).unwrap();
    let _ = std::fs::remove_dir_all(&dir);
    let _ = std::fs::create_dir_all(&args.out);
    std::fs::write(args.out.join("c01.cases.tsv"), out).unwrap();
}
