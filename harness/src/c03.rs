//! C03 — acceptance is type-sound: every REAL stage dump (Core, Mono, Lift, ANF) of every accepted
//! corpus / generated program, together with the signature environment of that stage (functions of
//! the file, builtin and extern schemes, enum / struct definitions of genv / monoenv / liftenv,
//! trait method signatures), for the Lean checker `Wt.errs` + `Closed`; and an ill-typed stream:
//! one type error injected at one position of a well-typed generated program, which the real
//! compiler must reject in the typer.
//!   `WT  <id> <stage> (wtcase …)`        a stage dump with its environment
//!   `ANN <id> <stage> <n> <detail>`      annotations the dump drops (let/if/while/go/prim) that
//!                                        disagree with the sub-expression they repeat
//!   `ILL <id> <kind> <site> <outcome>`   outcome of the real compiler on an ill-typed variant
use crate::c07::{self, Staged};
use crate::dump;
use crate::sexp::{S, a, esc_line, l, tagged};
use crate::util;
use compiler::env::{EnumDef, FnOrigin, GlobalTypeEnv, StructDef};
use compiler::tast::{TastIdent, Ty};
use indexmap::IndexMap;
use std::fmt::Write as _;

#[path = "c03arity.rs"]
pub mod arity;
#[path = "c03argty.rs"]
pub mod argty;

pub fn builtins_s(genv: &GlobalTypeEnv) -> S {
    let mut rows = Vec::new();
    for (name, sch) in genv.value_env.funcs.iter() {
        if matches!(sch.origin, FnOrigin::Builtin) {
            rows.push(l(vec![a(name), dump::ty(&sch.ty)]));
        }
    }
    for (name, ext) in genv.value_env.extern_funcs.iter() {
        rows.push(l(vec![a(name), dump::ty(&ext.ty)]));
    }
    // the runtime function compile_match calls where no arm matches (`emissing`): not part of genv
    rows.push(l(vec![a("missing"), dump::ty(&Ty::TFunc { params: vec![Ty::TString], ret_ty: Box::new(Ty::TParam { name: "T".into() }) })]));
    tagged("builtins", rows)
}

pub fn traits_s(genv: &GlobalTypeEnv) -> S {
    let mut rows = Vec::new();
    for (name, def) in genv.trait_env.trait_defs.iter() {
        let mut v = vec![a(name)];
        for (m, sch) in def.methods.iter() {
            v.push(l(vec![a(m), dump::ty(&sch.ty)]));
        }
        rows.push(tagged("trait", v));
    }
    tagged("traits", rows)
}

fn wtcase(stage: &str, file: S, enums: S, structs: S, genv: &GlobalTypeEnv) -> S {
    tagged("wtcase", vec![a(stage), file, enums, structs, builtins_s(genv), traits_s(genv)])
}

// ---------------------------------------------------------------- annotations the dump drops

fn prim_ty(p: &compiler::common::Prim) -> Ty {
    use compiler::common::Prim as P;
    match p {
        P::Unit { .. } => Ty::TUnit,
        P::Bool { .. } => Ty::TBool,
        P::Int8 { .. } => Ty::TInt8,
        P::Int16 { .. } => Ty::TInt16,
        P::Int32 { .. } => Ty::TInt32,
        P::Int64 { .. } => Ty::TInt64,
        P::UInt8 { .. } => Ty::TUint8,
        P::UInt16 { .. } => Ty::TUint16,
        P::UInt32 { .. } => Ty::TUint32,
        P::UInt64 { .. } => Ty::TUint64,
        P::Float32 { .. } => Ty::TFloat32,
        P::Float64 { .. } => Ty::TFloat64,
        P::String { .. } => Ty::TString,
    }
}

fn ty_class(t: &Ty) -> &'static str {
    match t {
        Ty::TFunc { .. } => "func",
        Ty::TStruct { name } if name.starts_with("closure_env_") => "closure-env",
        Ty::TStruct { .. } => "struct",
        Ty::TEnum { .. } => "enum",
        Ty::TTuple { .. } => "tuple",
        Ty::TParam { .. } => "param",
        Ty::TApp { .. } => "app",
        _ => "other",
    }
}

fn tparams_of(t: &Ty, out: &mut std::collections::BTreeSet<String>) {
    match t {
        Ty::TParam { name } => {
            out.insert(name.clone());
        }
        Ty::TTuple { typs } => typs.iter().for_each(|t| tparams_of(t, out)),
        Ty::TApp { ty, args } => {
            tparams_of(ty, out);
            args.iter().for_each(|t| tparams_of(t, out))
        }
        Ty::TArray { elem, .. } | Ty::TVec { elem } | Ty::TRef { elem } => tparams_of(elem, out),
        Ty::TFunc { params, ret_ty } => {
            params.iter().for_each(|t| tparams_of(t, out));
            tparams_of(ret_ty, out)
        }
        _ => {}
    }
}

fn ty_eq(a: &Ty, b: &Ty) -> bool {
    a == b
}

macro_rules! ann_check {
    ($fname:ident, $E:ident, $modname:ident, $bad:ident, [$($extra:tt)*]) => {
        /// let/if/while/go/prim annotations must repeat the type of the sub-expression that carries it
        fn $fname(e: &compiler::$modname::$E, $bad: &mut Vec<String>) {
            use compiler::$modname::$E as E;
            /// the type of the expression, read through `let` (whose own field holds the bound type)
            fn real(e: &compiler::$modname::$E) -> Ty {
                match e {
                    E::ELet { body, .. } => real(body),
                    other => other.get_ty(),
                }
            }
            match e {
                E::EVar { .. } => {}
                E::EPrim { value, ty } => {
                    if !ty_eq(&prim_ty(value), ty) {
                        $bad.push("prim".into());
                    }
                }
                E::EConstr { args, .. } => args.iter().for_each(|x| $fname(x, $bad)),
                E::ETuple { items, .. } | E::EArray { items, .. } => items.iter().for_each(|x| $fname(x, $bad)),
                E::ELet { value, body, ty, .. } => {
                    $fname(value, $bad);
                    $fname(body, $bad);
                    if !ty_eq(&real(body), ty) {
                        $bad.push("let".into());
                    }
                }
                E::EMatch { expr, arms, default, .. } => {
                    $fname(expr, $bad);
                    for arm in arms {
                        $fname(&arm.body, $bad);
                    }
                    if let Some(d) = default {
                        $fname(d, $bad)
                    }
                }
                E::EIf { cond, then_branch, else_branch, ty } => {
                    $fname(cond, $bad);
                    $fname(then_branch, $bad);
                    $fname(else_branch, $bad);
                    if !ty_eq(&real(then_branch), ty) {
                        $bad.push(format!("if:{}/{}", ty_class(&real(then_branch)), ty_class(ty)));
                    }
                }
                E::EWhile { cond, body, ty } => {
                    $fname(cond, $bad);
                    $fname(body, $bad);
                    if !ty_eq(ty, &Ty::TUnit) {
                        $bad.push("while".into());
                    }
                }
                E::EGo { expr, ty } => {
                    $fname(expr, $bad);
                    if !ty_eq(ty, &Ty::TUnit) {
                        $bad.push("go".into());
                    }
                }
                E::EConstrGet { expr, .. } | E::EUnary { expr, .. } | E::EToDyn { expr, .. } => $fname(expr, $bad),
                E::EBinary { lhs, rhs, .. } => {
                    $fname(lhs, $bad);
                    $fname(rhs, $bad)
                }
                E::ECall { func, args, .. } => {
                    $fname(func, $bad);
                    args.iter().for_each(|x| $fname(x, $bad))
                }
                E::EDynCall { receiver, args, .. } => {
                    $fname(receiver, $bad);
                    args.iter().for_each(|x| $fname(x, $bad))
                }
                E::EProj { tuple, .. } => $fname(tuple, $bad),
                $($extra)*
            }
        }
    };
}

ann_check!(ann_core, Expr, core, bad, [
    E::EClosure { body, .. } => ann_core(body, bad),
    E::ETraitCall { receiver, args, .. } => {
        ann_core(receiver, bad);
        args.iter().for_each(|x| ann_core(x, bad))
    }
]);
ann_check!(ann_mono, MonoExpr, mono, bad, [
    E::EClosure { body, .. } => ann_mono(body, bad),
]);
ann_check!(ann_lift, LiftExpr, lift, bad, []);

fn merged_enums(base: &IndexMap<TastIdent, EnumDef>, more: &IndexMap<TastIdent, EnumDef>) -> S {
    let mut m = base.clone();
    m.extend(more.clone());
    c07::enums_s(&m)
}
fn merged_structs(base: &IndexMap<TastIdent, StructDef>, more: &[&IndexMap<TastIdent, StructDef>]) -> S {
    let mut m = base.clone();
    for x in more {
        m.extend((*x).clone());
    }
    c07::structs_s(&m)
}

pub fn emit(id: &str, src: Option<&str>, st: &Staged, out: &mut String) {
    if let Some(s) = src {
        writeln!(out, "{}\tSRC\t{}", id, esc_line(s)).unwrap();
    }
    let Some(genv) = &st.genv else {
        if let Some((k, stage, msg)) = &st.stop {
            writeln!(out, "{}\t{}\t{}\t{}", id, k.to_uppercase(), stage, esc_line(msg)).unwrap();
        }
        return;
    };
    if let Some(core) = &st.core {
        let c = wtcase("core", dump::core_file(core), c07::enums_s(genv.enums()), c07::structs_s(genv.structs()), genv);
        writeln!(out, "{}\tWT\tcore\t{}", id, c.to_text()).unwrap();
        arity::emit_counts(id, "core", &dump::core_file(core), genv, genv.enums(), genv.structs(), out);
        let mut bad = Vec::new();
        core.toplevels.iter().for_each(|f| ann_core(&f.body, &mut bad));
        writeln!(out, "{}\tANN\tcore\t{}\t{}", id, bad.len(), bad.join(",")).unwrap();
    }
    if let Some((m, env)) = &st.mono {
        let c = wtcase(
            "mono",
            dump::mono_file(m),
            merged_enums(genv.enums(), &env.mono_enums),
            merged_structs(genv.structs(), &[&env.mono_structs]),
            genv,
        );
        writeln!(out, "{}\tWT\tmono\t{}", id, c.to_text()).unwrap();
        {
            let (mut en, mut sn) = (genv.enums().clone(), genv.structs().clone());
            en.extend(env.mono_enums.clone());
            sn.extend(env.mono_structs.clone());
            arity::emit_counts(id, "mono", &dump::mono_file(m), genv, &en, &sn, out);
        }
        let mut bad = Vec::new();
        m.toplevels.iter().for_each(|f| ann_mono(&f.body, &mut bad));
        writeln!(out, "{}\tANN\tmono\t{}\t{}", id, bad.len(), bad.join(",")).unwrap();
    }
    if let (Some((f, lenv)), Some((_, menv))) = (&st.lift, &st.mono) {
        let c = wtcase(
            "lift",
            dump::lift_file(f),
            merged_enums(genv.enums(), &menv.mono_enums),
            merged_structs(genv.structs(), &[&menv.mono_structs, &lenv.lifted_structs]),
            genv,
        );
        writeln!(out, "{}\tWT\tlift\t{}", id, c.to_text()).unwrap();
        let (mut en, mut sn) = (genv.enums().clone(), genv.structs().clone());
        en.extend(menv.mono_enums.clone());
        sn.extend(menv.mono_structs.clone());
        sn.extend(lenv.lifted_structs.clone());
        arity::emit_counts(id, "lift", &dump::lift_file(f), genv, &en, &sn, out);
        let mut bad = Vec::new();
        f.toplevels.iter().for_each(|g| ann_lift(&g.body, &mut bad));
        writeln!(out, "{}\tANN\tlift\t{}\t{}", id, bad.len(), bad.join(",")).unwrap();
        if let Some((af, _)) = &st.anf {
            let c = wtcase(
                "anf",
                dump::anf_file(af),
                merged_enums(genv.enums(), &menv.mono_enums),
                merged_structs(genv.structs(), &[&menv.mono_structs, &lenv.lifted_structs]),
                genv,
            );
            writeln!(out, "{}\tWT\tanf\t{}", id, c.to_text()).unwrap();
            arity::emit_counts(id, "anf", &dump::anf_file(af), genv, &en, &sn, out);
        }
    }
    if let Some(core) = &st.core {
        writeln!(out, "{}\tSIGTPARAMS\t{}", id, c07::sig_tparams(core).into_iter().collect::<Vec<_>>().join(" ")).unwrap();
    }
    if let (Some(core), Some(go)) = (&st.core, &st.go) {
        // names of the type parameters of the program (for the Go-stage residue check)
        let mut ps = std::collections::BTreeSet::new();
        for d in genv.enums().values() {
            ps.extend(d.generics.iter().map(|g| g.0.clone()));
        }
        for d in genv.structs().values() {
            ps.extend(d.generics.iter().map(|g| g.0.clone()));
        }
        for f in core.toplevels.iter() {
            ps.extend(f.generics.iter().cloned());
            for (_, t) in f.params.iter() {
                tparams_of(t, &mut ps);
            }
            tparams_of(&f.ret_ty, &mut ps);
        }
        writeln!(out, "{}\tTPARAMS\t{}", id, ps.into_iter().collect::<Vec<_>>().join(" ")).unwrap();
        writeln!(out, "{}\tGO\t{}", id, go).unwrap();
    }
    match &st.stop {
        None => writeln!(out, "{}\tDONE", id).unwrap(),
        Some((kind, stage, msg)) => writeln!(out, "{}\t{}\t{}\t{}", id, kind.to_uppercase(), stage, esc_line(msg)).unwrap(),
    }
}

fn run_in(dir: &std::path::Path, src: &str) -> Staged {
    let _ = std::fs::create_dir_all(dir);
    let p = dir.join("main.gom");
    let _ = std::fs::write(&p, src);
    c07::run_stages(&p, src, false)
}

pub fn gen_cfg(i: usize) -> crate::progen::Cfg {
    crate::progen::Cfg {
        closure_flows: i % 7 == 6,
        traits: i % 3 != 0,
        generics: true,
        go_stmt: i % 5 == 3,
        max_depth: 1 + i % 3,
        effects: true,
        wildcard_arrays: false,
        rich_generics: i % 2 == 0,
        vec_generics: true,
        dyn_generics: i % 4 == 0,
        generic_fn_values: false,
        overlapping_impls: i % 4 < 2,
        result_only_generics: i % 4 != 1,
        cov_shapes: i % 5 == 2,
        finite_polyrec: i % 3 == 0,
        ..Default::default()
    }
}

pub fn main(args: &util::Args) {
    util::quiet_panics();
    if args.rest.first().map(|s| s.as_str()) == Some("debug-ill") {
        debug_ill(args.seed, args.rest[1].parse().unwrap());
        return;
    }
    let mut out = String::new();
    // ---- the repository's corpus
    for d in util::corpus_pipeline_dirs() {
        let path = d.join("main.gom");
        let Ok(src) = std::fs::read_to_string(&path) else { continue };
        let id = format!("repo:{}", d.file_name().unwrap().to_string_lossy());
        let st = c07::run_stages(&path, &src, false);
        emit(&id, None, &st, &mut out);
    }
    let dir = util::scratch_dir("c03");
    // ---- witnesses kept under corpus/C03 (and the accepted ones of C07)
    for sub in ["C03", "C07"] {
        let Ok(rd) = std::fs::read_dir(util::verif_root().join("corpus").join(sub)) else { continue };
        let mut files: Vec<_> =
            rd.filter_map(|e| e.ok().map(|e| e.path())).filter(|p| p.extension().is_some_and(|x| x == "gom" || x == "witness")).collect();
        files.sort();
        for f in files {
            let Ok(src) = std::fs::read_to_string(&f) else { continue };
            let id = format!("corpus:{}/{}", sub, f.file_name().unwrap().to_string_lossy());
            let st = run_in(&dir, &src);
            emit(&id, Some(&src), &st, &mut out);
        }
    }
    // ---- generated well-typed programs
    let total = args.n.unwrap_or(if args.tier == "thorough" { 2000 } else { 250 });
    let mut feats_total: std::collections::BTreeMap<&'static str, usize> = Default::default();
    for i in 0..total {
        let mut root = crate::rng::Rng::new(args.seed);
        let mut rng = root.fork(i as u64);
        let cfg = gen_cfg(i);
        let (src, feats) = crate::progen::gen_program(&mut rng, cfg);
        let id = format!("gen:{}:{}", args.seed, i);
        let st = run_in(&dir, &src);
        if st.mono.is_some() {
            for (k, v) in feats {
                *feats_total.entry(k).or_default() += v;
            }
        }
        emit(&id, Some(&src), &st, &mut out);
    }
    // ---- ill-typed variants: one type error injected at one forced position of a well-typed program
    let nill = args.n.unwrap_or(if args.tier == "thorough" { 2500 } else { 350 });
    let mut kinds_total: std::collections::BTreeMap<String, usize> = Default::default();
    for i in 0..nill {
        let mut root = crate::rng::Rng::new(args.seed ^ 0x111);
        let rng0 = root.fork(i as u64);
        let cfg = crate::progen::Cfg { closure_flows: false, go_stmt: false, dyn_generics: false, ..gen_cfg(i) };
        let (base, sites, _) = crate::progen::gen_program_inject(&mut rng0.clone(), cfg, None);
        let kinds: Vec<(&'static str, usize)> = sites.iter().filter(|(_, n)| **n > 0).map(|(k, n)| (*k, *n)).collect();
        if kinds.is_empty() {
            continue;
        }
        let mut pick = crate::rng::Rng::new(args.seed ^ 0x222).fork(i as u64);
        let (kind, n) = kinds[pick.below(kinds.len())];
        let at = pick.below(n);
        let (src, _, injected) = crate::progen::gen_program_inject(&mut rng0.clone(), cfg, Some((kind, at)));
        let id = format!("ill:{}:{}", args.seed, i);
        let Some(inj) = injected else {
            writeln!(out, "{}\tILL\t{}\t{}\tnot-injected\t\t", id, kind, at).unwrap();
            continue;
        };
        // the un-mutated program must be accepted (the generator's own typing)
        let st0 = run_in(&dir, &base);
        if st0.core.is_none() {
            writeln!(out, "{}\tILL\t{}\t{}\tbase-rejected\t\t{}", id, kind, at, esc_line(&st0.stop.map(|x| x.2).unwrap_or_default())).unwrap();
            continue;
        }
        let st = run_in(&dir, &src);
        let (outcome, stage, msg) = match &st.stop {
            None => ("accepted", "", String::new()),
            Some((k, stage, m)) => (if *k == "reject" { "rejected" } else { "panic" }, *stage, m.clone()),
        };
        *kinds_total.entry(kind.to_string()).or_default() += 1;
        writeln!(out, "{}\tSRC\t{}", id, esc_line(&src)).unwrap();
        writeln!(out, "{}\tILL\t{}\t{}\t{}\t{}\t{}", id, kind, inj, outcome, stage, esc_line(&msg)).unwrap();
        if outcome == "accepted" {
            // what the stage dumps of the accepted ill-typed program look like
            let mut o2 = String::new();
            emit(&id, None, &st, &mut o2);
            out.push_str(&o2);
        }
    }
    // ---- hand-written ill-typed programs (array lengths through the wildcard builtins, fields, arguments)
    for (name, kind, src) in ILL_TEMPLATES {
        let id = format!("illt:{}", name);
        let st = run_in(&dir, src);
        let (outcome, stage, msg) = match &st.stop {
            None => ("accepted", "", String::new()),
            Some((k, stage, m)) => (if *k == "reject" { "rejected" } else { "panic" }, *stage, m.clone()),
        };
        *kinds_total.entry(kind.to_string()).or_default() += 1;
        writeln!(out, "{}\tSRC\t{}", id, esc_line(src)).unwrap();
        writeln!(out, "{}\tILL\t{}\ttemplate\t{}\t{}\t{}", id, kind, outcome, stage, esc_line(&msg)).unwrap();
        if outcome == "accepted" {
            let mut o2 = String::new();
            emit(&id, None, &st, &mut o2);
            out.push_str(&o2);
        }
    }
    // ---- hand-written ill-typed programs aimed at one diagnostic class of `Typer::unify` each (`gv unify` drives the
    // same unifier directly; these rows show that every class is reachable from a source program).  The `ILL` row has
    // the shape of the `illt:` rows (the message field holds ALL diagnostics joined by " | ", as everywhere in this
    // stream); the extra `ILLU` row says whether a diagnostic of the aimed class is among them.
    for (class, name, src) in ILL_UNIFY {
        let id = format!("illu:{}:{}", class, name);
        let kind = format!("unify-{}", class);
        // a stack overflow in the typer kills this process: leave the name of the running program behind
        let _ = std::fs::write(args.out.join("c03.progress"), format!("{}\t{}\t{}\n", id, kind, esc_line(src)));
        let st = run_in(&dir, src);
        let (outcome, stage, msg) = match &st.stop {
            None => ("accepted", "", String::new()),
            Some((k, stage, m)) => (if *k == "reject" { "rejected" } else { "panic" }, *stage, m.clone()),
        };
        *kinds_total.entry(kind.clone()).or_default() += 1;
        writeln!(out, "{}\tSRC\t{}", id, esc_line(src)).unwrap();
        writeln!(out, "{}\tILL\t{}\ttemplate\t{}\t{}\t{}", id, kind, outcome, stage, esc_line(&msg)).unwrap();
        let classes: Vec<&str> = if outcome == "rejected" { msg.split(" | ").map(unify_class).collect() } else { Vec::new() };
        let at = classes.iter().position(|c| c == class);
        writeln!(
            out,
            "{}\tILLU\t{}\t{}\t{}\t{}",
            id,
            class,
            if at.is_some() { "hit" } else { "miss" },
            at.map(|i| i.to_string()).unwrap_or_default(),
            classes.join(" ")
        )
        .unwrap();
        if outcome == "accepted" {
            let mut o2 = String::new();
            emit(&id, None, &st, &mut o2);
            out.push_str(&o2);
        }
    }
    // ---- hand-written ill-typed witnesses kept as files (corpus/C03/neg/*.gom): typer diagnostics no generated
    // program reaches (tools/coverage_audit.py, class b); each must be rejected by the typer
    {
        // (a witness is a file, or a project directory `<name>/main.gom` + package sub-directories compiled where it lives)
        let mut files: Vec<_> = std::fs::read_dir(util::verif_root().join("corpus/C03/neg"))
            .map(|rd| rd.filter_map(|e| e.ok().map(|e| e.path())).filter(|p| p.extension().is_some_and(|x| x == "gom") || p.join("main.gom").is_file()).collect())
            .unwrap_or_default();
        files.sort();
        for f in files {
            let project = f.is_dir();
            let entry = if project { f.join("main.gom") } else { f.clone() };
            let Ok(src) = std::fs::read_to_string(&entry) else { continue };
            let id = format!("illc:{}", f.file_stem().unwrap().to_string_lossy());
            let st = if project { c07::run_stages(&entry, &src, false) } else { run_in(&dir, &src) };
            let (outcome, stage, msg) = match &st.stop {
                None => ("accepted", "", String::new()),
                Some((k, stage, m)) => (if *k == "reject" { "rejected" } else { "panic" }, *stage, m.clone()),
            };
            *kinds_total.entry("corpus-neg".to_string()).or_default() += 1;
            writeln!(out, "{}\tSRC\t{}", id, esc_line(&src)).unwrap();
            writeln!(out, "{}\tILL\tcorpus-neg\t{}\t{}\t{}\t{}", id, f.file_stem().unwrap().to_string_lossy(), outcome, stage, esc_line(&msg)).unwrap();
        }
    }
    // ---- rigid type parameters: one ill-typed hole inside a generic function (calls of function-typed
    // parameters / let-bound closures / closure-returning calls at a concrete type, T vs U, a `(T) -> T` where
    // a `(C) -> C` is expected, x: T returned as C, Ref/Vec/tuple/array/Opt positions); the twin without the
    // hole must be accepted, the program with it rejected by the typer
    let nrigid = if args.tier == "thorough" { 600 } else { 120 };
    for i in 0..nrigid {
        let mut rng = crate::rng::Rng::new(args.seed ^ 0x7161d).fork(i as u64);
        let (kind, good, bad) = rigid_program(&mut rng, i);
        let id = format!("rigid:{}:{}", args.seed, i);
        let st0 = run_in(&dir, &good);
        if st0.core.is_none() {
            writeln!(out, "{}\tSRC\t{}", id, esc_line(&good)).unwrap();
            writeln!(out, "{}\tILL\t{}\ttwin\tbase-rejected\t\t{}", id, kind, esc_line(&st0.stop.map(|x| x.2).unwrap_or_default())).unwrap();
            continue;
        }
        let st = run_in(&dir, &bad);
        let (outcome, stage, msg) = match &st.stop {
            None => ("accepted", "", String::new()),
            Some((k, stage, m)) => (if *k == "reject" { "rejected" } else { "panic" }, *stage, m.clone()),
        };
        *kinds_total.entry(kind.clone()).or_default() += 1;
        writeln!(out, "{}\tSRC\t{}", id, esc_line(&bad)).unwrap();
        writeln!(out, "{}\tILL\t{}\trigid-type-parameter\t{}\t{}\t{}", id, kind, outcome, stage, esc_line(&msg)).unwrap();
        if outcome == "accepted" {
            let mut o2 = String::new();
            emit(&id, None, &st, &mut o2);
            out.push_str(&o2);
        }
    }
    // ---- argument count at every call form (c03arity.rs)
    arity::run(&dir, args.seed, &args.tier, &mut out, &mut kinds_total);
    // ---- argument type at every argument position of every call form (c03argty.rs)
    argty::run(&dir, args.seed, &args.tier, &mut out, &mut kinds_total);
    writeln!(out, "#KINDS\t{}", kinds_total.iter().map(|(k, v)| format!("{}={}", k, v)).collect::<Vec<_>>().join(" ")).unwrap();
    writeln!(out, "#FEATS\t{}", feats_total.iter().map(|(k, v)| format!("{}={}", k, v)).collect::<Vec<_>>().join(" ")).unwrap();
    let _ = std::fs::remove_dir_all(&dir);
    let _ = std::fs::create_dir_all(&args.out);
    std::fs::write(args.out.join("c03.cases.tsv"), out).unwrap();
    let _ = std::fs::remove_file(args.out.join("c03.progress"));
}

#[allow(dead_code)]
pub fn debug_ill(seed: u64, i: usize) {
    let mut root = crate::rng::Rng::new(seed ^ 0x111);
    let rng0 = root.fork(i as u64);
    let cfg = crate::progen::Cfg { closure_flows: false, go_stmt: false, dyn_generics: false, ..gen_cfg(i) };
    let (base, sites, _) = crate::progen::gen_program_inject(&mut rng0.clone(), cfg, None);
    println!("{:?}", sites);
    let (src, _, inj) = crate::progen::gen_program_inject(&mut rng0.clone(), cfg, Some(("operand-type", 0)));
    println!("{:?}", inj);
    println!("equal: {} len {} {}", base == src, base.len(), src.len());
    let k = base.bytes().zip(src.bytes()).position(|(a, b)| a != b).unwrap_or(0);
    println!("BASE: {}", &base[k.saturating_sub(150)..(k + 100).min(base.len())]);
    println!("MUT:  {}", &src[k.saturating_sub(150)..(k + 100).min(src.len())]);
}

/// (name, kind, source): each has exactly one type error and must be rejected by the typer
const ILL_TEMPLATES: &[(&str, &str, &str)] = &[
    ("array-arg-shorter", "array-length", "fn f(a: [int32; 3]) -> int32 { array_get(a, 0) }\nfn main() -> unit { string_println(int32_to_string(f([1, 2]))) }\n"),
    ("array-arg-longer", "array-length", "fn f(a: [int32; 3]) -> int32 { array_get(a, 0) }\nfn main() -> unit { string_println(int32_to_string(f([1, 2, 3, 4, 5]))) }\n"),
    ("array-let-from-set", "array-length", "fn main() -> unit { let b: [int32; 3] = array_set([1, 2, 3, 4, 5], 0, 9); string_println(int32_to_string(array_get(b, 0))) }\n"),
    ("array-let-from-var", "array-length", "fn main() -> unit { let a: [int32; 5] = [1, 2, 3, 4, 5]; let b: [int32; 3] = a; string_println(int32_to_string(array_get(b, 0))) }\n"),
    ("array-set-result-as-arg", "array-length", "fn f(a: [int32; 3]) -> int32 { array_get(a, 2) }\nfn main() -> unit { string_println(int32_to_string(f(array_set([1, 2, 3, 4, 5], 0, 1)))) }\n"),
    ("array-set-of-set", "array-length", "fn f(a: [int32; 2]) -> int32 { array_get(a, 1) }\nfn main() -> unit { let a = array_set(array_set([1, 2, 3], 0, 5), 1, 6); string_println(int32_to_string(f(a))) }\n"),
    ("array-branches", "array-length", "fn main() -> unit { let a = if true { [1, 2, 3] } else { [1, 2] }; string_println(int32_to_string(array_get(a, 0))) }\n"),
    ("array-return", "array-length", "fn f() -> [int32; 2] { [1, 2, 3] }\nfn main() -> unit { string_println(int32_to_string(array_get(f(), 0))) }\n"),
    ("array-elem-type-through-set", "arg-type", "fn main() -> unit { let a = array_set([1, 2, 3], 0, \"s\"); string_println(int32_to_string(array_get(a, 0))) }\n"),
    ("array-index-type", "arg-type", "fn main() -> unit { let a = [1, 2, 3]; string_println(int32_to_string(array_get(a, \"0\"))) }\n"),
    ("field-unknown-access", "unknown-field", "struct P { x: int32 }\nfn main() -> unit { let p = P { x: 1 }; string_println(int32_to_string(p.y)) }\n"),
    ("field-unknown-literal", "unknown-field", "struct P { x: int32 }\nfn main() -> unit { let p = P { x: 1, y: 2 }; string_println(int32_to_string(p.x)) }\n"),
    ("field-unknown-pattern", "unknown-field", "struct P { x: int32 }\nfn main() -> unit { let p = P { x: 1 }; let P { y: y } = p; string_println(int32_to_string(y)) }\n"),
    ("field-of-generic-struct", "unknown-field", "struct Bx[T] { v: T }\nfn main() -> unit { let b = Bx { v: 1 }; string_println(int32_to_string(b.w)) }\n"),
    ("arg-builtin", "arg-type", "fn main() -> unit { string_println(int32_to_string(\"s\")) }\n"),
    ("arg-user-fn", "arg-type", "fn f(a: int32, b: string) -> int32 { a }\nfn main() -> unit { string_println(int32_to_string(f(\"s\", 1))) }\n"),
    ("arg-generic-conflict", "arg-type", "fn pick[T](c: bool, a: T, b: T) -> T { if c { a } else { b } }\nfn main() -> unit { string_println(int32_to_string(pick(true, 1, \"s\"))) }\n"),
    ("arg-method", "arg-type", "struct P { x: int32 }\nimpl P { fn add(self: P, k: int32) -> int32 { self.x + k } }\nfn main() -> unit { let p = P { x: 1 }; string_println(int32_to_string(p.add(true))) }\n"),
    ("arg-trait-method", "arg-type", "trait Tr { fn m(Self, int32) -> int32; }\nimpl Tr for int32 { fn m(self: int32, k: int32) -> int32 { self + k } }\nfn main() -> unit { string_println(int32_to_string(Tr::m(1, \"s\"))) }\n"),
    ("arg-constructor", "arg-type", "enum E { A(int32), B }\nfn main() -> unit { let e = E::A(\"s\"); match e { E::A(x) => string_println(int32_to_string(x)), E::B => () } }\n"),
    ("arg-closure", "arg-type", "fn main() -> unit { let f = |a: int32| a + 1; string_println(int32_to_string(f(true))) }\n"),
    ("arity-more", "arity", "fn f(a: int32) -> int32 { a }\nfn main() -> unit { string_println(int32_to_string(f(1, 2))) }\n"),
    ("arity-fewer", "arity", "fn f(a: int32, b: int32) -> int32 { a }\nfn main() -> unit { string_println(int32_to_string(f(1))) }\n"),
    ("arity-constructor", "arity", "enum E { A(int32), B }\nfn main() -> unit { let e = E::A(1, 2); match e { E::A(x) => string_println(int32_to_string(x)), E::B => () } }\n"),
    ("ret-type", "ret-type", "fn f() -> int32 { \"s\" }\nfn main() -> unit { string_println(int32_to_string(f())) }\n"),
    ("branch-type", "branch-type", "fn main() -> unit { let a = if true { 1 } else { \"s\" }; () }\n"),
    ("arm-type", "arm-type", "fn main() -> unit { let a = match 1 { 0 => 1, _ => \"s\", }; () }\n"),
    ("cond-type", "cond-type", "fn main() -> unit { if 1 { () } else { () } }\n"),
    ("vec-elem", "arg-type", "fn main() -> unit { let v: Vec[int32] = vec_new(); let w = vec_push(v, \"s\"); () }\n"),
    ("ref-set", "arg-type", "fn main() -> unit { let r = ref(1); let _ = ref_set(r, \"s\"); () }\n"),
    ("dyn-no-impl", "arg-type", "trait Tr { fn m(Self) -> int32; }\nimpl Tr for int32 { fn m(self: int32) -> int32 { self } }\nfn main() -> unit { let d: dyn Tr = \"s\"; () }\n"),
    ("tuple-proj", "unknown-field", "fn main() -> unit { let t = (1, 2); string_println(int32_to_string(t.2)) }\n"),
];

/// (class, name, program): ill-typed programs whose rejection carries a diagnostic of the given class of
/// `Typer::unify` (`typer/unify.rs`); the classes `var-var` / `var-value` are unreachable (both sides are normalised
/// before the union-find merge, so the merge never sees two different values)
const ILL_UNIFY: &[(&str, &str, &str)] = &[
    ("occurs", "self-apply", "fn main() -> unit { let f = |x| x(x); () }\n"),
    ("occurs", "vec-push-self", "fn main() -> unit { let v = vec_new(); let w = vec_push(v, v); () }\n"),
    ("occurs", "ref-set-self", "fn main() -> unit { let f = |r| ref_set(r, r); () }\n"),
    ("occurs", "through-alias", "fn main() -> unit { let f = |x, y| { let z = if true { x } else { y }; x(y) }; () }\n"),
    ("occurs", "through-alias-chain", "fn main() -> unit { let f = |a, b, c| { let p = if true { a } else { b }; let q = if true { b } else { c }; (c, 1) == a }; () }\n"),
    ("occurs", "through-alias-array", "fn main() -> unit { let f = |a, b| { let p = if true { a } else { b }; let q = if true { [a, a] } else { b }; () }; () }\n"),
    ("occurs", "indirect-two-bindings", "fn main() -> unit { let f = |a, b| { let p = if true { a } else { (b, 1) }; let q = if true { b } else { (a, 1) }; () }; () }\n"),
    ("tuple-len", "let-annotation", "fn main() -> unit { let t: (int32, int32) = (1, 2, 3); () }\n"),
    ("tuple-len", "argument", "fn f(t: (int32, int32)) -> int32 { t.0 }\nfn main() -> unit { string_println(int32_to_string(f((1, 2, 3)))) }\n"),
    ("tuple-len", "pattern", "fn main() -> unit { let (a, b) = (1, 2, 3); () }\n"),
    ("tuple-len", "nested", "fn f(t: (int32, (bool, bool))) -> int32 { t.0 }\nfn main() -> unit { string_println(int32_to_string(f((1, (true, false, true))))) }\n"),
    ("array-len", "let-from-var", "fn main() -> unit { let a: [int32; 5] = [1, 2, 3, 4, 5]; let b: [int32; 3] = a; () }\n"),
    ("array-len", "branches", "fn main() -> unit { let a = if true { [1, 2, 3] } else { [1, 2] }; () }\n"),
    ("func-len", "closure-argument", "fn ap(f: (int32) -> int32) -> int32 { f(1) }\nfn main() -> unit { let r = ap(|a: int32, b: int32| a); () }\n"),
    ("func-len", "function-value-argument", "fn ap(f: (int32) -> int32) -> int32 { f(1) }\nfn g(a: int32, b: int32) -> int32 { a }\nfn main() -> unit { let r = ap(g); () }\n"),
    ("func-len", "closure-call", "fn main() -> unit { let f = |a: int32| a; let r = f(1, 2); () }\n"),
    ("func-len", "returned-closure", "fn mk() -> (int32) -> int32 { |a: int32, b: int32| a }\nfn main() -> unit { let f = mk(); () }\n"),
    ("ctor-name", "enum", "enum A { X }\nenum B { Y }\nfn f(a: A) -> unit { () }\nfn main() -> unit { f(B::Y) }\n"),
    ("ctor-name", "struct", "struct P { x: int32 }\nstruct Q { x: int32 }\nfn f(p: P) -> int32 { p.x }\nfn main() -> unit { string_println(int32_to_string(f(Q { x: 1 }))) }\n"),
    ("ctor-name", "generic-head", "enum Opt[T] { Non, Som(T) }\nenum Res[T] { Ok(T), Er }\nfn f(o: Opt[int32]) -> unit { () }\nfn main() -> unit { f(Res::Ok(1)) }\n"),
    ("dyn-name", "argument", "trait T1 { fn m(Self) -> int32; }\ntrait T2 { fn k(Self) -> int32; }\nimpl T1 for int32 { fn m(self: int32) -> int32 { self } }\nimpl T2 for int32 { fn k(self: int32) -> int32 { self } }\nfn f(d: dyn T1) -> int32 { T1::m(d) }\nfn main() -> unit { let d: dyn T2 = 1; string_println(int32_to_string(f(d))) }\n"),
    ("dyn-name", "let-annotation", "trait T1 { fn m(Self) -> int32; }\ntrait T2 { fn k(Self) -> int32; }\nimpl T1 for int32 { fn m(self: int32) -> int32 { self } }\nimpl T2 for int32 { fn k(self: int32) -> int32 { self } }\nfn main() -> unit { let d: dyn T2 = 1; let e: dyn T1 = d; () }\n"),
    ("app-len", "enum-parameter-annotation", "enum Opt[T] { Non, Som(T) }\nfn f(o: Opt[int32, int32]) -> unit { () }\nfn main() -> unit { let o: Opt[int32] = Opt::Non; f(o) }\n"),
    ("app-len", "struct-parameter-annotation", "struct Bx[T] { v: T }\nfn f(b: Bx[int32, bool]) -> unit { () }\nfn main() -> unit { f(Bx { v: 1 }) }\n"),
    ("app-len", "return-annotation", "enum Opt[T] { Non, Som(T) }\nfn f() -> Opt[int32, int32] { Opt::Som(1) }\nfn main() -> unit { let o = f(); () }\n"),
    ("param-name", "returned", "fn h[T, U](t: T, u: U) -> U { t }\nfn main() -> unit { let r: int32 = h(1, 2); () }\n"),
    ("param-name", "struct-field", "struct Bx[T] { v: T }\nfn h[T, U](t: T, u: U) -> Bx[U] { Bx { v: t } }\nfn main() -> unit { let r = h(1, 2); () }\n"),
    ("param-concrete", "returned-as-concrete", "fn h[T](x: T) -> int32 { x }\nfn main() -> unit { let r: int32 = h(1); () }\n"),
    ("param-concrete", "literal-as-parameter", "fn h[T](x: T) -> T { let y: T = 1; y }\nfn main() -> unit { let r: int32 = h(1); () }\n"),
    ("param-concrete", "closure-argument", "fn h[T](x: T) -> T { let g = |y: int32| y; g(x) }\nfn main() -> unit { let r: int32 = h(1); () }\n"),
    ("not-equal", "prim-vs-prim", "fn f() -> int32 { \"s\" }\nfn main() -> unit { string_println(int32_to_string(f())) }\n"),
    ("not-equal", "array-vs-tuple", "fn f(a: (int32, int32)) -> int32 { a.0 }\nfn main() -> unit { string_println(int32_to_string(f([1, 2]))) }\n"),
    ("not-equal", "enum-vs-struct", "enum A { X }\nstruct P { x: int32 }\nfn f(a: A) -> unit { () }\nfn main() -> unit { f(P { x: 1 }) }\n"),
    ("not-equal", "ref-vs-vec", "fn main() -> unit { let v: Vec[int32] = ref(1); () }\n"),
    ("not-equal", "prim-vs-fn", "fn main() -> unit { let f: (int32) -> int32 = 1; () }\n"),
    ("not-equal", "bare-generic-vs-applied", "enum Opt[T] { Non, Som(T) }\nfn f(o: Opt) -> unit { () }\nfn main() -> unit { let o: Opt[int32] = Opt::Non; f(o) }\n"),
];

/// the diagnostic class of one message of `Typer::unify` (by prefix; `other` = not a message of the unifier)
fn unify_class(msg: &str) -> &'static str {
    const TABLE: [(&str, &str); 12] = [
        ("occurs check failed", "occurs"),
        ("Failed to unify type variables", "var-var"),
        ("Failed to unify type variable ", "var-value"),
        ("Tuple types have different lengths", "tuple-len"),
        ("Array types have different lengths", "array-len"),
        ("Function types have different parameter lengths", "func-len"),
        ("Constructor types are different", "ctor-name"),
        ("Dyn trait types are different", "dyn-name"),
        ("Constructor types have different argument lengths", "app-len"),
        ("Type parameters are different", "param-name"),
        ("Cannot unify type parameter", "param-concrete"),
        ("Types are not equal", "not-equal"),
    ];
    TABLE.iter().find(|(p, _)| msg.starts_with(p)).map(|(_, c)| *c).unwrap_or("other")
}

/// concrete types for the rigid-parameter family: (type text, a value, code turning `r` of that type into a string)
const CTYS: &[(&str, &str, &str)] = &[
    ("int32", "7", "int32_to_string(r)"),
    ("string", "\"s\"", "r"),
    ("bool", "true", "bool_to_string(r)"),
    ("int64", "5i64", "int64_to_string(r)"),
];

/// (kind, well-typed twin, ill-typed program).  `C` is the concrete type that meets the rigid parameter, `D` the
/// type the generic function is instantiated at in `main` (sometimes `C` itself: the nastiest case, the ill-typed
/// program would even "work" at that one instantiation).
fn rigid_program(rng: &mut crate::rng::Rng, i: usize) -> (String, String, String) {
    let c = *rng.pick(CTYS);
    let d = if rng.chance(1, 3) { c } else { *rng.pick(CTYS) };
    let (ct, cv) = (c.0, c.1);
    let (dt, dv, dshow) = (d.0, d.1, d.2);
    // every template: (kind, prelude, generic function with the hole `@`, right filler, wrong filler, main body
    // computing `r` of type D or as stated, printer)
    let pre = format!(
        "enum Opt[T] {{ Non, Som(T) }}\nstruct Bx[T] {{ v: T }}\nfn opt_or[T](o: Opt[T], d: T) -> T {{ match o {{ Opt::Som(x) => x, Opt::Non => d }} }}\n\
         fn idd(a: {dt}) -> {dt} {{ a }}\nfn idc(a: {ct}) -> {ct} {{ a }}\nfn mk[T](x: T) -> (T) -> T {{ |y: T| x }}\nfn wants(k: ({ct}) -> {ct}) -> {ct} {{ k({cv}) }}\n",
        dt = dt, ct = ct, cv = cv
    );
    let show_d = format!("string_println({})", dshow);
    let t: Vec<(&str, String, &str, String, String, String)> = vec![
        ("call-of-function-parameter", "fn h[T](f: (T) -> T, x: T) -> T { f(@) }".into(), "x", cv.into(), format!("let r: {} = h(idd, {}); ", dt, dv), show_d.clone()),
        ("call-of-let-bound-closure", "fn h[T](f: (T) -> T, x: T) -> T { let g = |y: T| f(y); g(@) }".into(), "x", cv.into(), format!("let r: {} = h(idd, {}); ", dt, dv), show_d.clone()),
        ("call-inside-closure-body", "fn h[T](f: (T) -> T, x: T) -> T { let g = |y: T| f(@); g(x) }".into(), "y", cv.into(), format!("let r: {} = h(idd, {}); ", dt, dv), show_d.clone()),
        ("call-of-returned-closure", "fn h[T](x: T) -> T { let k = mk(x); k(@) }".into(), "x", cv.into(), format!("let r: {} = h({}); ", dt, dv), show_d.clone()),
        ("result-of-local-call-used-as-concrete", format!("fn h[T](f: (T) -> T, x: T) -> T {{ let a: @ = f(x); a }}"), "T", ct.into(), format!("let r: {} = h(idd, {}); ", dt, dv), show_d.clone()),
        ("type-parameters-mixed-up", "fn h[T, U](f: (T) -> U, t: T, u: U) -> U { f(@) }".into(), "t", "u".into(), format!("let r: {} = h(idd, {}, {}); ", dt, dv, dv), show_d.clone()),
        ("generic-function-value-where-concrete-expected", format!("fn h[T](f: (@) -> @, x: T) -> {ct} {{ wants(f) }}", ct = ct), ct, "T".into(), format!("let r0: {} = h(idc, {}); ", ct, dv), format!("let r = r0; string_println({})", c.2)),
        ("parameter-returned-as-concrete", format!("fn h[T](x: T, y: {ct}) -> {ct} {{ @ }}", ct = ct), "y", "x".into(), format!("let r0: {} = h({}, {}); ", ct, dv, cv), format!("let r = r0; string_println({})", c.2)),
        ("ref-of-parameter", "fn h[T](r: Ref[T], x: T) -> T { let _ = ref_set(r, @); ref_get(r) }".into(), "x", cv.into(), format!("let r: {} = h(ref({}), {}); ", dt, dv, dv), show_d.clone()),
        ("vec-of-parameter", "fn h[T](v: Vec[T], x: T) -> Vec[T] { vec_push(v, @) }".into(), "x", cv.into(), format!("let v0: Vec[{}] = vec_new(); let r0 = h(v0, {}); let r = vec_get(r0, 0); ", dt, dv), show_d.clone()),
        ("tuple-position", "fn h[T](x: T) -> (T, int32) { (@, 1) }".into(), "x", cv.into(), format!("let r0: ({}, int32) = h({}); let r = r0.0; ", dt, dv), show_d.clone()),
        ("annotated-let", "fn h[T](x: T) -> T { let y: T = @; y }".into(), "x", cv.into(), format!("let r: {} = h({}); ", dt, dv), show_d.clone()),
        ("array-element", "fn h[T](x: T) -> [T; 2] { [x, @] }".into(), "x", cv.into(), format!("let r0: [{}; 2] = h({}); let r = array_get(r0, 1); ", dt, dv), show_d.clone()),
        ("argument-of-generic-callee", "fn h[T](o: Opt[T], x: T) -> T { opt_or(o, @) }".into(), "x", cv.into(), format!("let o0: Opt[{}] = Opt::Non; let r: {} = h(o0, {}); ", dt, dt, dv), show_d.clone()),
        ("branch-of-if", "fn h[T](c: bool, x: T) -> T { if c { x } else { @ } }".into(), "x", cv.into(), format!("let r: {} = h(false, {}); ", dt, dv), show_d.clone()),
        ("field-of-generic-struct", "fn h[T](x: T) -> Bx[T] { Bx { v: @ } }".into(), "x", cv.into(), format!("let r0: Bx[{}] = h({}); let r = r0.v; ", dt, dv), show_d.clone()),
        ("concrete-closure-where-generic-expected", format!("fn ap[T](f: (T) -> T, x: T) -> T {{ f(x) }}\nfn h[T](x: T) -> T {{ ap(|y: @| y, x) }}"), "T", ct.into(), format!("let r: {} = h({}); ", dt, dv), show_d.clone()),
    ];
    let (kind, f, right, wrong, main_body, show) = &t[i % t.len()];
    let build = |fill: &str| format!("{}{}\nfn main() -> unit {{ {}{} }}\n", pre, f.replace('@', fill), main_body, show);
    (format!("rigid-{}", kind), build(right), build(wrong))
}

/// The accepted twin (declared arguments) of every call form of the arity / argtype catalogue, in two contexts — for
/// `gv infer`, which ties the typer's constraint generation on them (method-call forms, overlapping inherent impls).
pub fn catalogue_good_programs(dir: &std::path::Path) -> Vec<(String, String)> {
    let st0 = run_in(dir, "fn main() -> unit { () }\n");
    let Some(genv) = &st0.genv else { return Vec::new() };
    let pre = arity::prelude_items();
    let (sites, _, _) = arity::sites(genv);
    let mut out = Vec::new();
    for (si, s) in sites.iter().enumerate() {
        if s.good_call.is_some() || s.form == "builtin:monomorphic" {
            continue;
        }
        let good = format!("{}({})", s.prefix, s.full.join(", "));
        for j in [0usize, 2] {
            let (pname, ptext) = arity::POSITIONS[(si + j) % arity::POSITIONS.len()];
            out.push((format!("{}:s{}:declared={}:{}", s.form, si, s.n, pname), arity::program(&pre, s, ptext, &good)));
        }
    }
    out
}

