//! C03 — argument TYPE at every argument position of every call form (sub-module of c03.rs).
//!
//! `argtype:` catalogue — deterministic, no sampling of the shape space.  It re-uses the call-form catalogue of
//! c03arity.rs (`sites`: every syntactic call form the typer has a branch for, × declared parameter counts 0..3)
//! and, instead of changing the NUMBER of written arguments, replaces ONE written argument by a literal of
//! another type:
//!     every call form × every position of the written argument list (the receiver of a path call included)
//!     × two wrong literals (`true` / `"w"` / `()`, chosen so that they differ from the type the position declares:
//!       every declared parameter type of the catalogue is int32, string, a numeric type, a user struct / enum,
//!       `dyn Tr`, Ref / Vec / array or a rigid type parameter; a bool-typed position gets `"w"` and `()`)
//!     × the position of the call (the same nine contexts as the arity catalogue, rotating with the seed).
//! A position whose parameter is a type variable that nothing else at the call fixes (`g1[T](x: T)`, `ref(x)`,
//! `Opt::Som(x)`) is skipped: any argument is well-typed there (`Site::free`).
//! The program with the declared arguments (the twin) must be accepted, the program that differs from it in
//! exactly one argument must be rejected by the typer.  Rows are `ILL` rows of kind `argtype:<form>`; one
//! `#ARGTY` row summarises the catalogue (cases and rejected twins per call form).
use super::arity::{POSITIONS, outcome, prelude_items, program, sites};
use crate::sexp::esc_line;
use std::collections::{BTreeMap, HashMap};
use std::fmt::Write as _;

/// literals whose type differs from the type of the written argument `arg` of a catalogue call
pub fn wrong_literals(arg: &str) -> [(&'static str, &'static str); 2] {
    let a = arg.trim();
    if a == "true" || a == "false" {
        [("string", "\"w\""), ("unit", "()")]
    } else if a.starts_with('"') {
        [("bool", "true"), ("unit", "()")]
    } else if a == "()" {
        [("bool", "true"), ("string", "\"w\"")]
    } else {
        // integer / float literals, values of user types, Ref / Vec / array values, type-parameter typed variables
        [("bool", "true"), ("string", "\"w\"")]
    }
}

/// runs the catalogue; writes `ILL` rows (kind `argtype:<form>`) and one `#ARGTY` summary row
pub fn run(dir: &std::path::Path, seed: u64, tier: &str, out: &mut String, kinds_total: &mut BTreeMap<String, usize>) {
    let st0 = super::run_in(dir, "fn main() -> unit { () }\n");
    let Some(genv) = &st0.genv else {
        writeln!(out, "#ARGTY\tno-environment").unwrap();
        return;
    };
    let pre = prelude_items();
    let (sites, _, _) = sites(genv);
    let thorough = tier == "thorough";
    let mut twins: HashMap<String, bool> = HashMap::new();
    let (mut n_cases, mut n_twin_rejected, mut n_positions, mut n_free) = (0usize, 0usize, 0usize, 0usize);
    let mut forms: BTreeMap<&'static str, (usize, usize)> = BTreeMap::new();
    for (si, s) in sites.iter().enumerate() {
        if s.good_call.is_some() {
            continue; // a constructor without payload: no argument list
        }
        // the monomorphic builtins are ~200 sites of one call form: one context each in the quick tier
        let per_case = if thorough { POSITIONS.len() } else if s.form == "builtin:monomorphic" { 1 } else { 2 };
        let render = |args: &[String]| format!("{}({})", s.prefix, args.join(", "));
        let good = render(&s.full);
        for p in 0..s.full.len() {
            if s.free.contains(&p) {
                n_free += 1;
                continue;
            }
            n_positions += 1;
            for (wi, (wname, wlit)) in wrong_literals(&s.full[p]).iter().enumerate() {
                let mut args = s.full.clone();
                args[p] = wlit.to_string();
                let bad = render(&args);
                for j in 0..per_case {
                    let (pname, ptext) = POSITIONS[(seed as usize + si + p * 2 + wi * 4 + j * 3) % POSITIONS.len()];
                    let id = format!("argtype:{}:s{}:declared={}:arg{}={}:{}", s.form, si, s.n, p, wname, pname);
                    let kind = format!("argtype:{}", s.form);
                    let site = format!("declared={} argument {} (`{}`) replaced by a {} literal position={} call=`{}`", s.n, p, s.full[p], wname, pname, bad);
                    let good_src = program(&pre, s, ptext, &good);
                    let ok = *twins.entry(good_src.clone()).or_insert_with(|| super::run_in(dir, &good_src).core.is_some());
                    let e = forms.entry(s.form).or_default();
                    if !ok {
                        n_twin_rejected += 1;
                        e.1 += 1;
                        let st = super::run_in(dir, &good_src);
                        writeln!(out, "{}\tSRC\t{}", id, esc_line(&good_src)).unwrap();
                        writeln!(out, "{}\tILL\t{}\t{}\tbase-rejected\t\t{}", id, kind, esc_line(&site), esc_line(&st.stop.map(|x| x.2).unwrap_or_default())).unwrap();
                        continue;
                    }
                    e.0 += 1;
                    n_cases += 1;
                    let src = program(&pre, s, ptext, &bad);
                    let st = super::run_in(dir, &src);
                    let (oc, stage, msg) = outcome(&st);
                    *kinds_total.entry(kind.clone()).or_default() += 1;
                    if !(oc == "rejected" && stage == "typer") || (si + p + wi + j) % 97 == 0 {
                        writeln!(out, "{}\tSRC\t{}", id, esc_line(&src)).unwrap();
                    }
                    writeln!(out, "{}\tILL\t{}\t{}\t{}\t{}\t{}", id, kind, esc_line(&site), oc, stage, esc_line(&msg.chars().take(300).collect::<String>())).unwrap();
                    if oc == "accepted" {
                        let mut o2 = String::new();
                        super::emit(&id, None, &st, &mut o2);
                        out.push_str(&o2);
                    }
                }
            }
        }
    }
    writeln!(
        out,
        "#ARGTY\tsites={} argument-positions={} free-positions-skipped={} cases={} twins={} twins-rejected={}\t{}",
        sites.len(),
        n_positions,
        n_free,
        n_cases,
        twins.len(),
        n_twin_rejected,
        forms.iter().map(|(k, (a, b))| format!("{}={}/{}", k, a, b)).collect::<Vec<_>>().join(" ")
    )
    .unwrap();
}
