//! C03 — argument COUNT at every call form (sub-module of c03.rs).
//!
//! (1) `arity:` catalogue — deterministic, no sampling of the shape space: every syntactic call form the
//! typer has a branch for (`typer/check.rs::infer_call_expr` + constructors)
//!     top-level function · generic function · call in a generic caller · extern "go" function ·
//!     let-bound closure · let-bound function value · function-typed parameter · callee that is itself an
//!     expression (call result, parenthesised closure, tuple projection, array element, generic identity) ·
//!     `x.m(..)` on a struct / enum / generic struct / builtin type / parameter / `self` ·
//!     `T::m(x, ..)` on a struct / enum / generic struct, `T::s(..)` without receiver ·
//!     `x.m(..)` / `T::m(x, ..)` where a generic impl AND an impl of one instantiation define `m` (receiver of exactly
//!     that instantiation / of another one / generic inside a generic caller / constructed in place; struct and enum),
//!     and where only an impl of one instantiation defines it ·
//!     `Tr::m(x, ..)` on int32 / struct / bounded type parameter / `dyn Tr` (local and parameter) ·
//!     `x.m(..)` on a bounded type parameter · enum constructors (plain and generic) ·
//!     every builtin function whose signature is over literal-constructible types (read off the real genv)
//!     and the polymorphic builtins (`ref`, `array_set` — special-cased in the typer — `array_get`, `vec_*`, `ref_*`)
//! × every declared parameter count 0..3 the form admits
//! × the written counts {declared-1, declared+1, 0, declared+2} (path forms count the receiver)
//! × the position of the call (tail, annotated / inferred / discarded let, closure body, branch, match arm,
//!   argument of a generic call, tuple item; quick tier: 3 of the 9 per case, rotating with the seed).
//! The program with the declared count (the twin) must be accepted, the program that differs from it in
//! exactly one argument list must be rejected by the typer.  Rows are `ILL` rows of kind `arity:<form>`.
//!
//! (2) `CALLN` rows — a model-free count oracle on the REAL stage dumps of every accepted program: at each
//! `call` node the number of arguments = the number of parameters in the callee's own annotation = the number
//! of parameters the named top-level function / builtin declares; `dyncall`/`traitcall`: trait method
//! parameters = receiver + arguments; `constr`: payload / field count of the definition.
use crate::c07::Staged;
use crate::sexp::{S, esc_line};
use compiler::env::{EnumDef, FnOrigin, GlobalTypeEnv, StructDef};
use compiler::tast::{TastIdent, Ty};
use indexmap::IndexMap;
use std::collections::{BTreeMap, HashMap};
use std::fmt::Write as _;

// ---------------------------------------------------------------------------------------------------------
// (2) the count oracle on a stage dump

fn atom(s: &S) -> Option<&str> {
    match s {
        S::A(x) => Some(x.as_str()),
        _ => None,
    }
}
fn list(s: &S) -> Option<&[S]> {
    match s {
        S::L(v) => Some(v.as_slice()),
        _ => None,
    }
}
fn head(s: &S) -> Option<&str> {
    list(s).and_then(|v| v.first()).and_then(atom)
}
/// `(fn (p…) r)` → number of parameters
fn fn_ty_params(t: &S) -> Option<usize> {
    let v = list(t)?;
    if v.len() == 3 && atom(&v[0]) == Some("fn") { list(&v[1]).map(|p| p.len()) } else { None }
}
fn ty_params(t: &Ty) -> Option<usize> {
    match t {
        Ty::TFunc { params, .. } => Some(params.len()),
        _ => None,
    }
}

pub struct CountEnv<'a> {
    pub fns: HashMap<String, usize>,
    pub genv: &'a GlobalTypeEnv,
    pub enums: &'a IndexMap<TastIdent, EnumDef>,
    pub structs: &'a IndexMap<TastIdent, StructDef>,
}

fn walk(e: &S, env: &CountEnv, fname: &str, bad: &mut Vec<String>, n_calls: &mut usize) {
    let Some(v) = list(e) else { return };
    match v.first().and_then(atom) {
        Some("call") if v.len() >= 3 => {
            *n_calls += 1;
            let nargs = v.len() - 3;
            let f = &v[2];
            match head(f) {
                Some("var") => {
                    let fv = list(f).unwrap();
                    let name = fv.get(1).and_then(atom).unwrap_or("");
                    if let Some(np) = fv.get(2).and_then(fn_ty_params)
                        && np != nargs
                    {
                        bad.push(format!("call:callee-annotation-has-{}-parameters-call-has-{}-arguments|{}|in {}", np, nargs, name, fname));
                    }
                    if let Some(np) = env.fns.get(name) {
                        if *np != nargs {
                            bad.push(format!("call:function-declares-{}-parameters-call-has-{}-arguments|{}|in {}", np, nargs, name, fname));
                        }
                    } else if let Some(np) = env
                        .genv
                        .value_env
                        .funcs
                        .get(name)
                        .map(|s| &s.ty)
                        .or_else(|| env.genv.value_env.extern_funcs.get(name).map(|x| &x.ty))
                        .and_then(ty_params)
                        && !name.contains('/')
                        && np != nargs
                    {
                        bad.push(format!("call:builtin-declares-{}-parameters-call-has-{}-arguments|{}|in {}", np, nargs, name, fname));
                    }
                }
                Some("closure") => {
                    if let Some(np) = list(f).and_then(|c| c.get(1)).and_then(fn_ty_params)
                        && np != nargs
                    {
                        bad.push(format!("call:closure-has-{}-parameters-call-has-{}-arguments||in {}", np, nargs, fname));
                    }
                }
                _ => {}
            }
        }
        Some(k @ ("dyncall" | "traitcall")) if v.len() >= 5 => {
            *n_calls += 1;
            let nargs = v.len() - 5;
            let (tr, m) = (atom(&v[1]).unwrap_or(""), atom(&v[2]).unwrap_or(""));
            // trait names are qualified by their package in genv; compare by the last path segment too
            let def = env.genv.trait_env.trait_defs.iter().find(|(name, _)| {
                let n: &str = name.as_str();
                n == tr || n.rsplit("::").next() == Some(tr)
            });
            if let Some(np) = def.and_then(|(_, d)| d.methods.get(m)).and_then(|s| ty_params(&s.ty))
                && np != nargs + 1
            {
                bad.push(format!("{}:method-declares-{}-parameters-call-has-receiver-and-{}-arguments|{}::{}|in {}", k, np, nargs, tr, m, fname));
            }
        }
        Some("constr") if v.len() >= 3 => {
            let nargs = v.len() - 3;
            if let Some(c) = list(&v[1]) {
                let tname = c.get(1).and_then(atom).unwrap_or("");
                let key = TastIdent(tname.to_string());
                match atom(&c[0]) {
                    Some("ce") => {
                        let idx: usize = c.get(3).and_then(atom).and_then(|x| x.parse().ok()).unwrap_or(usize::MAX);
                        if let Some(np) = env.enums.get(&key).and_then(|d| d.variants.get(idx)).map(|x| x.1.len())
                            && np != nargs
                        {
                            bad.push(format!("constr:variant-declares-{}-fields-constructor-has-{}-arguments|{}|in {}", np, nargs, tname, fname));
                        }
                    }
                    Some("cs") => {
                        if let Some(np) = env.structs.get(&key).map(|d| d.fields.len())
                            && np != nargs
                        {
                            bad.push(format!("constr:struct-declares-{}-fields-literal-has-{}-arguments|{}|in {}", np, nargs, tname, fname));
                        }
                    }
                    _ => {}
                }
            }
        }
        _ => {}
    }
    for x in v.iter() {
        walk(x, env, fname, bad, n_calls);
    }
}

/// one `CALLN` row: `<id> CALLN <stage> <calls> <bad> <detail ;; detail …>`
pub fn emit_counts(
    id: &str,
    stage: &str,
    file: &S,
    genv: &GlobalTypeEnv,
    enums: &IndexMap<TastIdent, EnumDef>,
    structs: &IndexMap<TastIdent, StructDef>,
    out: &mut String,
) {
    let mut fns = HashMap::new();
    let items = list(file).unwrap_or(&[]);
    for f in items.iter().skip(1) {
        if let Some(fv) = list(f)
            && fv.len() >= 6
            && atom(&fv[0]) == Some("fn")
        {
            fns.insert(atom(&fv[1]).unwrap_or("").to_string(), list(&fv[3]).map(|p| p.len()).unwrap_or(0));
        }
    }
    let env = CountEnv { fns, genv, enums, structs };
    let (mut bad, mut n) = (Vec::new(), 0usize);
    for f in items.iter().skip(1) {
        if let Some(fv) = list(f)
            && fv.len() >= 6
        {
            walk(&fv[5], &env, atom(&fv[1]).unwrap_or(""), &mut bad, &mut n);
        }
    }
    bad.sort();
    bad.dedup();
    writeln!(out, "{}\tCALLN\t{}\t{}\t{}\t{}", id, stage, n, bad.len(), esc_line(&bad.join(" ;; "))).unwrap();
}

// ---------------------------------------------------------------------------------------------------------
// (1) the catalogue

/// the declarations a catalogue program may need: (identifiers that must ALL be mentioned, text)
pub(super) fn prelude_items() -> Vec<(Vec<String>, String)> {
    let mut v: Vec<(Vec<String>, String)> = Vec::new();
    let mut add = |when: &[&str], text: String| v.push((when.iter().map(|x| x.to_string()).collect(), text));
    add(&["Opt"], "enum Opt[T] { Non, Som(T) }\n".into());
    add(&["P"], "struct P { x: int32 }\n".into());
    add(&["E"], "enum E { K0, K1(int32), K2(int32, int32), K3(int32, int32, int32) }\n".into());
    add(&["Cell"], "struct Cell[T] { value: T }\n".into());
    add(&["Tr"], "trait Tr { fn t0(Self) -> int32; fn t1(Self, int32) -> int32; fn t2(Self, int32, int32) -> int32; fn t3(Self, int32, int32, int32) -> int32; }\n".into());
    for (ty, me) in [("int32", "self"), ("P", "self.x")] {
        let mut s = format!("impl Tr for {} {{\n", ty);
        for n in 0..=3 {
            writeln!(s, "    fn t{n}(self: {}{}{}) -> int32 {{ {} }}", ty, if n > 0 { ", " } else { "" }, params_text(n, 0), sum_text(n, 0, me)).unwrap();
        }
        s.push_str("}\n");
        if ty == "P" { add(&["Tr", "P"], s) } else { add(&["Tr"], s) }
    }
    add(&["idr"], "fn idr[T](x: T) -> T { x }\n".into());
    add(&["ext1"], "extern \"go\" \"strings\" \"ToUpper\" ext1(s: string) -> string\n".into());
    add(&["ext2"], "extern \"go\" \"strings\" \"Repeat\" ext2(s: string, n: int32) -> string\n".into());
    add(&["ext3"], "extern \"go\" \"strings\" \"ReplaceAll\" ext3(s: string, a: string, b: string) -> string\n".into());
    for n in 0..=3 {
        add(&[&format!("f{n}")], format!("fn f{n}({}) -> int32 {{ {} }}\n", params_text(n, 0), sum_text(n, 0, "1")));
        add(&[&format!("mk{n}")], format!("fn mk{n}() -> {} {{ |{}| {} }}\n", fn_ty_text(n), params_text(n, 0), sum_text(n, 0, "1")));
        if n >= 1 {
            let rest = params_text(n, 1);
            add(&[&format!("g{n}")], format!("fn g{n}[T](x: T{}{}) -> int32 {{ {} }}\n", if rest.is_empty() { "" } else { ", " }, rest, sum_text(n, 1, "1")));
        }
    }
    for (key, head, self_ty, first_extra) in [("P", "impl P", "P", None), ("E", "impl E", "E", None), ("Cell", "impl[T] Cell[T]", "Cell[T]", Some("v: T"))] {
        let mut s = String::new();
        writeln!(s, "{} {{", head).unwrap();
        if self_ty == "P" {
            writeln!(s, "    fn mk() -> P {{ P {{ x: 0 }} }}").unwrap();
            for n in 0..=3 {
                writeln!(s, "    fn s{n}({}) -> int32 {{ {} }}", params_text(n, 0), sum_text(n, 0, "1")).unwrap();
            }
        }
        for n in 0..=3 {
            // n = number of written arguments after the receiver
            let ps: Vec<String> = match first_extra {
                Some(fe) if n >= 1 => std::iter::once(fe.to_string()).chain((1..n).map(|i| format!("a{}: int32", i))).collect(),
                _ => (0..n).map(|i| format!("a{}: int32", i)).collect(),
            };
            let body = if first_extra.is_some() { sum_text(n, 1, "1") } else { sum_text(n, 0, "1") };
            writeln!(s, "    fn m{n}(self: {}{}{}) -> int32 {{ {} }}", self_ty, if ps.is_empty() { "" } else { ", " }, ps.join(", "), body).unwrap();
        }
        writeln!(s, "}}").unwrap();
        add(&[key], s);
    }
    // overlapping inherent impls: `impl[T] Ov[T]` and `impl Ov[int32]` both define m0..m3 (the typer resolves
    // `x.m(..)` and `Ov::m(x, ..)` through the receiver's full type: exact instantiation first, generic impl as
    // the fallback); `impl Ov[bool]` alone defines x0..x3.  `OvE` is the same for an enum.
    add(&["Ov"], "struct Ov[T] { value: T }\n".into());
    add(&["OvE"], "enum OvE[T] { A(T), B }\n".into());
    for key in ["Ov", "OvE"] {
        let mut s = String::new();
        for (head, self_ty, vt, base) in [(format!("impl[T] {key}[T]"), format!("{key}[T]"), "T", "1"), (format!("impl {key}[int32]"), format!("{key}[int32]"), "int32", "2")] {
            writeln!(s, "{} {{", head).unwrap();
            for n in 0..=3 {
                let ps: Vec<String> = if n >= 1 { std::iter::once(format!("v: {}", vt)).chain((1..n).map(|i| format!("a{}: int32", i))).collect() } else { vec![] };
                writeln!(s, "    fn m{n}(self: {}{}{}) -> int32 {{ {} }}", self_ty, if ps.is_empty() { "" } else { ", " }, ps.join(", "), sum_text(n, 1, base)).unwrap();
            }
            writeln!(s, "}}").unwrap();
        }
        writeln!(s, "impl {key}[bool] {{").unwrap();
        for n in 0..=3 {
            writeln!(s, "    fn x{n}(self: {key}[bool]{}{}) -> int32 {{ {} }}", if n > 0 { ", " } else { "" }, params_text(n, 0), sum_text(n, 0, "3")).unwrap();
        }
        writeln!(s, "}}").unwrap();
        add(&[key], s);
    }
    v
}

fn params_text(n: usize, first: usize) -> String {
    (first..n).map(|i| format!("a{}: int32", i)).collect::<Vec<_>>().join(", ")
}
fn sum_text(n: usize, first: usize, base: &str) -> String {
    let mut s = base.to_string();
    for i in first..n {
        write!(s, " + a{}", i).unwrap();
    }
    s
}
fn fn_ty_text(n: usize) -> String {
    format!("({}) -> int32", vec!["int32"; n].join(", "))
}

/// the declarations `text` mentions (by identifier), in catalogue order
fn prelude_for(items: &[(Vec<String>, String)], text: &str) -> String {
    let idents: std::collections::HashSet<&str> = text.split(|c: char| !(c.is_ascii_alphanumeric() || c == '_')).filter(|x| !x.is_empty()).collect();
    let mut out = String::new();
    for (_, t) in items.iter().filter(|(when, _)| when.iter().all(|w| idents.contains(w.as_str()))) {
        // of an INHERENT impl block only the methods the program mentions are kept (smaller witnesses; a trait impl
        // must stay complete)
        let inherent = t.starts_with("impl") && !t.lines().next().unwrap_or("").contains(" for ");
        for line in t.lines() {
            if inherent && let Some(rest) = line.strip_prefix("    fn ") {
                let name: String = rest.chars().take_while(|c| c.is_ascii_alphanumeric() || *c == '_').collect();
                if !idents.contains(name.as_str()) {
                    continue;
                }
            }
            out.push_str(line);
            out.push('\n');
        }
    }
    out
}

/// where a call sits: everything needed to write the program around PREFIX(ARGS)
#[derive(Clone)]
pub(super) struct Site {
    pub(super) form: &'static str,
    /// declared number of entries of the written argument list (receiver included for path forms)
    pub(super) n: usize,
    /// generics + parameters of the enclosing function, e.g. `[T: Tr](x: T)`; `None` → custom `open`
    pub(super) sig: String,
    /// actual arguments of the enclosing function in `main`
    pub(super) actuals: String,
    /// statements before the call, inside the enclosing function
    pub(super) setup: String,
    pub(super) prefix: String,
    pub(super) full: Vec<String>,
    /// extra arguments appended by the "too many" variants
    pub(super) extra: &'static str,
    pub(super) rt: String,
    pub(super) dv: String,
    /// declared-count twin when the call is not PREFIX(full) (constructor without payload: no parentheses)
    pub(super) good_call: Option<String>,
    /// further ill-typed spellings of this call: (label, call text)
    pub(super) also_bad: Vec<(&'static str, String)>,
    /// enclosing function is a method: (`impl P {` …, invocation in main)
    pub(super) method_of: Option<(&'static str, &'static str)>,
    /// positions of the written argument list whose parameter is a type variable that nothing else at the call
    /// fixes (`g1[T](x: T)`: any argument type is well-typed there) — c03argty.rs puts no wrong type at them
    pub(super) free: Vec<usize>,
}

impl Site {
    fn new(form: &'static str, prefix: impl Into<String>, full: Vec<String>) -> Site {
        Site {
            form,
            n: full.len(),
            sig: "()".into(),
            actuals: String::new(),
            setup: String::new(),
            prefix: prefix.into(),
            full,
            extra: "7",
            rt: "int32".into(),
            dv: "0".into(),
            good_call: None,
            also_bad: vec![],
            method_of: None,
            free: vec![],
        }
    }
    fn sig(mut self, sig: &str, actuals: &str) -> Site {
        self.sig = sig.into();
        self.actuals = actuals.into();
        self
    }
    fn setup(mut self, s: &str) -> Site {
        self.setup = s.into();
        self
    }
    fn rt(mut self, rt: &str, dv: &str) -> Site {
        self.rt = rt.into();
        self.dv = dv.into();
        self
    }
    fn extra(mut self, e: &'static str) -> Site {
        self.extra = e;
        self
    }
    fn free(mut self, at: &[usize]) -> Site {
        self.free = at.to_vec();
        self
    }
}

fn ints(n: usize) -> Vec<String> {
    (0..n).map(|i| format!("{}", i + 1)).collect()
}
fn with(first: &str, n: usize) -> Vec<String> {
    std::iter::once(first.to_string()).chain(ints(n)).collect()
}

pub(super) const POSITIONS: &[(&str, &str)] = &[
    ("tail", "CALL"),
    ("let-annotated", "let r: RT = CALL; r"),
    ("let-inferred", "let r = CALL; r"),
    ("discarded", "let _ = CALL; DV"),
    ("closure-body", "let c = || CALL; c()"),
    ("branch", "if true { CALL } else { DV }"),
    ("match-arm", "match 1 { 0 => DV, _ => CALL, }"),
    ("generic-argument", "idr(CALL)"),
    ("tuple-item", "let r = (CALL, 1); r.0"),
];

/// goml text of a type a literal exists for, and that literal
fn simple_ty(t: &Ty) -> Option<(&'static str, &'static str)> {
    Some(match t {
        Ty::TUnit => ("unit", "()"),
        Ty::TBool => ("bool", "true"),
        Ty::TInt8 => ("int8", "1i8"),
        Ty::TInt16 => ("int16", "1i16"),
        Ty::TInt32 => ("int32", "1"),
        Ty::TInt64 => ("int64", "1i64"),
        Ty::TUint8 => ("uint8", "1u8"),
        Ty::TUint16 => ("uint16", "1u16"),
        Ty::TUint32 => ("uint32", "1u32"),
        Ty::TUint64 => ("uint64", "1u64"),
        Ty::TFloat32 => ("float32", "1.5f32"),
        Ty::TFloat64 => ("float64", "1.5"),
        Ty::TString => ("string", "\"s\""),
        _ => return None,
    })
}

pub(super) fn sites(genv: &GlobalTypeEnv) -> (Vec<Site>, usize, usize) {
    let mut v: Vec<Site> = Vec::new();
    let p_setup = "let p = P::mk(); ";
    let e_setup = "let e = E::K0; ";
    let c_setup = "let c: Cell[string] = Cell { value: \"s\" }; ";
    for n in 0..=3usize {
        // ---- named functions
        v.push(Site::new("function", format!("f{n}"), ints(n)));
        if n >= 1 {
            v.push(Site::new("generic-function", format!("g{n}"), with("\"s\"", n - 1)).free(&[0]));
            v.push(Site::new("function-in-generic-caller", format!("g{n}"), with("x", n - 1)).sig("[T](x: T)", "true").free(&[0]));
            v.push(
                Site::new(
                    "extern-function",
                    format!("ext{n}"),
                    match n {
                        1 => vec!["\"a\"".to_string()],
                        2 => vec!["\"a\"".to_string(), "2".to_string()],
                        _ => vec!["\"a\"".to_string(), "\"b\"".to_string(), "\"c\"".to_string()],
                    },
                )
                .rt("string", "\"d\"")
                .extra("\"x\""),
            );
        }
        // ---- function values
        let clos = format!("|{}| {}", params_text(n, 0), sum_text(n, 0, "1"));
        v.push(Site::new("closure", "k", ints(n)).setup(&format!("let k = {}; ", clos)));
        v.push(Site::new("function-value", "k", ints(n)).setup(&format!("let k = f{n}; ")));
        v.push(Site::new("function-parameter", "k", ints(n)).sig(&format!("(k: {})", fn_ty_text(n)), &format!("f{n}")));
        v.push(Site::new("closure-parameter", "k", ints(n)).sig(&format!("(k: {})", fn_ty_text(n)), &clos));
        v.push(Site::new("callee-expression:call-result", format!("mk{n}()"), ints(n)));
        v.push(Site::new("callee-expression:parenthesised-closure", format!("({})", clos), ints(n)));
        v.push(Site::new("callee-expression:tuple-projection", "(t.0)", ints(n)).setup(&format!("let t = (f{n}, 1); ")));
        v.push(Site::new("callee-expression:array-element", "array_get(fs, 0)", ints(n)).setup(&format!("let fs = [f{n}, f{n}]; ")));
        v.push(Site::new("callee-expression:generic-identity", format!("idr(f{n})"), ints(n)));
        // ---- methods, dot syntax
        v.push(Site::new("dot:struct", format!("p.m{n}"), ints(n)).setup(p_setup));
        v.push(Site::new("dot:enum", format!("e.m{n}"), ints(n)).setup(e_setup));
        v.push(Site::new("dot:generic-struct", format!("c.m{n}"), if n == 0 { vec![] } else { with("\"t\"", n - 1) }).setup(c_setup));
        v.push(Site::new("dot:parameter-receiver", format!("q.m{n}"), ints(n)).sig("(q: P)", "P::mk()"));
        v.push(Site::new("dot:constructed-receiver", format!("P {{ x: 1 }}.m{n}"), ints(n)));
        {
            let mut s = Site::new("dot:self-receiver", format!("self.m{n}"), ints(n));
            s.method_of = Some(("impl P {", "P::site(P::mk())"));
            s.sig = "(self: P)".into();
            v.push(s);
        }
        // ---- methods, path syntax (the receiver is the first written argument)
        v.push(Site::new("path:struct", format!("P::m{n}"), with("p", n)).setup(p_setup));
        v.push(Site::new("path:enum", format!("E::m{n}"), with("e", n)).setup(e_setup));
        v.push(Site::new("path:generic-struct", format!("Cell::m{n}"), if n == 0 { vec!["c".to_string()] } else { std::iter::once("c".to_string()).chain(with("\"t\"", n - 1)).collect() }).setup(c_setup));
        {
            // a method without receiver: also spelled with dot syntax on a value of the type
            let mut s = Site::new("path:no-receiver", format!("P::s{n}"), ints(n)).setup(p_setup);
            if n == 0 {
                s.also_bad.push(("dot-call-of-a-method-without-parameters", "p.s0()".to_string()));
            }
            v.push(s);
        }
        // ---- methods of overlapping inherent impls (generic impl + impl of one instantiation), both syntaxes, for a
        // receiver of exactly the instantiation, of another instantiation (generic fallback), of the generic type
        // inside a generic caller; and methods only an instantiation impl defines
        {
            let tail = |first: &str| -> Vec<String> { if n == 0 { vec![] } else { with(first, n - 1) } };
            let recv = |r: &str, first: &str| -> Vec<String> { std::iter::once(r.to_string()).chain(tail(first)).collect() };
            let oi = "let oi: Ov[int32] = Ov { value: 1 }; ";
            let os = "let os: Ov[string] = Ov { value: \"s\" }; ";
            let ob = "let ob: Ov[bool] = Ov { value: true }; ";
            v.push(Site::new("path:overlapped-exact-impl", format!("Ov::m{n}"), recv("oi", "5")).setup(oi));
            v.push(Site::new("path:overlapped-generic-fallback", format!("Ov::m{n}"), recv("os", "\"t\"")).setup(os));
            v.push(Site::new("path:overlapped-in-generic-caller", format!("Ov::m{n}"), recv("x", "v")).sig("[T](x: Ov[T], v: T)", "Ov { value: \"s\" }, \"t\""));
            v.push(Site::new("path:overlapped-constructed-receiver", format!("Ov::m{n}"), recv("Ov { value: 1 }", "5")));
            v.push(Site::new("dot:overlapped-exact-impl", format!("oi.m{n}"), tail("5")).setup(oi));
            v.push(Site::new("dot:overlapped-generic-fallback", format!("os.m{n}"), tail("\"t\"")).setup(os));
            v.push(Site::new("dot:overlapped-in-generic-caller", format!("x.m{n}"), tail("v")).sig("[T](x: Ov[T], v: T)", "Ov { value: \"s\" }, \"t\""));
            v.push(Site::new("path:instantiation-only-impl", format!("Ov::x{n}"), with("ob", n)).setup(ob));
            v.push(Site::new("dot:instantiation-only-impl", format!("ob.x{n}"), ints(n)).setup(ob));
            v.push(Site::new("path:overlapped-enum-exact-impl", format!("OvE::m{n}"), recv("ei", "5")).setup("let ei: OvE[int32] = OvE::A(1); "));
            v.push(Site::new("path:overlapped-enum-generic-fallback", format!("OvE::m{n}"), recv("es", "\"t\"")).setup("let es: OvE[string] = OvE::B; "));
            v.push(Site::new("dot:overlapped-enum-exact-impl", format!("ei.m{n}"), tail("5")).setup("let ei: OvE[int32] = OvE::A(1); "));
        }
        // ---- trait methods
        v.push(Site::new("trait-path:int32", format!("Tr::t{n}"), with("5", n)));
        v.push(Site::new("trait-path:struct", format!("Tr::t{n}"), with("p", n)).setup(p_setup));
        v.push(Site::new("trait-path:bounded-parameter", format!("Tr::t{n}"), with("x", n)).sig("[T: Tr](x: T)", "5"));
        v.push(Site::new("dot:bounded-parameter", format!("x.t{n}"), ints(n)).sig("[T: Tr](x: T)", "P::mk()"));
        v.push(Site::new("dyn:local", format!("Tr::t{n}"), with("d", n)).setup("let d: dyn Tr = P::mk(); "));
        v.push(Site::new("dyn:parameter", format!("Tr::t{n}"), with("d", n)).sig("(d: dyn Tr)", "P::mk()"));
        // ---- constructors
        {
            let mut s = Site::new("constructor:enum", format!("E::K{n}"), ints(n)).rt("E", "E::K0");
            if n == 0 {
                s.good_call = Some("E::K0".into());
            } else {
                s.also_bad.push(("constructor-without-argument-list", format!("E::K{n}")));
            }
            v.push(s);
        }
    }
    v.push(Site::new("dot:builtin-type", "i.to_string", vec![]).setup("let i: int32 = 5; ").rt("string", "\"d\""));
    {
        let mut s = Site::new("constructor:generic-enum", "Opt::Som", vec!["1".to_string()]).rt("Opt[int32]", "Opt::Non").free(&[0]);
        s.also_bad.push(("constructor-without-argument-list", "Opt::Som".to_string()));
        v.push(s);
        let mut s = Site::new("constructor:generic-enum", "Opt::Non", vec![]).rt("Opt[int32]", "Opt::Som(1)");
        s.good_call = Some("Opt::Non".into());
        v.push(s);
    }
    // ---- polymorphic builtins (two of them have their result type special-cased by name in the typer)
    for (name, setup, full, rt, dv) in [
        ("ref", "", vec!["1"], "Ref[int32]", "ref(0)"),
        ("ref_get", "let rr = ref(1); ", vec!["rr"], "int32", "0"),
        ("ref_set", "let rr = ref(1); ", vec!["rr", "2"], "unit", "()"),
        ("array_get", "let ar = [1, 2, 3]; ", vec!["ar", "0"], "int32", "0"),
        ("array_set", "let ar = [1, 2, 3]; ", vec!["ar", "0", "9"], "[int32; 3]", "[0, 0, 0]"),
        ("vec_new", "", vec![], "Vec[int32]", "vec_push(vec_new(), 0)"),
        ("vec_push", "let vv: Vec[int32] = vec_new(); ", vec!["vv", "1"], "Vec[int32]", "vv"),
        ("vec_get", "let vv: Vec[int32] = vec_push(vec_new(), 1); ", vec!["vv", "0"], "int32", "0"),
        ("vec_len", "let vv: Vec[int32] = vec_push(vec_new(), 1); ", vec!["vv"], "int32", "0"),
    ] {
        if genv.value_env.funcs.get(name).is_some_and(|s| matches!(s.origin, FnOrigin::Builtin)) {
            // `ref(x)`: the argument may have any type (the result type is read off it)
            v.push(Site::new("builtin:polymorphic", name, full.iter().map(|x| x.to_string()).collect()).setup(setup).rt(rt, dv).free(if name == "ref" { &[0] } else { &[] }));
        }
    }
    // ---- every builtin over literal-constructible types, read off the real environment
    let (mut n_builtins, mut n_simple) = (0usize, 0usize);
    for (name, sch) in genv.value_env.funcs.iter() {
        if !matches!(sch.origin, FnOrigin::Builtin) {
            continue;
        }
        n_builtins += 1;
        let Ty::TFunc { params, ret_ty } = &sch.ty else { continue };
        let Some(args) = params.iter().map(|p| simple_ty(p).map(|x| x.1.to_string())).collect::<Option<Vec<_>>>() else { continue };
        let Some((rt, dv)) = simple_ty(ret_ty) else { continue };
        if !name.chars().all(|c| c.is_ascii_alphanumeric() || c == '_') {
            continue;
        }
        n_simple += 1;
        let extra = params.last().and_then(simple_ty).map(|x| x.1).unwrap_or("7");
        v.push(Site::new("builtin:monomorphic", name.clone(), args).rt(rt, dv).extra(extra));
    }
    (v, n_builtins, n_simple)
}

pub(super) fn program(items: &[(Vec<String>, String)], s: &Site, pos: &str, call: &str) -> String {
    let body = pos.replace("CALL", call).replace("RT", &s.rt).replace("DV", &s.dv);
    let site = format!("fn site{} -> {} {{ {}{} }}", s.sig, s.rt, s.setup, body);
    let rest = match s.method_of {
        Some((imp, invoke)) => format!("{} {} }}\nfn main() -> unit {{ let _ = {}; () }}\n", imp, site, invoke),
        None => format!("{}\nfn main() -> unit {{ let _ = site({}); () }}\n", site, s.actuals),
    };
    format!("{}{}", prelude_for(items, &rest), rest)
}

pub(super) fn outcome(st: &Staged) -> (&'static str, &'static str, String) {
    match &st.stop {
        None => ("accepted", "", String::new()),
        Some((k, stage, m)) => (if *k == "reject" { "rejected" } else { "panic" }, *stage, m.clone()),
    }
}

/// runs the catalogue; writes `ILL` rows (kind `arity:<form>`) and one `#ARITY` summary row
pub fn run(dir: &std::path::Path, seed: u64, tier: &str, out: &mut String, kinds_total: &mut BTreeMap<String, usize>) {
    let st0 = super::run_in(dir, "fn main() -> unit { () }\n");
    let Some(genv) = &st0.genv else {
        writeln!(out, "#ARITY\tno-environment").unwrap();
        return;
    };
    let pre = prelude_items();
    let (sites, n_builtins, n_simple) = sites(genv);
    let per_case = if tier == "thorough" { POSITIONS.len() } else { 3 };
    let mut twins: HashMap<String, bool> = HashMap::new();
    let (mut n_cases, mut n_twin_rejected) = (0usize, 0usize);
    let mut forms: BTreeMap<&'static str, (usize, usize)> = BTreeMap::new();
    for (si, s) in sites.iter().enumerate() {
        // the ill-typed argument lists of this call
        let n = s.n;
        let mut bads: Vec<(String, String)> = Vec::new();
        let render = |args: &[String]| format!("{}({})", s.prefix, args.join(", "));
        if n >= 1 {
            bads.push((format!("written={}", n - 1), render(&s.full[..n - 1])));
        }
        let mut more = s.full.clone();
        more.push(s.extra.to_string());
        bads.push((format!("written={}", n + 1), render(&more)));
        if n >= 2 {
            bads.push(("written=0".to_string(), render(&[])));
        }
        more.push(s.extra.to_string());
        bads.push((format!("written={}", n + 2), render(&more)));
        for (label, call) in s.also_bad.iter() {
            bads.push((label.to_string(), call.clone()));
        }
        let good = s.good_call.clone().unwrap_or_else(|| render(&s.full));
        for (bi, (label, bad)) in bads.iter().enumerate() {
            for j in 0..per_case {
                let (pname, ptext) = POSITIONS[(seed as usize + si + bi * 2 + j * 3) % POSITIONS.len()];
                let id = format!("arity:{}:s{}:declared={}:{}:{}", s.form, si, n, label, pname);
                let kind = format!("arity:{}", s.form);
                let site = format!("declared={} {} position={} call=`{}`", n, label, pname, bad);
                let good_src = program(&pre, s, ptext, &good);
                let ok = *twins.entry(good_src.clone()).or_insert_with(|| super::run_in(dir, &good_src).core.is_some());
                let e = forms.entry(s.form).or_default();
                if !ok {
                    n_twin_rejected += 1;
                    e.1 += 1;
                    let st = super::run_in(dir, &good_src);
                    writeln!(out, "{}\tSRC\t{}", id, esc_line(&good_src)).unwrap();
                    writeln!(out, "{}\tILL\t{}\t{}\tbase-rejected\t\t{}", id, kind, esc_line(&site), esc_line(&st.stop.map(|x| x.2).unwrap_or_default())).unwrap();
                    continue;
                }
                e.0 += 1;
                n_cases += 1;
                let src = program(&pre, s, ptext, bad);
                let st = super::run_in(dir, &src);
                let (oc, stage, msg) = outcome(&st);
                *kinds_total.entry(kind.clone()).or_default() += 1;
                if !(oc == "rejected" && stage == "typer") || (si + bi + j) % 97 == 0 {
                    writeln!(out, "{}\tSRC\t{}", id, esc_line(&src)).unwrap();
                }
                writeln!(out, "{}\tILL\t{}\t{}\t{}\t{}\t{}", id, kind, esc_line(&site), oc, stage, esc_line(&msg.chars().take(300).collect::<String>())).unwrap();
                if oc == "accepted" {
                    let mut o2 = String::new();
                    super::emit(&id, None, &st, &mut o2);
                    out.push_str(&o2);
                }
            }
        }
    }
    writeln!(
        out,
        "#ARITY\tsites={} cases={} twins={} twins-rejected={} builtins={} builtins-in-catalogue={}\t{}",
        sites.len(),
        n_cases,
        twins.len(),
        n_twin_rejected,
        n_builtins,
        n_simple,
        forms.iter().map(|(k, (a, b))| format!("{}={}/{}", k, a, b)).collect::<Vec<_>>().join(" ")
    )
    .unwrap();
}
