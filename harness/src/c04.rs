//! C04 — crash / hang search over every entry point (fault enumeration, labelled as such).
//!
//! `gv c04` (parent) splits every stream into chunks and runs each chunk in a child process
//! (`gv c04 --child …`): a child runs its cases on its main thread (8 MiB stack, like the `goml`
//! binary) under `catch_unwind` with a watchdog thread; a panic is recorded with its site, a
//! case running longer than the limit is recorded as HANG and ends the child, a stack
//! overflow / abort kills the child and the parent attributes it to the case named in the
//! child's progress file; the parent then restarts the chunk after the culprit.
//! Every case is a pure function of (seed, stream, index).
use crate::c04gen::{Feat, Gen};
use crate::crash::{self, Guarded, Watch};
use crate::rng::Rng;
use crate::sexp::esc_line;
use crate::util;
use compiler::pipeline::pipeline::{self, CompilationError};
use compiler::pipeline::separate::{self, PackageInputs};
use std::collections::BTreeMap;
use std::fmt::Write as _;
use std::io::Write as _;
use std::path::{Path, PathBuf};
use std::sync::{Arc, Mutex};
use std::time::Duration;

// ---------------------------------------------------------------- streams

pub const STREAMS: &[(&str, usize, usize)] = &[
    // name, cases in quick, cases in thorough
    ("bytes", 1500, 20000),
    ("mut-bytes", 1500, 20000),
    ("mut-tokens", 2500, 30000),
    ("mut-swap", 2500, 30000),
    ("gen-ok", 2500, 40000),
    ("gen-ill", 1500, 20000),
    // the shared whole-program generator (harness/src/progen.rs) with every flag on, plus token swaps of its output
    ("progen", 1500, 20000),
    ("nest", 264, 2200),
    ("layout", 400, 4000),
    ("artifact", 600, 8000),
    // correspondence for the Lean model of the parser primitives (ops on the real `Parser`)
    ("fuel-ops", 400, 4000),
    // minimised witnesses of defects that were found and fixed (corpus/C04/regress-*.gom) + their template families
    ("regress", 120, 360),
    // infinite types: every way an occurs-check failure can arise × every way two inference variables
    // can have been unified with each other before (enumerated, then random compositions)
    ("occurs", 900, 6000),
    // every kind of callee (each builtin of the real initial environment, builtin methods, user functions, constructors,
    // closures, methods, extern functions, a builtin's name re-bound) × every argument count 0..declared+2 × every call
    // context, through EVERY entry point (parse, compile, check_package, build_package, link_cores, the three queries).
    // The counts are placeholders: the parent uses the length of the catalogue (harness/src/arity.rs)
    ("call-arity", 0, 0),
    // every pattern form × every scrutinee type × every way the scrutinee's type becomes known (concrete when the pattern is
    // checked, or an inference variable resolved later / never) × every place a pattern can sit × match / let, through EVERY
    // entry point. The counts are placeholders: the parent uses the length of the catalogue (harness/src/patcat.rs)
    ("pat-scrut", 0, 0),
    // the fuel-limit catalogue of C12 (harness/src/c12.rs::fuel_limit_inputs: lookahead-only scans, frames that look
    // while they unwind, consuming loops, followers of an out-of-fuel construct, sized from the fuel measured on the
    // real parser) — here the texts the parser reports at least one diagnostic for (or panics on), so that `compile`
    // stops at the parser: no panic, no hang, tree covers the text, ranges inside. Count = length of the catalogue
    ("fuel-limit", 0, 0),
    // features with known findings: kept out of the streams above so they cannot mask anything
    ("known-polyrec", 6, 12),
    ("known-artifact-core-ir", 200, 3000),
];

pub fn main_features() -> Feat {
    // every generator feature is on: none of them has a known finding (the constructs that do
    // — generic functions over Vec, inherent methods as values, polymorphic recursion, edited
    // core_ir — are not produced by the generator and live in the `known-*` streams)
    Feat::all()
}

enum Case {
    /// token text + operations for the real `Parser` primitives (model tie)
    Ops { text: String, ops: Vec<String> },
    Text(String),
    Layout { files: Vec<(String, Vec<u8>)>, entry: String },
    Artifact { what: String, target: String, content: Vec<u8> },
}

const SOUP: &[&str] = &[
    "fn", "let", "match", "if", "else", "while", "struct", "enum", "trait", "impl", "for", "extern", "package", "import",
    "return", "go", "dyn", "true", "false", "(", ")", "{", "}", "[", "]", ",", ";", ":", "::", "=", "=>", "->", "|", "||",
    "&&", "!", "+", "-", "*", "/", "<", ">", "<=", ">=", "==", "!=", ".", "#", "_", "x", "y", "Foo", "main", "int32", "string",
    "Vec", "Ref", "1", "2i8", "3.5", "1.0f32", "\"s\"", "\"unterminated", "\\\\ multi\n", "// c\n", "\n", " ", "é", "😀",
    "'", "`", "@", "$", "\t", "0x", "1e", "99999999999999999999", "self", "Self", "unit", "bool",
];

fn corpus_sources() -> Vec<(String, String)> {
    let mut v = Vec::new();
    for d in util::corpus_pipeline_dirs() {
        if let Ok(s) = std::fs::read_to_string(d.join("main.gom")) {
            if s.len() < 6000 {
                v.push((d.file_name().unwrap().to_string_lossy().to_string(), s));
            }
        }
    }
    v
}

fn random_text(r: &mut Rng) -> String {
    let mut s = String::new();
    match r.below(3) {
        0 => {
            // arbitrary scalar values, biased towards ASCII punctuation and control characters
            for _ in 0..r.below(120) {
                let c = match r.below(6) {
                    0 => char::from_u32(r.below(32) as u32).unwrap_or(' '),
                    1 | 2 => char::from_u32(32 + r.below(95) as u32).unwrap_or(' '),
                    3 => char::from_u32(0x80 + r.below(0x700) as u32).unwrap_or('é'),
                    4 => char::from_u32(0x800 + r.below(0xF000) as u32).unwrap_or('€'),
                    _ => char::from_u32(0x10000 + r.below(0xFFFF) as u32).unwrap_or('😀'),
                };
                s.push(c);
            }
        }
        _ => {
            for _ in 0..r.below(60) {
                s.push_str(*r.pick(SOUP));
                if r.chance(1, 2) {
                    s.push(' ');
                }
            }
        }
    }
    s
}

fn mutate_bytes(src: &str, r: &mut Rng) -> String {
    let mut b = src.as_bytes().to_vec();
    for _ in 0..1 + r.below(4) {
        if b.is_empty() {
            break;
        }
        let i = r.below(b.len());
        match r.below(5) {
            0 => {
                b.remove(i);
            }
            1 => b.insert(i, r.below(256) as u8),
            2 => b[i] = r.below(256) as u8,
            3 => {
                let j = (i + r.below(40)).min(b.len());
                b.drain(i..j);
            }
            _ => b.truncate(i),
        }
    }
    String::from_utf8_lossy(&b).into_owned()
}

fn mutate_tokens(src: &str, r: &mut Rng) -> String {
    let toks: Vec<(usize, usize)> = lexer::lex(src)
        .iter()
        .filter(|t| !t.kind.is_trivia())
        .map(|t| (u32::from(t.range.start()) as usize, u32::from(t.range.end()) as usize))
        .collect();
    if toks.len() < 2 {
        return src.to_string();
    }
    let mut s = src.to_string();
    for _ in 0..1 + r.below(3) {
        let toks: Vec<(usize, usize)> = lexer::lex(&s)
            .iter()
            .filter(|t| !t.kind.is_trivia())
            .map(|t| (u32::from(t.range.start()) as usize, u32::from(t.range.end()) as usize))
            .collect();
        if toks.len() < 2 {
            break;
        }
        let i = r.below(toks.len());
        let (a, e) = toks[i];
        s = match r.below(5) {
            0 => format!("{}{}", &s[..a], &s[e..]),
            1 => format!("{}{} {}", &s[..e], &s[a..e], &s[e..]),
            2 => format!("{}{}{}", &s[..a], r.pick(SOUP), &s[e..]),
            3 => format!("{}{} {}", &s[..a], r.pick(SOUP), &s[a..]),
            _ => {
                let j = r.below(toks.len());
                let (a2, e2) = toks[j];
                if e <= a2 {
                    format!("{}{}{}{}{}", &s[..a], &s[a2..e2], &s[e..a2], &s[a..e], &s[e2..])
                } else {
                    format!("{}{}", &s[..a], &s[e..])
                }
            }
        };
    }
    s
}

/// syntax-preserving mutations: a token is replaced by another token of the same class taken from
/// the same program (identifier ↔ identifier, literal ↔ literal, operator ↔ operator, type name
/// ↔ type name), so most results still parse and reach the typer and the passes behind it
fn mutate_swap(src: &str, r: &mut Rng) -> String {
    #[derive(PartialEq, Clone, Copy)]
    enum Cl {
        Lower,
        Upper,
        Lit,
        Op,
        Ty,
        Other,
    }
    let class = |text: &str| -> Cl {
        let c = text.chars().next().unwrap_or(' ');
        if ["int8", "int16", "int32", "int64", "uint8", "uint16", "uint32", "uint64", "float32", "float64", "bool", "string", "unit"].contains(&text) {
            Cl::Ty
        } else if ["fn", "let", "match", "if", "else", "while", "struct", "enum", "trait", "impl", "for", "go", "return", "extern", "dyn", "package", "import", "type"].contains(&text) {
            Cl::Other
        } else if text == "true" || text == "false" || c.is_ascii_digit() || c == '"' {
            Cl::Lit
        } else if c.is_ascii_lowercase() || c == '_' {
            Cl::Lower
        } else if c.is_ascii_uppercase() {
            Cl::Upper
        } else if ["+", "-", "*", "/", "<", ">", "<=", ">=", "==", "!=", "&&", "||"].contains(&text) {
            Cl::Op
        } else {
            Cl::Other
        }
    };
    let mut s = src.to_string();
    for _ in 0..1 + r.below(3) {
        let toks: Vec<(usize, usize, Cl)> = lexer::lex(&s)
            .iter()
            .filter(|t| !t.kind.is_trivia())
            .map(|t| (u32::from(t.range.start()) as usize, u32::from(t.range.end()) as usize, class(t.text)))
            .filter(|t| t.2 != Cl::Other)
            .collect();
        if toks.len() < 2 {
            break;
        }
        let (a, e, c) = toks[r.below(toks.len())];
        let same: Vec<&(usize, usize, Cl)> = toks.iter().filter(|t| t.2 == c && s[t.0..t.1] != s[a..e]).collect();
        if same.is_empty() {
            continue;
        }
        let (a2, e2, _) = *same[r.below(same.len())];
        let with = s[a2..e2].to_string();
        s = format!("{}{}{}", &s[..a], with, &s[e..]);
    }
    s
}

/// One ill-typed program whose only defect is an infinite type. `a`, `b`, `c` are un-annotated
/// closure parameters (fresh inference variables). First `alias` unifies two of them while both
/// are unbound (or not at all), then `knot` equates one with a type that contains the other.
/// idx < ALIASES × KNOTS × 4 enumerates the whole table (× which side is applied × operand
/// order); larger indices compose two aliases and wrap the knot in random context.
pub fn occurs_case(idx: usize, r: &mut Rng) -> (String, String) {
    // ways to unify the types of X and Y (statement form; may define K of the same type)
    const ALIASES: [(&str, &str); 16] = [
        ("same-variable", "let K = X;"),
        ("array-literal", "let _ = [X, Y]; let K = Y;"),
        ("if-join", "let K = if true { X } else { Y };"),
        ("match-arms", "let K = match 1 { 0 => X, _ => Y, };"),
        ("generic-fn-same", "let K = same(X, Y);"),
        ("ref-set", "let q = ref(X); let _ = ref_set(q, Y); let K = ref_get(q);"),
        ("vec-push", "let q = vec_push(vec_push(vec_new(), X), Y); let K = vec_get(q, 0);"),
        ("closure-call", "let j = |m, n| [m, n]; let _ = j(X, Y); let K = Y;"),
        ("generic-struct", "let q = Two { l: X, r: Y }; let K = q.r;"),
        ("through-third", "let _ = [X, c]; let _ = [c, Y]; let K = c;"),
        ("equality", "let _ = X == Y; let K = Y;"),
        ("tuple-of-arrays", "let _ = ([X, Y], 1); let K = Y;"),
        ("nested-if", "let K = if true { if false { X } else { Y } } else { X };"),
        ("enum-payload", "let q = [Som(X), Som(Y)]; let K = Y;"),
        ("array-set", "let q = array_set([X], 0, Y); let K = array_get(q, 0);"),
        ("let-tuple-pattern", "let (u, w) = (X, Y); let _ = [u, w]; let K = w;"),
    ];
    // ways to make `P ~ type containing Q`
    const KNOTS: [(&str, &str); 14] = [
        ("apply", "P(Q)"),
        ("apply-result", "[P, P(Q)]"),
        ("array-of", "[P, [Q]]"),
        ("tuple-of", "[P, (Q, 1)]"),
        ("vec-of", "vec_push(P, Q)"),
        ("ref-of", "ref_set(P, Q)"),
        ("ref-literal", "[P, ref(Q)]"),
        ("returns-itself", "[P, |z| Q]"),
        ("generic-app", "[P, Som(Q)]"),
        ("struct-app", "[P, Two { l: Q, r: Q }]"),
        ("apply-twice", "P(Q)(Q)"),
        ("if-join-container", "if true { P } else { [Q] }"),
        ("generic-fn-same", "same(P, [Q])"),
        ("curried", "[P, |z| |y| Q]"),
    ];
    const PRELUDE: &str = "enum Opt[T] { Non, Som(T) }\nstruct Two[T] { l: T, r: T }\nfn same[T](x: T, y: T) -> T { x }\n";
    let na = ALIASES.len();
    let nk = KNOTS.len();
    let table = na * nk * 4;
    let sub = |t: &str, x: &str, y: &str| t.replace('X', x).replace('Y', y);
    if idx < table {
        let (an, a) = ALIASES[idx % na];
        let (kn, k) = KNOTS[(idx / na) % nk];
        let variant = idx / (na * nk);
        // which names play X/Y, and which of {a, b, K} are knotted
        let (x, y) = if variant & 1 == 0 { ("a", "b") } else { ("b", "a") };
        let (p, q) = if variant & 2 == 0 { ("a", "b") } else { ("k", "a") };
        let alias = sub(a, x, y).replace('K', "k");
        let knot = k.replace('P', p).replace('Q', q);
        let src = format!("{}fn main() -> unit {{\n    let h = |a, b, c| {{\n        {}\n        {}\n    }};\n    ()\n}}\n", PRELUDE, alias, knot);
        return (format!("{}+{}#{}", an, kn, variant), src);
    }
    // fixed shapes that need no alias, and random compositions
    const FIXED: [&str; 10] = [
        "fn main() -> unit { let f = |x| x(x); () }\n",
        "fn main() -> unit { let r = ref(|x| x); let _ = ref_set(r, |y| ref_get(r)); () }\n",
        "fn main() -> unit { let v = vec_new(); let w = vec_push(v, v); () }\n",
        "fn main() -> unit { let f = |x| [x, [x]]; () }\n",
        "fn main() -> unit { let f = |g| |x| g(g)(x); () }\n",
        "fn main() -> unit { let f = |x| { let y = x; y(x) }; () }\n",
        "fn main() -> unit { let r = ref(vec_new()); let _ = ref_set(r, vec_push(ref_get(r), r)); () }\n",
        "fn main() -> unit { let f = |x, y| { let _ = [x, y]; let _ = [y, x]; x(y)(x) }; () }\n",
        "fn fix(f: int32) -> int32 { f }\nfn main() -> unit { let om = |x| x(x); let _ = om(om); () }\n",
        "fn main() -> unit { let t = |p| (p, p(p)); () }\n",
    ];
    if idx < table + FIXED.len() {
        return (format!("fixed{}", idx - table), FIXED[idx - table].to_string());
    }
    let (an1, a1) = ALIASES[r.below(na)];
    let (an2, a2) = ALIASES[r.below(na)];
    let (kn, k) = KNOTS[r.below(nk)];
    let names = ["a", "b", "c", "k", "k2"];
    let al1 = sub(a1, "a", "b").replace('K', "k");
    let al2 = sub(a2, if r.chance(1, 2) { "k" } else { "b" }, "c").replace('K', "k2").replace("let q", "let q2").replace("(q,", "(q2,").replace("(q)", "(q2)").replace("q.r", "q2.r").replace("let j", "let j2").replace("j(", "j2(").replace("let (u, w)", "let (u2, w2)").replace("[u, w]", "[u2, w2]").replace("= w;", "= w2;");
    let p = names[r.below(5)];
    let q = names[r.below(5)];
    let knot = k.replace('P', p).replace('Q', q);
    let wrapped = match r.below(4) {
        0 => format!("if true {{ {} }} else {{ {} }}", knot, knot),
        1 => format!("{{ let z9 = {}; z9 }}", knot).replace("{ let", "if true { let").replace("z9 }", "z9 } else { a }"),
        2 => format!("match 1 {{ 0 => {}, _ => {}, }}", knot, knot),
        _ => knot,
    };
    let src = format!("{}fn main() -> unit {{\n    let h = |a, b, c| {{\n        {}\n        {}\n        {}\n    }};\n    ()\n}}\n", PRELUDE, al1, al2, wrapped);
    (format!("random:{}+{}+{}", an1, an2, kn), src)
}

/// nesting forms × depth (bounded at 200: "boundedly nested")
fn nest_case(idx: usize, thorough: bool) -> (String, String) {
    let forms = 22;
    let form = idx % forms;
    let depths: Vec<usize> = if thorough {
        (0..100).map(|k| 2 * k + 2).collect()
    } else {
        vec![1, 2, 3, 5, 8, 16, 24, 32, 64, 100, 150, 200]
    };
    let d = depths[(idx / forms) % depths.len()];
    let rep = |s: &str, n: usize| s.repeat(n);
    let (name, body): (&str, String) = match form {
        0 => ("paren-expr", format!("fn main() {{ let x = {}1{}; string_println(int32_to_string(x)) }}", rep("(", d), rep(")", d))),
        1 => ("block", format!("fn main() {{ let x = {}1{}; string_println(int32_to_string(x)) }}", rep("{ ", d), rep(" }", d))),
        2 => ("if-else-chain", {
            let mut s = String::from("fn f(n: int32) -> int32 { ");
            for k in 0..d {
                write!(s, "if n == {} {{ {} }} else ", k, k).unwrap();
            }
            s.push_str("{ 0 } }\nfn main() { string_println(int32_to_string(f(3))) }");
            s
        }),
        3 => ("if-nested", {
            let mut s = String::from("fn f(n: int32) -> int32 { ");
            for k in 0..d {
                write!(s, "if n > {} {{ ", k).unwrap();
            }
            s.push('1');
            for _ in 0..d {
                s.push_str(" } else { 0 }");
            }
            s.push_str(" }\nfn main() { string_println(int32_to_string(f(3))) }");
            s
        }),
        4 => ("closure", {
            let mut s = String::from("fn main() { let f = ");
            for k in 0..d {
                write!(s, "|a{}: int32| ", k).unwrap();
            }
            s.push_str("1; () }");
            s
        }),
        5 => ("tuple-type", format!("fn f(x: {}int32{}) -> unit {{ () }}\nfn main() {{ () }}", rep("(", d), rep(", bool)", d))),
        6 => ("tuple-expr", format!("fn main() {{ let x = {}1{}; () }}", rep("(", d), rep(", true)", d))),
        7 => ("unary-not", format!("fn main() {{ let x = {}true; () }}", rep("!", d))),
        8 => ("unary-neg", format!("fn main() {{ let x = {}1; () }}", rep("- ", d))),
        9 => ("binary-left", format!("fn main() {{ let x = 1{}; string_println(int32_to_string(x)) }}", rep(" + 1", d))),
        10 => ("binary-right", format!("fn main() {{ let x = {}1{}; string_println(int32_to_string(x)) }}", rep("1 + (", d), rep(")", d))),
        11 => ("array-lit", format!("fn main() {{ let x = {}1{}; () }}", rep("[", d), rep("]", d))),
        12 => ("array-type", format!("fn f(x: {}int32{}) -> unit {{ () }}\nfn main() {{ () }}", rep("[", d), rep("; 1]", d))),
        13 => ("vec-type", format!("fn main() {{ let x: {}int32{} = vec_new(); () }}", rep("Vec[", d), rep("]", d))),
        14 => ("ref-expr", format!("fn main() {{ let x = {}1{}; () }}", rep("ref(", d), rep(")", d))),
        15 => ("call-chain", format!("fn id(x: int32) -> int32 {{ x }}\nfn main() {{ let x = {}1{}; string_println(int32_to_string(x)) }}", rep("id(", d), rep(")", d))),
        16 => ("match-nested", {
            let mut s = String::from("fn f(n: int32) -> int32 { ");
            for _ in 0..d {
                s.push_str("match n { 0 => 0, _ => ");
            }
            s.push('1');
            s.push_str(&rep(" }", d));
            s.push_str(" }\nfn main() { string_println(int32_to_string(f(3))) }");
            s
        }),
        17 => ("pattern-nested", format!("fn main() {{ let x = {}1{}; let {}y{} = x; () }}", rep("(", d), rep(", 2)", d), rep("(", d), rep(", _)", d))),
        18 => ("fn-type", format!("fn f(g: {}int32{}) -> unit {{ () }}\nfn main() {{ () }}", rep("(", d), rep(") -> int32", d))),
        19 => ("unclosed-paren", format!("fn main() {{ let x = {}1; () }}", rep("(", d))),
        20 => ("unclosed-brace", format!("fn main() {}", rep("{ ", d))),
        _ => ("let-chain", {
            let mut s = String::from("fn main() { let x0 = 1; ");
            for k in 1..=d {
                write!(s, "let x{} = x{} + 1; ", k, k - 1).unwrap();
            }
            write!(s, "string_println(int32_to_string(x{})) }}", d).unwrap();
            s
        }),
    };
    (format!("{}@{}", name, d), body)
}

fn lib_source(name: &str, decl: &str, imports: &[String], variant: usize) -> String {
    let mut s = String::new();
    if !decl.is_empty() {
        writeln!(s, "package {}", decl).unwrap();
    }
    for i in imports {
        writeln!(s, "import {}", i).unwrap();
    }
    let mut body = String::from("1");
    for i in imports {
        write!(body, " + {}::value()", i).unwrap();
    }
    match variant {
        0 => writeln!(s, "fn value() -> int32 {{ {} }}", body).unwrap(),
        1 => writeln!(s, "fn value() -> int32 {{ {} }}\nstruct {}S {{ a: int32 }}\nenum {}E {{ {}A, {}B(int32) }}", body, name, name, name, name).unwrap(),
        2 => writeln!(s, "fn value() -> int32 {{ {} ", body).unwrap(), // syntax error
        3 => writeln!(s, "fn value() -> int32 {{ \"not an int\" }}").unwrap(), // type error
        4 => {}                                                        // no items at all
        _ => writeln!(s, "fn value() -> int32 {{ {} }}\ntrait {}T {{ fn m(Self) -> int32; }}\nimpl {}T for int32 {{ fn m(self: int32) -> int32 {{ self }} }}", body, name, name).unwrap(),
    }
    s
}

fn layout_case(r: &mut Rng) -> (String, Vec<(String, Vec<u8>)>) {
    let names = ["Aa", "Bb", "Cc", "Dd"];
    let n = 1 + r.below(4);
    let mut files: Vec<(String, Vec<u8>)> = Vec::new();
    let mut tags: Vec<String> = Vec::new();
    // random import graph, cycles and self-imports allowed
    let mut imports: Vec<Vec<String>> = vec![Vec::new(); n];
    for (i, imp) in imports.iter_mut().enumerate() {
        for (j, name) in names.iter().enumerate().take(n) {
            if r.chance(1, 3) {
                if i == j {
                    tags.push("self-import".into());
                }
                imp.push(name.to_string());
            }
        }
        if r.chance(1, 12) {
            imp.push(["Main", "Builtin", "Missing", "aa", "Zz"][r.below(5)].to_string());
            tags.push("odd-import".into());
        }
    }
    let mut main_imports: Vec<String> = names.iter().take(n).filter(|_| r.chance(2, 3)).map(|s| s.to_string()).collect();
    if r.chance(1, 10) {
        main_imports.push("Missing".into());
        tags.push("missing".into());
    }
    for i in 0..n {
        let name = names[i];
        match r.below(12) {
            0 => {
                tags.push("no-dir".into());
                continue;
            }
            1 => {
                tags.push("empty-dir".into());
                files.push((format!("{}/.keep", name), Vec::new()));
                continue;
            }
            2 => {
                tags.push("misnamed".into());
                files.push((format!("{}/lib.gom", name), lib_source(name, "Other", &imports[i], 0).into_bytes()));
                continue;
            }
            3 => {
                tags.push("no-package-decl".into());
                files.push((format!("{}/lib.gom", name), lib_source(name, "", &imports[i], 0).into_bytes()));
                continue;
            }
            4 => {
                tags.push("invalid-utf8".into());
                let mut b = lib_source(name, name, &imports[i], 0).into_bytes();
                b.extend_from_slice(&[0xff, 0xfe, 0x80]);
                files.push((format!("{}/lib.gom", name), b));
                continue;
            }
            5 => {
                tags.push("two-files".into());
                files.push((format!("{}/a.gom", name), lib_source(name, name, &imports[i], 0).into_bytes()));
                let second = match r.below(4) {
                    0 => format!("package {}\nfn value() -> int32 {{ 2 }}\n", name), // duplicate definition
                    1 => format!("package {}X\nfn other() -> int32 {{ 2 }}\n", name), // package mismatch inside a dir
                    2 => format!("package {}\nfn other() -> int32 {{ value() + 1 }}\n", name),
                    _ => String::new(),
                };
                files.push((format!("{}/b.gom", name), second.into_bytes()));
                continue;
            }
            6 => {
                tags.push("nested-dir".into());
                files.push((format!("{}/inner/lib.gom", name), lib_source(name, name, &imports[i], 0).into_bytes()));
                continue;
            }
            _ => {}
        }
        let variant = if r.chance(1, 4) { r.below(6) } else { 0 };
        if variant != 0 {
            tags.push(format!("lib-variant{}", variant));
        }
        files.push((format!("{}/lib.gom", name), lib_source(name, name, &imports[i], variant).into_bytes()));
    }
    // entry
    let mut m = String::new();
    match r.below(10) {
        0 => {
            tags.push("entry-package-other".into());
            m.push_str("package Foo\n");
        }
        1 => {}
        _ => m.push_str("package Main\n"),
    }
    for i in &main_imports {
        writeln!(m, "import {}", i).unwrap();
    }
    let mut sum = String::from("0");
    for i in &main_imports {
        write!(sum, " + {}::value()", i).unwrap();
    }
    match r.below(8) {
        0 => {
            tags.push("no-main-fn".into());
            writeln!(m, "fn helper() -> int32 {{ {} }}", sum).unwrap();
        }
        1 => {
            tags.push("empty-entry".into());
            m.clear();
        }
        _ => writeln!(m, "fn main() {{ string_println(int32_to_string({})) }}", sum).unwrap(),
    }
    if r.chance(1, 8) {
        tags.push("extra-root-file".into());
        files.push(("util.gom".into(), b"package Main\nfn util() -> int32 { 1 }\n".to_vec()));
    }
    files.push(("main.gom".into(), m.into_bytes()));
    tags.sort();
    tags.dedup();
    (tags.join("+"), files)
}

// ---------------------------------------------------------------- known-finding streams (templates)

fn known_case(stream: &str, r: &mut Rng) -> String {
    let t = ["int32", "bool", "string", "int64"][r.below(4)];
    let v = match t {
        "int32" => "1",
        "bool" => "true",
        "string" => "\"s\"",
        _ => "2i64",
    };
    match stream {
        "known-vec-generic" => match r.below(3) {
            0 => format!("fn first[T](v: Vec[T]) -> T {{ vec_get(v, 0) }}\nfn main() {{ let v: Vec[{t}] = vec_new(); let v = vec_push(v, {v}); let x = first(v); () }}\n"),
            1 => format!("fn len2[T](v: Vec[T]) -> int32 {{ vec_len(v) }}\nfn main() {{ let v: Vec[{t}] = vec_new(); string_println(int32_to_string(len2(v))) }}\n"),
            _ => format!("fn wrap[T](x: T) -> Vec[T] {{ let v: Vec[T] = vec_new(); vec_push(v, x) }}\nfn main() {{ let v = wrap({v}); () }}\n"),
        },
        "known-float-pattern" => {
            let (ft, l1, l2) = if r.chance(1, 2) { ("float32", "1.5f32", "2.5f32") } else { ("float64", "1.5f64", "2.5f64") };
            match r.below(2) {
                0 => format!("fn f(x: {ft}) -> int32 {{ match x {{ {l1} => 1, {l2} => 2, _ => 0, }} }}\nfn main() {{ string_println(int32_to_string(f({l1}))) }}\n"),
                _ => format!("fn f(x: ({ft}, bool)) -> int32 {{ match x {{ ({l1}, true) => 1, _ => 0, }} }}\nfn main() {{ string_println(int32_to_string(f(({l1}, true)))) }}\n"),
            }
        }
        "known-match-vec-ref-dyn" => match r.below(3) {
            0 => format!("fn main() {{ let v: Vec[{t}] = vec_new(); let n = match v {{ w => vec_len(w), }}; string_println(int32_to_string(n)) }}\n"),
            1 => format!("fn main() {{ let r = ref({v}); let n = match r {{ q => 1, }}; string_println(int32_to_string(n)) }}\n"),
            _ => "trait Sh { fn sh(Self) -> string; }\nimpl Sh for int32 { fn sh(self: int32) -> string { \"i\" } }\nfn main() { let d: dyn Sh = 1; let s = match d { e => Sh::sh(e), }; string_println(s) }\n".to_string(),
        },
        "known-trait-method-value" => match r.below(2) {
            0 => "trait Sh { fn sh(Self) -> string; }\nimpl Sh for int32 { fn sh(self: int32) -> string { \"i\" } }\nfn main() { let f = Sh::sh; string_println(f(1)) }\n".to_string(),
            _ => "struct P { a: int32 }\nimpl P { fn get(self: P) -> int32 { self.a } }\nfn main() { let f = P::get; string_println(int32_to_string(f(P { a: 1 }))) }\n".to_string(),
        },
        "known-polyrec" => match r.below(2) {
            0 => "fn nest[T](n: int32, x: T) -> int32 { if n < 1 { 0 } else { nest(n - 1, (x, x)) } }\nfn main() { string_println(int32_to_string(nest(2, 1))) }\n".to_string(),
            _ => "enum Nested[T] { Flat(T), Deep(Nested[(T, T)]) }\nfn depth[T](n: Nested[T]) -> int32 { match n { Flat(_) => 0, Deep(m) => 1 + depth(m), } }\nfn main() { string_println(int32_to_string(depth(Flat(1)))) }\n".to_string(),
        },
        "known-closure-arg" => match r.below(3) {
            0 => format!("fn apply(f: ({t}) -> {t}, x: {t}) -> {t} {{ f(x) }}\nfn main() {{ let y = apply(|a: {t}| a, {v}); () }}\n"),
            1 => format!("fn apply(f: ({t}) -> {t}, x: {t}) -> {t} {{ f(x) }}\nfn main() {{ let k = {v}; let y = apply(|a: {t}| k, {v}); () }}\n"),
            _ => format!("fn main() {{ let fs = [|a: {t}| a]; let g = array_get(fs, 0); let y = g({v}); () }}\n"),
        },
        "known-generic-fn-value" => match r.below(2) {
            0 => format!("fn id[T](x: T) -> T {{ x }}\nfn main() {{ let f = id; let y: {t} = f({v}); () }}\n"),
            _ => format!("fn id[T](x: T) -> T {{ x }}\nfn ap(g: ({t}) -> {t}) -> {t} {{ g({v}) }}\nfn main() {{ let y = ap(id); () }}\n"),
        },
        _ => String::new(),
    }
}

fn build_case(stream: &str, idx: usize, seed: u64, thorough: bool, corpus: &[(String, String)], art: &ArtifactKit) -> (String, Case) {
    let mut r = Rng::new(seed ^ 0xC04).fork(idx as u64 ^ (stream.len() as u64) << 32 ^ stream.bytes().fold(0u64, |a, b| a.wrapping_mul(131).wrapping_add(b as u64)));
    match stream {
        "bytes" => ("random".into(), Case::Text(random_text(&mut r))),
        "mut-bytes" => {
            let (n, s) = &corpus[r.below(corpus.len())];
            (n.clone(), Case::Text(mutate_bytes(s, &mut r)))
        }
        "mut-tokens" => {
            if r.chance(1, 3) {
                let mut g = Gen::new(r.fork(7), main_features());
                let p = g.program();
                ("generated".into(), Case::Text(mutate_tokens(&p, &mut r)))
            } else {
                let (n, s) = &corpus[r.below(corpus.len())];
                (n.clone(), Case::Text(mutate_tokens(s, &mut r)))
            }
        }
        "mut-swap" => {
            if r.chance(1, 2) {
                let mut g = Gen::new(r.fork(7), main_features());
                let p = g.program();
                ("generated".into(), Case::Text(mutate_swap(&p, &mut r)))
            } else {
                let (n, s) = &corpus[r.below(corpus.len())];
                (n.clone(), Case::Text(mutate_swap(s, &mut r)))
            }
        }
        "gen-ok" => {
            let feat = main_features();
            let mut g = Gen::new(r.fork(1), feat);
            let p = g.program();
            let tags: Vec<String> = g.used.iter().map(|(k, v)| format!("{}={}", k, v)).collect();
            (tags.join(" "), Case::Text(p))
        }
        "progen" => {
            let cfg = crate::progen::Cfg {
                closure_flows: true,
                traits: true,
                generics: true,
                go_stmt: true,
                max_depth: 2 + r.below(3),
                effects: true,
                wildcard_arrays: r.chance(1, 2),
                src_forms: true,
                lit_field_effects: r.chance(1, 2),
                rich_generics: true,
                vec_generics: true,
                dyn_generics: true,
                generic_fn_values: r.chance(1, 2),
                nested_patterns: true,
                logic_rhs_shapes: true,
                ..Default::default()
            };
            let mut rr = r.fork(5);
            let (p, feats) = crate::progen::gen_program(&mut rr, cfg);
            let tags: Vec<String> = feats.iter().map(|(k, v)| format!("{}={}", k, v)).collect();
            if r.chance(1, 3) {
                (format!("swap {}", tags.join(" ")), Case::Text(mutate_swap(&p, &mut r)))
            } else {
                (tags.join(" "), Case::Text(p))
            }
        }
        "gen-ill" => {
            // first pass counts the holes, second pass fills one of them wrongly
            let mut g0 = Gen::new(r.fork(1), main_features());
            let _ = g0.program();
            let holes = g0.hole_count().max(1);
            let mut g = Gen::new(r.fork(1), main_features());
            g.ill_at = Some(1 + r.below(holes));
            // a quarter of the ill-typed programs fail the occurs check somewhere inside
            let mut prelude = "";
            if r.chance(1, 4) {
                let (_, whole) = occurs_case(r.below(16 * 14 * 4), &mut r);
                if let (Some(a), Some(b)) = (whole.find("let h = "), whole.rfind("};")) {
                    g.ill_snippet = Some(whole[a..b + 2].replace('\n', " "));
                    prelude = "enum Opt[T] { Non, Som(T) }\nstruct Two[T] { l: T, r: T }\nfn same[T](x: T, y: T) -> T { x }\n";
                }
            }
            let p = format!("{}{}", prelude, g.program());
            (format!("ill: {}", g.ill_done.clone().unwrap_or_else(|| "hole not reached".into())), Case::Text(p))
        }
        "fuel-ops" => {
            // tokens separated by blanks; long runs of peeks exhaust the fuel
            let pool = ["fn", "struct", "let", "x", "1", "(", ")", "{", "}", "[", "]", ";", ",", "=>", "=", "+", "::", "\"s\"", "return", "import", "enum", "|", "#"];
            let n = r.below(7);
            let text: Vec<&str> = (0..n).map(|_| *r.pick(&pool)).collect();
            let mut ops = Vec::new();
            for _ in 0..2 + r.below(14) {
                let k = *r.pick(&pool);
                ops.push(match r.below(12) {
                    0 | 1 => "p".to_string(),
                    2 => format!("n{}", r.below(4)),
                    3 => "a".to_string(),
                    4 | 5 => format!("x:{}", k),
                    6 => format!("e:{}", k),
                    7 => format!("t:{}", k),
                    8 => "w".to_string(),
                    9 => "f".to_string(),
                    10 => format!("P{}", [3, 100, 254, 255, 256, 257, 300][r.below(7)]),
                    _ => format!("N{}", [255, 256, 257][r.below(3)]),
                });
            }
            ("ops".into(), Case::Ops { text: text.join(" "), ops })
        }
        "occurs" => {
            let (tag, p) = occurs_case(idx, &mut r);
            (tag, Case::Text(p))
        }
        "call-arity" => {
            let cat = arity_catalogue(thorough);
            match cat.get(idx) {
                Some(c) => (c.tag.clone(), Case::Text(c.src.clone())),
                None => ("none".into(), Case::Text(String::new())),
            }
        }
        "pat-scrut" => {
            let cat = pat_catalogue(thorough);
            match cat.get(idx) {
                Some(c) => (c.tag.clone(), Case::Text(c.src.clone())),
                None => ("none".into(), Case::Text(String::new())),
            }
        }
        "fuel-limit" => match fuel_catalogue(thorough).get(idx) {
            Some((name, text)) => (name.clone(), Case::Text(text.clone())),
            None => ("none".into(), Case::Text(String::new())),
        },
        "regress" => {
            let mut files: Vec<PathBuf> = std::fs::read_dir(util::verif_root().join("corpus/C04"))
                .map(|rd| rd.filter_map(|e| e.ok().map(|e| e.path())).filter(|p| p.file_name().is_some_and(|n| n.to_string_lossy().starts_with("regress-"))).collect())
                .unwrap_or_default();
            // + the rejected witnesses of tools/coverage_audit.py (diagnostic paths no other stream reaches)
            files.extend(
                std::fs::read_dir(util::verif_root().join("corpus/C03/neg"))
                    .map(|rd| rd.filter_map(|e| e.ok().map(|e| e.path())).filter(|p| p.extension().is_some_and(|x| x == "gom")).collect::<Vec<_>>())
                    .unwrap_or_default(),
            );
            files.sort();
            if idx < files.len() {
                let name = files[idx].file_name().unwrap().to_string_lossy().to_string();
                (name, Case::Text(std::fs::read_to_string(&files[idx]).unwrap_or_default()))
            } else {
                let fam = ["known-vec-generic", "known-trait-method-value", "known-float-pattern", "known-match-vec-ref-dyn", "known-closure-arg", "known-generic-fn-value"][idx % 6];
                (format!("template:{}", &fam[6..]), Case::Text(known_case(fam, &mut r)))
            }
        }
        "nest" => {
            let (tag, p) = nest_case(idx, thorough);
            (tag, Case::Text(p))
        }
        "layout" => {
            let (tag, files) = layout_case(&mut r);
            (tag, Case::Layout { files, entry: "main.gom".into() })
        }
        "artifact" | "known-artifact-core-ir" => art.case(stream == "known-artifact-core-ir", &mut r),
        s if s.starts_with("known-") => (s.to_string(), Case::Text(known_case(s, &mut r))),
        _ => ("?".into(), Case::Text(String::new())),
    }
}

// ---------------------------------------------------------------- artifacts

pub struct ArtifactKit {
    lib_iface: String,
    lib_core: String,
    main_core: String,
}

const LIB_SRC: &str = "package Lib\nstruct Pt { x: int32, y: int32 }\nenum Op { Add, Mul(int32) }\ntrait Sh { fn sh(Self) -> string; }\nimpl Sh for Pt { fn sh(self: Pt) -> string { int32_to_string(self.x) } }\nfn value() -> int32 { 41 }\nfn mk(a: int32) -> Pt { Pt { x: a, y: a + 1 } }\nfn idg[T](x: T) -> T { x }\n";
const MAIN_SRC: &str = "package Main\nimport Lib\nfn main() { let p = Lib::mk(Lib::value()); let q = Lib::idg(p); string_println(Lib::Sh::sh(q)) }\n";

impl ArtifactKit {
    pub fn build(dir: &Path) -> ArtifactKit {
        let empty = ArtifactKit { lib_iface: String::new(), lib_core: String::new(), main_core: String::new() };
        let _ = std::fs::create_dir_all(dir.join("Lib"));
        let _ = std::fs::create_dir_all(dir.join("out"));
        let lib = dir.join("Lib/lib.gom");
        let main = dir.join("main.gom");
        let _ = std::fs::write(&lib, LIB_SRC);
        let _ = std::fs::write(&main, MAIN_SRC);
        let r = std::panic::catch_unwind(|| {
            let lu = separate::build_package(PackageInputs { package: "Lib".into(), input_files: vec![lib.clone()], interface_paths: vec![] }).ok()?;
            let li = serde_json::to_string_pretty(&lu.interface).ok()?;
            let lc = serde_json::to_string_pretty(&lu).ok()?;
            std::fs::write(dir.join("out/Lib.interface"), &li).ok()?;
            let mu = separate::build_package(PackageInputs { package: "Main".into(), input_files: vec![main.clone()], interface_paths: vec![dir.join("out")] }).ok()?;
            let mc = serde_json::to_string_pretty(&mu).ok()?;
            Some(ArtifactKit { lib_iface: li, lib_core: lc, main_core: mc })
        });
        match r {
            Ok(Some(k)) => k,
            _ => empty,
        }
    }

    /// one value of the JSON text replaced or removed, everything else byte-for-byte unchanged
    fn mutate_json(text: &str, only_under: Option<&str>, avoid: Option<&str>, shape_preserving: bool, r: &mut Rng) -> (String, String) {
        let Some(nodes) = crate::jsonspan::spans(text) else { return ("unparsable".into(), text.to_string()) };
        let cands: Vec<usize> = (0..nodes.len())
            .filter(|i| !nodes[*i].path.is_empty())
            .filter(|i| only_under.map(|u| nodes[*i].path.iter().any(|k| k == u)).unwrap_or(true))
            .filter(|i| avoid.map(|u| !nodes[*i].path.iter().any(|k| k == u)).unwrap_or(true))
            .filter(|i| !shape_preserving || matches!(nodes[*i].kind, 's' | 'n' | 'b') || nodes[nodes[*i].parent.unwrap()].kind == 'a')
            .collect();
        if cands.is_empty() {
            return ("no-path".into(), text.to_string());
        }
        let k = cands[r.below(cands.len())];
        let n = &nodes[k];
        let old = &text[n.start..n.end];
        let path = n.path.join(".");
        // strings occurring in the document: plausible replacements for a name
        let pool: Vec<&str> = nodes.iter().filter(|m| m.kind == 's' && m.end - m.start < 40).map(|m| &text[m.start..m.end]).collect();
        let in_array = nodes[n.parent.unwrap()].kind == 'a';
        if shape_preserving {
            return match n.kind {
                's' => {
                    let with = if r.chance(3, 4) { pool[r.below(pool.len())].to_string() } else { format!("{}x\"", &old[..old.len() - 1]) };
                    (format!("{}:string {} -> {}", path, old, with), crate::jsonspan::replace(text, n, &with))
                }
                'n' => {
                    let v: i64 = old.parse().unwrap_or(0);
                    let with = (v + 1).to_string();
                    (format!("{}:number {} -> {}", path, old, with), crate::jsonspan::replace(text, n, &with))
                }
                'b' => {
                    let with = if old == "true" { "false" } else { "true" };
                    (format!("{}:bool -> {}", path, with), crate::jsonspan::replace(text, n, with))
                }
                _ if in_array && r.chance(1, 2) => (format!("{}:element removed", path), crate::jsonspan::remove(text, &nodes, k)),
                _ => {
                    // duplicate the element
                    let with = format!("{},{}", old, old);
                    (format!("{}:element duplicated", path), crate::jsonspan::replace(text, n, &with))
                }
            };
        }
        match r.below(7) {
            0 => (format!("{}:null", path), crate::jsonspan::replace(text, n, "null")),
            1 => (format!("{}:[]", path), crate::jsonspan::replace(text, n, "[]")),
            2 => (format!("{}:{{}}", path), crate::jsonspan::replace(text, n, "{}")),
            3 => {
                let with = (r.below(1000) as i64 - 500).to_string();
                (format!("{}:number {}", path, with), crate::jsonspan::replace(text, n, &with))
            }
            4 => {
                let with = ["\"\"", "\"Main\"", "\"main\"", "\"int32\"", "\"T\"", "\"\\u0000\""][r.below(6)];
                (format!("{}:string {}", path, with), crate::jsonspan::replace(text, n, with))
            }
            5 => (format!("{}:removed", path), crate::jsonspan::remove(text, &nodes, k)),
            _ => {
                let with = if r.chance(1, 2) { "true" } else { "12345678901234567890123" };
                (format!("{}:{}", path, with), crate::jsonspan::replace(text, n, with))
            }
        }
    }

    fn case(&self, core_ir: bool, r: &mut Rng) -> (String, Case) {
        if self.lib_core.is_empty() {
            return ("kit-unavailable".into(), Case::Artifact { what: "none".into(), target: "none".into(), content: vec![] });
        }
        if core_ir {
            // the part no digest covers (C15 known finding): any single-field change of core_ir is linked
            let which = r.below(2);
            let (desc, text) = Self::mutate_json(if which == 0 { &self.lib_core } else { &self.main_core }, Some("core_ir"), None, true, r);
            let target = if which == 0 { "Lib.core" } else { "Main.core" };
            return (format!("core_ir {}", desc), Case::Artifact { what: "link".into(), target: target.into(), content: text.into_bytes() });
        }
        match r.below(10) {
            0 => {
                let n = r.below(200);
                let b: Vec<u8> = (0..n).map(|_| r.below(256) as u8).collect();
                ("random-bytes".into(), Case::Artifact { what: "link".into(), target: "Lib.core".into(), content: b })
            }
            1 => {
                // random JSON
                fn rj(r: &mut Rng, d: usize) -> serde_json::Value {
                    match r.below(if d == 0 { 4 } else { 6 }) {
                        0 => serde_json::Value::Null,
                        1 => serde_json::json!(r.below(100) as i64 - 50),
                        2 => serde_json::Value::String(["", "Main", "Lib", "x"][r.below(4)].into()),
                        3 => serde_json::Value::Bool(r.chance(1, 2)),
                        4 => serde_json::Value::Array((0..r.below(4)).map(|_| rj(r, d - 1)).collect()),
                        _ => {
                            let mut m = serde_json::Map::new();
                            for _ in 0..r.below(5) {
                                let k = ["format_version", "compiler_abi", "package", "interface", "deps", "core_ir", "exports", "toplevels", "name", "x"][r.below(10)];
                                m.insert(k.to_string(), rj(r, d - 1));
                            }
                            serde_json::Value::Object(m)
                        }
                    }
                }
                let v = rj(r, 4);
                let target = ["Lib.core", "Lib.interface", "Main.core"][r.below(3)];
                ("random-json".into(), Case::Artifact { what: if target.ends_with("core") { "link".into() } else { "check".into() }, target: target.into(), content: v.to_string().into_bytes() })
            }
            2 => {
                let t = &self.lib_core;
                let cut = r.below(t.len().max(1));
                let mut c = cut;
                while !t.is_char_boundary(c) {
                    c -= 1;
                }
                ("truncated".into(), Case::Artifact { what: "link".into(), target: "Lib.core".into(), content: t.as_bytes()[..c].to_vec() })
            }
            3 | 4 | 5 => {
                let sp = r.chance(1, 2);
                let (desc, text) = Self::mutate_json(&self.lib_iface, None, None, sp, r);
                (format!("iface {}", desc), Case::Artifact { what: if r.chance(1, 2) { "check".into() } else { "build".into() }, target: "Lib.interface".into(), content: text.into_bytes() })
            }
            _ => {
                let which = r.below(2);
                let sp = r.chance(1, 2);
                let (desc, text) = Self::mutate_json(if which == 0 { &self.lib_core } else { &self.main_core }, None, Some("core_ir"), sp, r);
                (format!("core {}", desc), Case::Artifact { what: "link".into(), target: if which == 0 { "Lib.core".into() } else { "Main.core".into() }, content: text.into_bytes() })
            }
        }
    }
}

// ---------------------------------------------------------------- oracles

struct Finding {
    kind: &'static str, // panic | range | nodiag | abort | hang
    entry: String,
    site: String,
    msg: String,
}

fn stage_name(e: &CompilationError) -> &'static str {
    util::stage_of(e)
}

fn check_ranges(entry: &str, diags: &diagnostics::Diagnostics, src: Option<&str>, out: &mut Vec<Finding>) {
    let Some(src) = src else { return };
    for d in diags.iter() {
        if let Some(r) = d.range() {
            let (s, e) = (u32::from(r.start()) as usize, u32::from(r.end()) as usize);
            if s > e || e > src.len() || !src.is_char_boundary(s) || !src.is_char_boundary(e) {
                out.push(Finding {
                    kind: "range",
                    entry: entry.to_string(),
                    site: format!("stage={}", d.stage().as_str()),
                    msg: format!("diagnostic `{}` has range {}..{} but the text has {} bytes", d.message(), s, e, src.len()),
                });
            }
        }
    }
}

fn check_err(entry: &str, e: &CompilationError, src: Option<&str>, out: &mut Vec<Finding>) {
    let n = e.diagnostics().iter().filter(|d| d.severity() == diagnostics::Severity::Error).count();
    if n == 0 {
        out.push(Finding { kind: "nodiag", entry: entry.to_string(), site: format!("stage={}", stage_name(e)), msg: "Err without an error diagnostic".into() });
    }
    check_ranges(entry, e.diagnostics(), src, out);
}

struct Tally {
    outcomes: BTreeMap<String, usize>,
}

fn run_text(w: &Watch, key: crash::Key, dir: &Path, src: &str, tally: &mut Tally, out: &mut Vec<Finding>) {
    let path = dir.join("main.gom");
    let _ = std::fs::write(&path, src);
    let push_panic = |entry: &str, p: crash::PanicInfo, out: &mut Vec<Finding>| {
        out.push(Finding { kind: "panic", entry: entry.to_string(), site: crash::site_of(&p), msg: format!("{} [{}:{}]", p.msg, crash::short_file(&p.file), p.line) });
    };
    // parse
    match w.guarded(0, key, || parser::parse(&path, src)) {
        Guarded::Done(res) => {
            let lossless = res.green_node.text_len() == text_size::TextSize::from(src.len() as u32);
            if !lossless {
                out.push(Finding { kind: "range", entry: "parse".into(), site: "tree-length".into(), msg: format!("tree covers {:?} bytes of {}", res.green_node.text_len(), src.len()) });
            }
            check_ranges("parse", res.diagnostics(), Some(src), out);
            let nd = res.diagnostics().len();
            if let Guarded::Panic(p) = w.guarded(0, key, || res.format_errors(src)) {
                push_panic("parse/format_errors", p, out)
            }
            *tally.outcomes.entry(if nd == 0 { "parse:clean".into() } else { "parse:errors".into() }).or_default() += 1;
        }
        Guarded::Panic(p) => push_panic("parse", p, out),
    }
    // compile (what `goml run` does, including its error reporting and the pretty printer)
    match w.guarded(0, key, || pipeline::compile(&path, src)) {
        Guarded::Done(Ok(c)) => {
            *tally.outcomes.entry("compile:ok".into()).or_default() += 1;
            if let Guarded::Panic(p) = w.guarded(0, key, || c.go.to_pretty(&c.goenv, 120).len()) {
                push_panic("compile/go_pprint", p, out)
            }
            if let Guarded::Panic(p) = w.guarded(0, key, || {
                c.ast.to_pretty(120).len()
                    + c.tast.to_pretty(&c.genv, 120).len()
                    + c.core.to_pretty(&c.genv, 120).len()
                    + c.mono.to_pretty(&c.monoenv, 120).len()
                    + c.lambda.to_pretty(&c.liftenv, 120).len()
                    + c.anf.to_pretty(&c.anfenv, 120).len()
            }) {
                push_panic("compile/dump", p, out)
            }
        }
        Guarded::Done(Err(e)) => {
            *tally.outcomes.entry(format!("compile:err:{}", stage_name(&e))).or_default() += 1;
            if e.diagnostics().iter().any(|d| d.message().contains("occurs check")) {
                *tally.outcomes.entry("compile:occurs-check-diagnostic".into()).or_default() += 1;
            }
            check_err("compile", &e, Some(src), out);
            if let Guarded::Panic(p) = w.guarded(0, key, || match &e {
                CompilationError::Parser { diagnostics } => parser::format_parser_diagnostics(diagnostics, src).len(),
                CompilationError::Typer { diagnostics } => compiler::env::format_typer_diagnostics(diagnostics).len(),
                CompilationError::Compile { diagnostics } => compiler::env::format_compile_diagnostics(diagnostics, src).len(),
                CompilationError::Lower { diagnostics } => diagnostics.len(),
            }) {
                push_panic("compile/report_error", p, out)
            }
        }
        Guarded::Panic(p) => {
            *tally.outcomes.entry("compile:panic".into()).or_default() += 1;
            push_panic("compile", p, out)
        }
    }
}

/// the fuel-limit catalogue restricted to texts that do not get past the parser (a diagnostic, or a panic)
fn fuel_catalogue(thorough: bool) -> &'static Vec<(String, String)> {
    static CAT: std::sync::OnceLock<Vec<(String, String)>> = std::sync::OnceLock::new();
    CAT.get_or_init(|| {
        crate::c12::fuel_limit_inputs(thorough)
            .into_iter()
            .filter(|(_, text, _)| {
                let r = std::panic::catch_unwind(|| parser::parse(Path::new("fuel.gom"), text).diagnostics().len());
                !matches!(r, Ok(0))
            })
            .map(|(name, text, _)| (name, text))
            .collect()
    })
}

fn arity_catalogue(thorough: bool) -> &'static Vec<crate::arity::ArityCase> {
    static CAT: std::sync::OnceLock<Vec<crate::arity::ArityCase>> = std::sync::OnceLock::new();
    CAT.get_or_init(|| crate::arity::catalogue(thorough))
}

fn pat_catalogue(thorough: bool) -> &'static Vec<crate::patcat::PatCase> {
    static CAT: std::sync::OnceLock<Vec<crate::patcat::PatCase>> = std::sync::OnceLock::new();
    CAT.get_or_init(|| crate::patcat::catalogue(thorough))
}

/// the streams whose texts go through every entry point (`run_text_full`)
fn full_entry_stream(stream: &str) -> bool {
    stream == "call-arity" || stream == "pat-scrut"
}

/// `run_text` + the other entry points on the same single-file package: check_package, build_package,
/// link_cores of what build_package produced (with the Go pretty printer), and the three editor queries at
/// the start of every identifier / `(` / `)` token (at most 40 positions).
fn run_text_full(w: &Watch, key: crash::Key, dir: &Path, src: &str, tally: &mut Tally, out: &mut Vec<Finding>) {
    run_text_entries(w, key, dir, src, tally, out, 40)
}

/// `run_text_full` with the queries at the last `max_pos` positions only
fn run_text_entries(w: &Watch, key: crash::Key, dir: &Path, src: &str, tally: &mut Tally, out: &mut Vec<Finding>, max_pos: usize) {
    run_text(w, key, dir, src, tally, out);
    let path = dir.join("main.gom");
    let pan = |entry: &str, p: crash::PanicInfo, out: &mut Vec<Finding>| {
        out.push(Finding { kind: "panic", entry: entry.to_string(), site: crash::site_of(&p), msg: format!("{} [{}:{}]", p.msg, crash::short_file(&p.file), p.line) });
    };
    let inputs = || PackageInputs { package: "Main".into(), input_files: vec![path.clone()], interface_paths: vec![] };
    match w.guarded(0, key, || separate::check_package(inputs())) {
        Guarded::Done(Ok(_)) => *tally.outcomes.entry("check:ok".into()).or_default() += 1,
        Guarded::Done(Err(e)) => {
            *tally.outcomes.entry(format!("check:err:{}", stage_name(&e))).or_default() += 1;
            check_err("check_package", &e, Some(src), out)
        }
        Guarded::Panic(p) => {
            *tally.outcomes.entry("check:panic".into()).or_default() += 1;
            pan("check_package", p, out)
        }
    }
    match w.guarded(0, key, || separate::build_package(inputs())) {
        Guarded::Done(Ok(unit)) => {
            *tally.outcomes.entry("build:ok".into()).or_default() += 1;
            match w.guarded(0, key, || separate::link_cores(vec![unit])) {
                Guarded::Done(Ok(l)) => {
                    *tally.outcomes.entry("link:ok".into()).or_default() += 1;
                    if let Guarded::Panic(p) = w.guarded(0, key, || l.go.to_pretty(&l.goenv, 120).len()) {
                        pan("link/go_pprint", p, out)
                    }
                }
                Guarded::Done(Err(e)) => {
                    *tally.outcomes.entry(format!("link:err:{}", stage_name(&e))).or_default() += 1;
                    check_err("link_cores", &e, None, out)
                }
                Guarded::Panic(p) => {
                    *tally.outcomes.entry("link:panic".into()).or_default() += 1;
                    pan("link_cores", p, out)
                }
            }
        }
        Guarded::Done(Err(e)) => {
            *tally.outcomes.entry(format!("build:err:{}", stage_name(&e))).or_default() += 1;
            check_err("build_package", &e, Some(src), out)
        }
        Guarded::Panic(p) => {
            *tally.outcomes.entry("build:panic".into()).or_default() += 1;
            pan("build_package", p, out)
        }
    }
    // the editor queries on the same text
    let mut positions: Vec<(u32, u32)> = Vec::new();
    {
        let (mut line, mut col) = (0u32, 0u32);
        let mut prev_ident = false;
        for ch in src.chars() {
            let ident = ch.is_alphanumeric() || ch == '_';
            if (ident && !prev_ident) || ch == '(' || ch == ')' || ch == '.' {
                positions.push((line, col));
                if ch == '(' || ch == '.' {
                    positions.push((line, col + 1));
                }
            }
            prev_ident = ident;
            if ch == '\n' {
                line += 1;
                col = 0;
            } else {
                col += ch.len_utf8() as u32;
            }
        }
    }
    // keep the positions of the LAST lines (the items come first, the call under test last)
    let skip = positions.len().saturating_sub(max_pos);
    let mut answered = 0usize;
    for (l, c) in positions.into_iter().skip(skip) {
        match w.guarded(0, key, || compiler::query::hover_type(&path, src, l, c).is_ok()) {
            Guarded::Done(ok) => answered += ok as usize,
            Guarded::Panic(p) => pan("query/hover_type", p, out),
        }
        if let Guarded::Panic(p) = w.guarded(0, key, || compiler::query::dot_completions(&path, src, l, c).map(|v| v.len()).unwrap_or(0)) {
            pan("query/dot_completions", p, out)
        }
        if let Guarded::Panic(p) = w.guarded(0, key, || compiler::query::colon_colon_completions(&path, src, l, c).map(|v| v.len()).unwrap_or(0)) {
            pan("query/colon_colon_completions", p, out)
        }
    }
    *tally.outcomes.entry(if answered > 0 { "query:hover-answered".into() } else { "query:no-hover".into() }).or_default() += 1;
}

fn run_layout(w: &Watch, key: crash::Key, dir: &Path, files: &[(String, Vec<u8>)], entry: &str, tally: &mut Tally, out: &mut Vec<Finding>) {
    let root = dir.join("proj");
    let _ = std::fs::remove_dir_all(&root);
    for (rel, content) in files {
        let p = root.join(rel);
        if let Some(par) = p.parent() {
            let _ = std::fs::create_dir_all(par);
        }
        let _ = std::fs::write(&p, content);
    }
    let path = root.join(entry);
    let src = String::from_utf8_lossy(&std::fs::read(&path).unwrap_or_default()).into_owned();
    match w.guarded(0, key, || pipeline::compile(&path, &src)) {
        Guarded::Done(Ok(c)) => {
            *tally.outcomes.entry("layout:ok".into()).or_default() += 1;
            if let Guarded::Panic(p) = w.guarded(0, key, || c.go.to_pretty(&c.goenv, 120).len()) {
                out.push(Finding { kind: "panic", entry: "compile/go_pprint".into(), site: crash::site_of(&p), msg: p.msg });
            }
        }
        Guarded::Done(Err(e)) => {
            *tally.outcomes.entry(format!("layout:err:{}", stage_name(&e))).or_default() += 1;
            // a diagnostic of a multi-file project does not say which file it is about: no range check
            check_err("compile(project)", &e, None, out);
        }
        Guarded::Panic(p) => out.push(Finding { kind: "panic", entry: "compile(project)".into(), site: crash::site_of(&p), msg: format!("{} [{}:{}]", p.msg, crash::short_file(&p.file), p.line) }),
    }
    // the separate-compilation entry points on the same tree: check + build every package directory
    let mut dirs: Vec<(String, Vec<PathBuf>)> = Vec::new();
    let list = |d: &Path| -> Vec<PathBuf> {
        let mut v: Vec<PathBuf> = std::fs::read_dir(d).map(|rd| rd.filter_map(|e| e.ok().map(|e| e.path())).filter(|p| p.extension().is_some_and(|x| x == "gom")).collect()).unwrap_or_default();
        v.sort();
        v
    };
    dirs.push(("Main".into(), list(&root)));
    for n in ["Aa", "Bb", "Cc", "Dd"] {
        if root.join(n).is_dir() {
            dirs.push((n.to_string(), list(&root.join(n))));
        }
    }
    let outdir = root.join("out");
    let _ = std::fs::create_dir_all(&outdir);
    for (pkg, files) in dirs.iter().rev() {
        let r = w.guarded(0, key, || separate::check_package(PackageInputs { package: pkg.clone(), input_files: files.clone(), interface_paths: vec![outdir.clone()] }));
        match r {
            Guarded::Done(Ok(u)) => {
                *tally.outcomes.entry("check:ok".into()).or_default() += 1;
                if let Ok(j) = serde_json::to_string(&u) {
                    let _ = std::fs::write(outdir.join(format!("{}.interface", pkg)), j);
                }
            }
            Guarded::Done(Err(e)) => {
                *tally.outcomes.entry(format!("check:err:{}", stage_name(&e))).or_default() += 1;
                check_err("check_package", &e, None, out);
            }
            Guarded::Panic(p) => out.push(Finding { kind: "panic", entry: "check_package".into(), site: crash::site_of(&p), msg: format!("{} [{}:{}]", p.msg, crash::short_file(&p.file), p.line) }),
        }
    }
}

fn run_artifact(w: &Watch, key: crash::Key, dir: &Path, kit: &ArtifactKit, what: &str, target: &str, content: &[u8], tally: &mut Tally, out: &mut Vec<Finding>) {
    if what == "none" {
        return;
    }
    let root = dir.join("art");
    let _ = std::fs::remove_dir_all(&root);
    let _ = std::fs::create_dir_all(root.join("Lib"));
    let _ = std::fs::write(root.join("Lib/lib.gom"), LIB_SRC);
    let _ = std::fs::write(root.join("main.gom"), MAIN_SRC);
    let _ = std::fs::write(root.join("Lib.interface"), &kit.lib_iface);
    let _ = std::fs::write(root.join("Lib.core"), &kit.lib_core);
    let _ = std::fs::write(root.join("Main.core"), &kit.main_core);
    let _ = std::fs::write(root.join(target), content);
    let pan = |entry: &str, p: crash::PanicInfo, out: &mut Vec<Finding>| {
        out.push(Finding { kind: "panic", entry: entry.to_string(), site: crash::site_of(&p), msg: format!("{} [{}:{}]", p.msg, crash::short_file(&p.file), p.line) });
    };
    match what {
        "check" | "build" => {
            let inputs = || PackageInputs { package: "Main".into(), input_files: vec![root.join("main.gom")], interface_paths: vec![root.clone()] };
            if what == "check" {
                match w.guarded(0, key, || separate::check_package(inputs())) {
                    Guarded::Done(Ok(_)) => *tally.outcomes.entry("artifact:check:ok".into()).or_default() += 1,
                    Guarded::Done(Err(e)) => {
                        *tally.outcomes.entry("artifact:check:err".into()).or_default() += 1;
                        check_err("check_package", &e, None, out)
                    }
                    Guarded::Panic(p) => pan("check_package", p, out),
                }
            } else {
                match w.guarded(0, key, || separate::build_package(inputs())) {
                    Guarded::Done(Ok(_)) => *tally.outcomes.entry("artifact:build:ok".into()).or_default() += 1,
                    Guarded::Done(Err(e)) => {
                        *tally.outcomes.entry("artifact:build:err".into()).or_default() += 1;
                        check_err("build_package", &e, None, out)
                    }
                    Guarded::Panic(p) => pan("build_package", p, out),
                }
            }
        }
        _ => {
            let mut units = Vec::new();
            for f in ["Lib.core", "Main.core"] {
                match w.guarded(0, key, || separate::read_core(&root.join(f))) {
                    Guarded::Done(Ok(u)) => units.push(u),
                    Guarded::Done(Err(e)) => {
                        let m = e.diagnostics().iter().next().map(|d| d.message().to_string()).unwrap_or_default();
                        let class = if m.contains("failed validation") { "validation" } else if m.contains("failed to parse") { "parse" } else { "other" };
                        *tally.outcomes.entry(format!("artifact:read_core:err:{}:{}", f, class)).or_default() += 1;
                        check_err("read_core", &e, None, out);
                    }
                    Guarded::Panic(p) => pan("read_core", p, out),
                }
            }
            if units.len() == 2 {
                match w.guarded(0, key, || separate::link_cores(units)) {
                    Guarded::Done(Ok(l)) => {
                        *tally.outcomes.entry("artifact:link:ok".into()).or_default() += 1;
                        if let Guarded::Panic(p) = w.guarded(0, key, || l.go.to_pretty(&l.goenv, 120).len()) {
                            pan("link/go_pprint", p, out)
                        }
                    }
                    Guarded::Done(Err(e)) => {
                        *tally.outcomes.entry("artifact:link:err".into()).or_default() += 1;
                        check_err("link_cores", &e, None, out)
                    }
                    Guarded::Panic(p) => pan("link_cores", p, out),
                }
            }
        }
    }
}

fn kind_name(k: lexer::TokenKind) -> String {
    if k == lexer::T![eof] { "eof".to_string() } else { k.to_string() }
}

/// drive the real parser primitives; returns the observable of every op and the final counters
fn run_ops(text: &str, ops: &[String]) -> (String, String) {
    let toks = lexer::lex(text);
    let kinds: Vec<String> = toks.iter().filter(|t| !t.kind.is_trivia()).map(|t| kind_name(t.kind)).collect();
    let kind_of = |s: &str| -> lexer::TokenKind { lexer::lex(s).first().map(|t| t.kind).unwrap_or(lexer::T![eof]) };
    let mut p = parser::parser::Parser::new(Path::new("ops.gom"), toks);
    let m = p.open();
    let mut obs = Vec::new();
    for op in ops {
        let o = match op.as_str() {
            "p" => kind_name(p.peek()),
            "a" => {
                p.advance();
                "-".into()
            }
            "w" => {
                p.advance_with_error("tie");
                "-".into()
            }
            "f" => if p.eof() { "T".into() } else { "F".into() },
            _ if op.starts_with('n') => kind_name(p.nth(op[1..].parse().unwrap_or(0))),
            _ if op.starts_with("x:") => {
                p.expect(kind_of(&op[2..]));
                "-".into()
            }
            _ if op.starts_with("e:") => if p.eat(kind_of(&op[2..])) { "T".into() } else { "F".into() },
            _ if op.starts_with("t:") => if p.at(kind_of(&op[2..])) { "T".into() } else { "F".into() },
            _ if op.starts_with('P') => {
                let mut last = String::new();
                for _ in 0..op[1..].parse::<usize>().unwrap_or(0) {
                    last = kind_name(p.peek());
                }
                last
            }
            _ if op.starts_with('N') => {
                let mut last = String::new();
                for _ in 0..op[1..].parse::<usize>().unwrap_or(0) {
                    last = kind_name(p.nth(1));
                }
                last
            }
            _ => "?".into(),
        };
        obs.push(o);
    }
    p.close(m, parser::syntax::MySyntaxKind::FILE);
    let adv = p.events.iter().filter(|e| matches!(e, parser::event::Event::Advance)).count();
    let err = p.events.iter().filter(|e| matches!(e, parser::event::Event::Error(_))).count();
    let res = p.build_tree();
    let stuck = res.diagnostics().iter().filter(|d| d.message().contains("did not consume input")).count();
    // kinds as the model sees them: `x:K` arguments are sent as kind names as well
    let ops_named: Vec<String> = ops
        .iter()
        .map(|op| match op.split_once(':') {
            Some((a, k)) => format!("{}:{}", a, kind_name(kind_of(k))),
            None => op.clone(),
        })
        .collect();
    (format!("{}\t{}", kinds.join(" "), ops_named.join(" ")), format!("{} A={} E={} D={}", obs.join(" "), adv, err, stuck))
}

fn case_repr(c: &Case) -> String {
    match c {
        Case::Ops { text, ops } => format!("{} || {}", text, ops.join(" ")),
        Case::Text(s) => s.clone(),
        Case::Layout { files, .. } => {
            let mut s = String::new();
            for (p, c) in files {
                writeln!(s, "=== {} ===\n{}", p, String::from_utf8_lossy(c)).unwrap();
            }
            s
        }
        Case::Artifact { what, target, content } => {
            let t = String::from_utf8_lossy(content);
            format!("{} with {} := {}", what, target, if t.len() > 4000 { format!("{}…({} bytes)", &t[..t.char_indices().take_while(|(i, _)| *i < 4000).last().map(|(i, _)| i).unwrap_or(0)], t.len()) } else { t.into_owned() })
        }
    }
}

// ---------------------------------------------------------------- child

fn child(args: &util::Args, stream: &str, from: usize, to: usize, outfile: &Path) {
    crash::install_hook();
    let thorough = args.tier == "thorough";
    let dir = util::scratch_dir(&format!("c04-{}-{}", stream, from));
    let corpus = corpus_sources();
    let kit = if stream.contains("artifact") { ArtifactKit::build(&dir.join("kit")) } else { ArtifactKit { lib_iface: String::new(), lib_core: String::new(), main_core: String::new() } };
    let progress = outfile.with_extension("progress");
    let out = Arc::new(Mutex::new(std::fs::OpenOptions::new().create(true).append(true).open(outfile).expect("open child out")));
    let out2 = out.clone();
    // deep nesting is allowed to be slow (polynomial), not to hang: the nest stream gets a longer limit
    let limit = Duration::from_secs(if stream == "nest" { 90 } else if thorough { 10 } else { 5 });
    let watch = Watch::start_mode(
        1,
        limit,
        true,
        Box::new(move |k| {
            let mut f = out2.lock().unwrap();
            let _ = writeln!(f, "HANG\t{}", k[0]);
            let _ = f.flush();
        }),
    );
    let mut tally = Tally { outcomes: BTreeMap::new() };
    let mut sample_budget = 2;
    let mut shrunk_sites: std::collections::HashSet<String> = std::collections::HashSet::new();
    for idx in from..to {
        let _ = std::fs::write(&progress, idx.to_string());
        let (tag, case) = build_case(stream, idx, args.seed, thorough, &corpus, &kit);
        let mut findings = Vec::new();
        let key = [idx as u64, 0, 0, 0];
        match &case {
            Case::Ops { text, ops } => match watch.guarded(0, key, || run_ops(text, ops)) {
                Guarded::Done((input, observed)) => {
                    let mut f = out.lock().unwrap();
                    let _ = writeln!(f, "TIE\t{}:{}\t{}\t{}", stream, idx, input, observed);
                }
                Guarded::Panic(p) => findings.push(Finding { kind: "panic", entry: "parser-primitives".into(), site: crash::site_of(&p), msg: p.msg }),
            },
            // the pattern catalogue's texts differ in their last lines only: the queries there (12 positions), every entry point
            Case::Text(s) if stream == "pat-scrut" => run_text_entries(&watch, key, &dir, s, &mut tally, &mut findings, 12),
            Case::Text(s) if full_entry_stream(stream) => run_text_full(&watch, key, &dir, s, &mut tally, &mut findings),
            Case::Text(s) => run_text(&watch, key, &dir, s, &mut tally, &mut findings),
            Case::Layout { files, entry } => run_layout(&watch, key, &dir, files, entry, &mut tally, &mut findings),
            Case::Artifact { what, target, content } => run_artifact(&watch, key, &dir, &kit, what, target, content, &mut tally, &mut findings),
        }
        // minimise the first witness of every (entry point, panic site) this child sees (text cases only): the
        // shrunk text must still make THAT entry point panic at THAT site (the queries type-check texts that
        // compile rejects at the parser, so a witness for one entry is not a witness for another)
        let mut minimal: BTreeMap<(String, String), String> = BTreeMap::new();
        if let Case::Text(src) = &case {
            for fd in findings.iter().filter(|f| f.kind == "panic") {
                if shrunk_sites.insert(format!("{}\u{0}{}", fd.entry, fd.site)) {
                    let (entry, site) = (fd.entry.clone(), fd.site.clone());
                    let mut scratch = Tally { outcomes: BTreeMap::new() };
                    let mut pred = |cand: &str| {
                        let mut fs = Vec::new();
                        if full_entry_stream(stream) {
                            run_text_full(&watch, key, &dir, cand, &mut scratch, &mut fs);
                        } else {
                            run_text(&watch, key, &dir, cand, &mut scratch, &mut fs);
                        }
                        fs.iter().any(|f| f.kind == "panic" && f.site == site && f.entry == entry)
                    };
                    minimal.insert((fd.entry.clone(), fd.site.clone()), crash::shrink_text(src, &mut pred, 600));
                }
            }
        }
        let mut f = out.lock().unwrap();
        if !findings.is_empty() {
            let repr = case_repr(&case);
            for fd in &findings {
                let text = minimal.get(&(fd.entry.clone(), fd.site.clone())).cloned().unwrap_or_else(|| repr.clone());
                let _ = writeln!(f, "F\t{}\t{}\t{}\t{}\t{}\t{}\t{}\t{}", stream, idx, fd.kind, fd.entry, fd.site, esc_line(&fd.msg), esc_line(&tag), esc_line(&text));
            }
        } else if sample_budget > 0 && idx % 97 == 3 {
            sample_budget -= 1;
            let _ = writeln!(f, "S\t{}\t{}\t{}\t{}", stream, idx, esc_line(&tag), esc_line(&case_repr(&case).chars().take(1500).collect::<String>()));
        }
        {
            let outs: Vec<String> = tally.outcomes.iter().map(|(k, v)| format!("{}={}", k, v)).collect();
            let keep_tag = full_entry_stream(stream) || stream == "occurs" || stream == "gen-ok" || stream == "gen-ill" || stream == "nest" || stream == "layout" || stream.contains("artifact");
            let keep_tag = stream == "call-arity" || stream == "fuel-limit" || stream == "occurs" || stream == "gen-ok" || stream == "gen-ill" || stream == "nest" || stream == "layout" || stream.contains("artifact");
            let _ = writeln!(f, "R\t{}\t{}\t{}\t{}", stream, idx, outs.join(" "), if keep_tag { esc_line(&tag) } else { String::new() });
            tally.outcomes.clear();
        }
    }
    {
        let mut f = out.lock().unwrap();
        let _ = writeln!(f, "DONE\t{}\t{}\t{}", stream, from, to);
        let _ = f.flush();
    }
    let _ = std::fs::remove_file(&progress);
    let _ = std::fs::remove_dir_all(&dir);
}

// ---------------------------------------------------------------- parent

fn run_chunk(exe: &Path, args: &util::Args, stream: &str, from: usize, to: usize, outdir: &Path, lines: &Mutex<Vec<String>>) {
    let outfile = outdir.join(format!("c04-{}-{}.tsv", stream, from));
    let _ = std::fs::remove_file(&outfile);
    let progress = outfile.with_extension("progress");
    let mut start = from;
    let thorough = args.tier == "thorough";
    let corpus = corpus_sources();
    let mut restarts = 0;
    while start < to {
        // address-space limit: a loop that allocates for ever aborts quickly instead of waiting for the OOM killer
        let status = std::process::Command::new("sh")
            .args(["-c", "ulimit -v 6000000 2>/dev/null; exec \"$0\" \"$@\""])
            .arg(exe)
            .args(["c04", "--seed", &args.seed.to_string(), "--tier", &args.tier, "--out"])
            .arg(outdir)
            .args(["--child", stream, &start.to_string(), &to.to_string()])
            .arg(&outfile)
            .stdout(std::process::Stdio::null())
            .stderr(std::process::Stdio::null())
            .status();
        let text = std::fs::read_to_string(&outfile).unwrap_or_default();
        let done = text.lines().any(|l| l.starts_with("DONE\t") && l.split('\t').nth(2) == Some(&start.to_string()));
        if done {
            break;
        }
        // the child died: which case was it running?
        let culprit = std::fs::read_to_string(&progress).ok().and_then(|s| s.trim().parse::<usize>().ok()).unwrap_or(start);
        let hung = text.lines().rev().take(3).any(|l| l.starts_with("HANG\t"));
        let why = match &status {
            Ok(s) => {
                #[cfg(unix)]
                {
                    use std::os::unix::process::ExitStatusExt;
                    match s.signal() {
                        Some(sig) => format!("signal {}", sig),
                        None => format!("exit {}", s.code().unwrap_or(-1)),
                    }
                }
                #[cfg(not(unix))]
                {
                    format!("exit {}", s.code().unwrap_or(-1))
                }
            }
            Err(e) => format!("spawn failed: {}", e),
        };
        let kit = ArtifactKit { lib_iface: String::new(), lib_core: String::new(), main_core: String::new() };
        let (tag, case) = build_case(stream, culprit, args.seed, thorough, &corpus, &kit);
        let kind = if hung { "hang" } else { "abort" };
        lines.lock().unwrap().push(format!(
            "F\t{}\t{}\t{}\t{}\t{}\t{}\t{}\t{}",
            stream,
            culprit,
            kind,
            "process",
            if hung { "watchdog".to_string() } else { why.clone() },
            if hung { "case did not finish within the limit".to_string() } else { format!("child process died ({})", why) },
            esc_line(&tag),
            esc_line(&case_repr(&case))
        ));
        start = culprit + 1;
        restarts += 1;
        // a defect that hangs or kills every other case would cost (limit × cases): after a few dead
        // children the chunk has shown what there is to see (each of them is recorded above)
        if restarts >= 6 && start < to {
            lines.lock().unwrap().push(format!("A\t{}\t{}\t{}\tchunk abandoned after {} dead children", stream, start, to, restarts));
            break;
        }
    }
    let text = std::fs::read_to_string(&outfile).unwrap_or_default();
    let mut l = lines.lock().unwrap();
    for line in text.lines() {
        if !line.starts_with("HANG\t") {
            l.push(line.to_string());
        }
    }
    let _ = std::fs::remove_file(&outfile);
}

pub fn main(args: &util::Args) {
    if let Some(i) = args.rest.iter().position(|a| a == "--child") {
        let stream = args.rest[i + 1].clone();
        let from: usize = args.rest[i + 2].parse().unwrap();
        let to: usize = args.rest[i + 3].parse().unwrap();
        let outfile = PathBuf::from(&args.rest[i + 4]);
        child(args, &stream, from, to, &outfile);
        return;
    }
    if let Some(i) = args.rest.iter().position(|a| a == "--gen-stats") {
        // generator diagnostics: acceptance rate of a stream and the most frequent rejections
        let stream = args.rest.get(i + 1).cloned().unwrap_or_else(|| "gen-ok".into());
        let n = args.n.unwrap_or(300);
        util::quiet_panics();
        let dir = util::scratch_dir("c04-stats");
        let corpus = corpus_sources();
        let kit = ArtifactKit { lib_iface: String::new(), lib_core: String::new(), main_core: String::new() };
        let mut hist: BTreeMap<String, (usize, String)> = BTreeMap::new();
        for idx in 0..n {
            let (_tag, case) = build_case(&stream, idx, args.seed, false, &corpus, &kit);
            if let Case::Text(src) = case {
                let key = match util::compile_text(&dir, &src) {
                    util::Outcome::Ok(_) => "ok".to_string(),
                    util::Outcome::Err(st, msgs) => format!("{}: {}", st, msgs.first().cloned().unwrap_or_default().chars().take(70).collect::<String>()),
                    util::Outcome::Panic(m) => format!("panic: {}", m.chars().take(70).collect::<String>()),
                };
                let e = hist.entry(key).or_insert((0, src.clone()));
                e.0 += 1;
                if src.len() < e.1.len() {
                    e.1 = src;
                }
            }
        }
        let mut v: Vec<_> = hist.into_iter().collect();
        v.sort_by_key(|(_, (c, _))| std::cmp::Reverse(*c));
        for (k, (c, src)) in v.iter().take(args.rest.get(i + 2).and_then(|s| s.parse().ok()).unwrap_or(12)) {
            println!("{:5}  {}", c, k);
            if k != "ok" {
                println!("-----\n{}\n-----", src);
            }
        }
        return;
    }
    let exe = std::env::current_exe().expect("current_exe");
    let thorough = args.tier == "thorough";
    let _ = std::fs::create_dir_all(&args.out);
    let lines: Arc<Mutex<Vec<String>>> = Arc::new(Mutex::new(Vec::new()));
    if let Some(f) = args.rest.iter().position(|a| a == "--file").and_then(|i| args.rest.get(i + 1)) {
        // replay one text through the text oracles, in a child of its own
        let src = std::fs::read_to_string(f).expect("read --file");
        crash::install_hook();
        let dir = util::scratch_dir("c04-replay");
        let watch = Watch::start(1, Duration::from_secs(10), Box::new(|_| println!("HANG")));
        let mut tally = Tally { outcomes: BTreeMap::new() };
        let mut findings = Vec::new();
        run_text_full(&watch, [0; 4], &dir, &src, &mut tally, &mut findings);
        let mut out = String::new();
        for fd in &findings {
            writeln!(out, "F\treplay\t0\t{}\t{}\t{}\t{}\t\t{}", fd.kind, fd.entry, fd.site, esc_line(&fd.msg), esc_line(&src)).unwrap();
        }
        std::fs::write(args.out.join("c04.cases.tsv"), out).unwrap();
        return;
    }
    // chunks
    let mut chunks: Vec<(String, usize, usize)> = Vec::new();
    let only = args.rest.iter().position(|a| a == "--only").and_then(|i| args.rest.get(i + 1)).cloned();
    for (name, q, t) in STREAMS {
        if only.as_deref().is_some_and(|o| o != *name) {
            continue;
        }
        let (q, t) = if *name == "call-arity" {
            (arity_catalogue(thorough).len(), arity_catalogue(thorough).len())
        } else if *name == "pat-scrut" {
            (pat_catalogue(thorough).len(), pat_catalogue(thorough).len())
        } else if *name == "fuel-limit" {
            (fuel_catalogue(thorough).len(), fuel_catalogue(thorough).len())
        } else {
            (*q, *t)
        };
        let (q, t) = (&q, &t);
        let n = args.n.map(|n| n.min(*t)).unwrap_or(if thorough { *t } else { *q });
        let size = n.div_ceil(if full_entry_stream(name) { 16 } else if n > 800 || *name == "nest" { 8 } else if n > 100 { 2 } else { 1 }).max(1);
        let mut a = 0;
        while a < n {
            chunks.push((name.to_string(), a, (a + size).min(n)));
            a += size;
        }
    }
    let chunks = Arc::new(Mutex::new(chunks));
    let workers = std::thread::available_parallelism().map(|n| n.get()).unwrap_or(4).min(16);
    std::thread::scope(|s| {
        for _ in 0..workers {
            let chunks = chunks.clone();
            let lines = lines.clone();
            let exe = exe.clone();
            s.spawn(move || {
                loop {
                    let next = chunks.lock().unwrap().pop();
                    let Some((stream, a, b)) = next else { break };
                    run_chunk(&exe, args, &stream, a, b, &args.out, &lines);
                }
            });
        }
    });
    let l = lines.lock().unwrap();
    std::fs::write(args.out.join("c04.cases.tsv"), l.join("\n") + "\n").unwrap();
}
