//! Type-directed generator of whole goml programs for the crash/hang search (C04).
//! It builds expressions for a requested type from a typing environment, so the output is
//! well-typed by construction (checked against the real typer by the caller, which reports
//! the acceptance rate); `ill_at` injects exactly one ill-typed hole.
//! Features that have a known finding are switched off in the main stream (`Feat`).
use crate::rng::Rng;
use std::collections::BTreeMap;
use std::fmt::Write as _;

#[derive(Clone, Debug, PartialEq)]
#[allow(dead_code)]
pub enum Ty {
    Unit,
    Bool,
    Int(&'static str),
    Float(&'static str),
    Str,
    Tuple(Vec<Ty>),
    Array(Box<Ty>, usize),
    Vec(Box<Ty>),
    Ref(Box<Ty>),
    Fn(Vec<Ty>, Box<Ty>),
    Struct(usize, Vec<Ty>),
    Enum(usize, Vec<Ty>),
    Dyn(usize),
    Param(&'static str),
}

pub const INTS: [&str; 8] = ["int8", "int16", "int32", "int64", "uint8", "uint16", "uint32", "uint64"];

#[derive(Clone, Copy, Debug, Default)]
pub struct Feat {
    pub floats: bool,
    pub wide_ints: bool,
    pub tuples: bool,
    pub arrays: bool,
    pub vecs: bool,
    pub refs: bool,
    pub closures: bool,
    pub closure_args: bool,
    pub structs: bool,
    pub enums: bool,
    pub generics: bool,
    pub traits: bool,
    pub dyn_traits: bool,
    pub inherent: bool,
    pub while_loops: bool,
    pub go_stmt: bool,
    pub string_match: bool,
    pub int_match: bool,
    pub nested_patterns: bool,
    pub struct_patterns: bool,
    pub let_patterns: bool,
    pub recursion: bool,
    pub fn_values: bool,
    pub derive: bool,
}

impl Feat {
    pub fn all() -> Feat {
        Feat {
            floats: true, wide_ints: true, tuples: true, arrays: true, vecs: true, refs: true, closures: true,
            closure_args: true, structs: true, enums: true, generics: true, traits: true, dyn_traits: true,
            inherent: true, while_loops: true, go_stmt: true, string_match: true, int_match: true,
            nested_patterns: true, struct_patterns: true, let_patterns: true, recursion: true, fn_values: true,
            derive: true,
        }
    }
}

#[derive(Clone, Debug)]
struct StructDef {
    name: String,
    generic: bool,
    fields: Vec<(String, Ty)>,
}

#[derive(Clone, Debug)]
struct EnumDef {
    name: String,
    generic: bool,
    variants: Vec<(String, Vec<Ty>)>,
}

#[derive(Clone, Debug)]
struct TraitDef {
    name: String,
    method: String,
    #[allow(dead_code)]
    ret: Ty,
    impls: Vec<Ty>,
}

#[derive(Clone, Debug)]
struct FnDef {
    name: String,
    generics: Vec<&'static str>,
    params: Vec<Ty>,
    #[allow(dead_code)]
    ret: Ty,
}

pub struct Gen {
    pub rng: Rng,
    pub feat: Feat,
    structs: Vec<StructDef>,
    enums: Vec<EnumDef>,
    traits: Vec<TraitDef>,
    fns: Vec<FnDef>,
    methods: Vec<(usize, String, Ty)>, // inherent: struct index, name, ret
    gmethods: Vec<(usize, String)>,    // generic inherent: struct index, name (returns the type argument)
    has_lst: bool,
    counter: usize,
    pub used: BTreeMap<&'static str, usize>,
    /// index of the expression hole that gets a wrongly typed expression (ill-typed stream)
    pub ill_at: Option<usize>,
    /// statements that are ill-typed on their own (e.g. an infinite-type closure); when set, the
    /// ill hole becomes a block that starts with them and ends in a well-typed value
    pub ill_snippet: Option<String>,
    holes: usize,
    pub ill_done: Option<String>,
    budget: usize,
}

type Env = Vec<(String, Ty)>;

impl Gen {
    pub fn new(rng: Rng, feat: Feat) -> Gen {
        Gen {
            rng, feat, structs: vec![], enums: vec![], traits: vec![], fns: vec![], methods: vec![], gmethods: vec![], has_lst: false, counter: 0,
            used: BTreeMap::new(), ill_at: None, ill_snippet: None, holes: 0, ill_done: None, budget: 400,
        }
    }

    fn mark(&mut self, f: &'static str) {
        *self.used.entry(f).or_default() += 1;
    }

    fn fresh(&mut self, p: &str) -> String {
        self.counter += 1;
        format!("{}{}", p, self.counter)
    }

    pub fn show(&self, t: &Ty) -> String {
        match t {
            Ty::Unit => "unit".into(),
            Ty::Bool => "bool".into(),
            Ty::Int(n) | Ty::Float(n) => n.to_string(),
            Ty::Str => "string".into(),
            Ty::Tuple(ts) => format!("({})", ts.iter().map(|t| self.show(t)).collect::<Vec<_>>().join(", ")),
            Ty::Array(t, n) => format!("[{}; {}]", self.show(t), n),
            Ty::Vec(t) => format!("Vec[{}]", self.show(t)),
            Ty::Ref(t) => format!("Ref[{}]", self.show(t)),
            Ty::Fn(ps, r) => format!("({}) -> {}", ps.iter().map(|t| self.show(t)).collect::<Vec<_>>().join(", "), self.show(r)),
            Ty::Struct(i, args) => {
                if args.is_empty() { self.structs[*i].name.clone() } else { format!("{}[{}]", self.structs[*i].name, args.iter().map(|t| self.show(t)).collect::<Vec<_>>().join(", ")) }
            }
            Ty::Enum(i, args) => {
                if args.is_empty() { self.enums[*i].name.clone() } else { format!("{}[{}]", self.enums[*i].name, args.iter().map(|t| self.show(t)).collect::<Vec<_>>().join(", ")) }
            }
            Ty::Dyn(i) => format!("dyn {}", self.traits[*i].name),
            Ty::Param(p) => p.to_string(),
        }
    }

    fn subst(t: &Ty, arg: &Ty) -> Ty {
        match t {
            Ty::Param(_) => arg.clone(),
            Ty::Tuple(ts) => Ty::Tuple(ts.iter().map(|t| Self::subst(t, arg)).collect()),
            Ty::Array(t, n) => Ty::Array(Box::new(Self::subst(t, arg)), *n),
            Ty::Vec(t) => Ty::Vec(Box::new(Self::subst(t, arg))),
            Ty::Ref(t) => Ty::Ref(Box::new(Self::subst(t, arg))),
            Ty::Fn(ps, r) => Ty::Fn(ps.iter().map(|t| Self::subst(t, arg)).collect(), Box::new(Self::subst(r, arg))),
            Ty::Struct(i, a) => Ty::Struct(*i, a.iter().map(|t| Self::subst(t, arg)).collect()),
            Ty::Enum(i, a) => Ty::Enum(*i, a.iter().map(|t| Self::subst(t, arg)).collect()),
            other => other.clone(),
        }
    }

    fn prim(&mut self) -> Ty {
        let mut opts = vec![Ty::Int("int32"), Ty::Int("int32"), Ty::Bool, Ty::Str, Ty::Unit];
        if self.feat.wide_ints {
            opts.push(Ty::Int(INTS[self.rng.below(INTS.len())]));
        }
        if self.feat.floats {
            opts.push(Ty::Float(if self.rng.chance(1, 2) { "float32" } else { "float64" }));
        }
        opts[self.rng.below(opts.len())].clone()
    }

    /// a closed type (no parameters) of bounded depth
    pub fn ty(&mut self, depth: usize) -> Ty {
        if depth == 0 || self.rng.chance(1, 2) {
            return self.prim();
        }
        let mut k: Vec<u8> = vec![];
        if self.feat.tuples { k.push(0) }
        if self.feat.arrays { k.push(1) }
        if self.feat.vecs { k.push(2) }
        if self.feat.refs { k.push(3) }
        if self.feat.closures { k.push(4) }
        if self.feat.structs && !self.structs.is_empty() { k.push(5); k.push(5) }
        if self.feat.enums && !self.enums.is_empty() { k.push(6); k.push(6) }
        if k.is_empty() {
            return self.prim();
        }
        match k[self.rng.below(k.len())] {
            0 => {
                let n = 2 + self.rng.below(2);
                Ty::Tuple((0..n).map(|_| self.ty(depth - 1)).collect())
            }
            1 => Ty::Array(Box::new(self.ty(depth - 1)), 1 + self.rng.below(3)),
            2 => Ty::Vec(Box::new(self.ty(depth - 1))),
            3 => Ty::Ref(Box::new(self.ty(depth - 1))),
            4 => {
                let n = self.rng.below(3);
                Ty::Fn((0..n).map(|_| self.ty(depth - 1)).collect(), Box::new(self.ty(depth - 1)))
            }
            5 => {
                let i = self.rng.below(self.structs.len());
                let args = if self.structs[i].generic { vec![self.ty(depth - 1)] } else { vec![] };
                Ty::Struct(i, args)
            }
            _ => {
                let i = self.rng.below(self.enums.len());
                let args = if self.enums[i].generic { vec![self.ty(depth - 1)] } else { vec![] };
                Ty::Enum(i, args)
            }
        }
    }

    fn struct_fields(&self, i: usize, args: &[Ty]) -> Vec<(String, Ty)> {
        let d = &self.structs[i];
        d.fields.iter().map(|(n, t)| (n.clone(), if d.generic { Self::subst(t, &args[0]) } else { t.clone() })).collect()
    }

    fn enum_variants(&self, i: usize, args: &[Ty]) -> Vec<(String, Vec<Ty>)> {
        let d = &self.enums[i];
        d.variants.iter().map(|(n, ts)| (n.clone(), ts.iter().map(|t| if d.generic { Self::subst(t, &args[0]) } else { t.clone() }).collect())).collect()
    }

    fn literal(&mut self, t: &Ty) -> Option<String> {
        Some(match t {
            Ty::Unit => "()".into(),
            Ty::Bool => if self.rng.chance(1, 2) { "true".into() } else { "false".into() },
            Ty::Int(n) => {
                let v = self.rng.below(100);
                match *n {
                    "int32" => format!("{}", v),
                    "int8" => format!("{}i8", v),
                    "int16" => format!("{}i16", v),
                    "int64" => format!("{}i64", v),
                    "uint8" => format!("{}u8", v),
                    "uint16" => format!("{}u16", v),
                    "uint32" => format!("{}u32", v),
                    _ => format!("{}u64", v),
                }
            }
            Ty::Float(n) => format!("{}.{}{}", self.rng.below(50), self.rng.below(10), if *n == "float32" { "f32" } else { "f64" }),
            Ty::Str => format!("\"{}\"", ["a", "bc", "", "x y", "é"][self.rng.below(5)]),
            _ => return None,
        })
    }

    /// an expression of type `t`
    pub fn expr(&mut self, t: &Ty, env: &Env, depth: usize) -> String {
        self.holes += 1;
        if self.ill_at == Some(self.holes) {
            // one hole of the well-typed tree is filled with an expression of another type
            let mut wrong = match t {
                Ty::Bool => Ty::Str,
                Ty::Str => Ty::Int("int32"),
                Ty::Int(_) => Ty::Bool,
                Ty::Unit => Ty::Int("int32"),
                _ => Ty::Bool,
            };
            // half of the time ANY other primitive type (another integer width, a float, …): a near miss such as
            // float-for-int or int64-for-int32 takes other paths through the typer than bool-for-int does
            if self.rng.chance(1, 2) {
                for _ in 0..4 {
                    let w = self.prim();
                    if w != *t {
                        wrong = w;
                        break;
                    }
                }
            }
            if let Some(snip) = self.ill_snippet.clone() {
                let tail = self.leaf(t, env);
                let e = self.blk(t, env, format!("{} {}", snip, tail));
                self.ill_done = Some(format!("infinite-type snippet where {} expected", self.show(t)));
                return e;
            }
            let e = match self.rng.below(4) {
                0 => "undefined_name".to_string(),
                1 => format!("undefined_fn({})", self.literal(&Ty::Int("int32")).unwrap()),
                _ => self.value(&wrong, env, 1),
            };
            self.ill_done = Some(format!("{} where {} expected", e, self.show(t)));
            return e;
        }
        self.value(t, env, depth)
    }

    fn value(&mut self, t: &Ty, env: &Env, depth: usize) -> String {
        if self.budget == 0 {
            return self.leaf(t, env);
        }
        self.budget -= 1;
        if depth == 0 {
            return self.leaf(t, env);
        }
        let d = depth - 1;
        // forms available at every type
        let pick = self.rng.below(15);
        match pick {
            0 | 1 => return self.leaf(t, env),
            2 => {
                self.mark("if");
                let c = self.expr(&Ty::Bool, env, d);
                let a = self.expr(t, env, d);
                let b = self.expr(t, env, d);
                return format!("if {} {{ {} }} else {{ {} }}", c, a, b);
            }
            3 => {
                self.mark("block");
                let b = self.block(t, env, d);
                let other = self.leaf(t, env);
                let c = self.rng.chance(1, 2);
                return format!("if {} {} else {{ {} }}", c, b, other);
            }
            4 => {
                if let Some(m) = self.match_expr(t, env, d) {
                    return m;
                }
            }
            5 => {
                // call a declared function whose result is `t`
                let cands: Vec<usize> = self.fns.iter().enumerate().filter(|(_, f)| f.generics.is_empty() && f.ret == *t).map(|(i, _)| i).collect();
                if !cands.is_empty() {
                    self.mark("call");
                    let f = self.fns[cands[self.rng.below(cands.len())]].clone();
                    let args: Vec<String> = f.params.iter().map(|p| self.expr(p, env, d)).collect();
                    return format!("{}({})", f.name, args.join(", "));
                }
                // generic identity / choose
                let gens: Vec<usize> = self.fns.iter().enumerate().filter(|(_, f)| f.generics.len() == 1 && f.ret == Ty::Param("T")).map(|(i, _)| i).collect();
                if !gens.is_empty() {
                    self.mark("generic-call");
                    let f = self.fns[gens[self.rng.below(gens.len())]].clone();
                    let args: Vec<String> = f.params.iter().map(|p| { let p = Self::subst(p, t); self.expr(&p, env, d) }).collect();
                    return format!("{}({})", f.name, args.join(", "));
                }
            }
            6 => {
                // field of a struct-typed variable
                let mut c = vec![];
                for (n, vt) in env.iter() {
                    if let Ty::Struct(i, args) = vt {
                        for (f, ft) in self.struct_fields(*i, args) {
                            if ft == *t {
                                c.push(format!("{}.{}", n, f));
                            }
                        }
                    }
                    if let Ty::Tuple(ts) = vt {
                        for (k, ft) in ts.iter().enumerate() {
                            if ft == t {
                                c.push(format!("{}.{}", n, k));
                            }
                        }
                    }
                }
                if !c.is_empty() {
                    self.mark("field/proj");
                    return c[self.rng.below(c.len())].clone();
                }
            }
            7 if self.feat.closures => {
                // immediately bound closure and call
                self.mark("closure");
                let a = self.prim();
                let x = self.fresh("c");
                let f = self.fresh("f");
                let mut env2 = env.clone();
                env2.push((x.clone(), a.clone()));
                let body = self.expr(t, &env2, d);
                let arg = self.expr(&a, env, d);
                let annot = if self.rng.chance(2, 3) { format!(": {}", self.show(&a)) } else { String::new() };
                let inner = format!("let {} = |{}{}| {}; {}({})", f, x, annot, body, f, arg);
                return self.blk(t, env, inner);
            }
            8 if self.feat.refs => {
                self.mark("ref");
                let e = self.expr(t, env, d);
                return format!("ref_get(ref({}))", e);
            }
            9 if self.feat.arrays => {
                self.mark("array_get");
                let n = 1 + self.rng.below(3);
                let items: Vec<String> = (0..n).map(|_| self.expr(t, env, d)).collect();
                return format!("array_get([{}], {})", items.join(", "), self.rng.below(n));
            }
            10 if self.feat.vecs => {
                self.mark("vec");
                let e = self.expr(t, env, d);
                let v = self.fresh("v");
                let inner = format!("let {}: Vec[{}] = vec_new(); let {} = vec_push({}, {}); vec_get({}, 0)", v, self.show(t), v, v, e, v);
                return self.blk(t, env, inner);
            }
            13 if !self.gmethods.is_empty() => {
                self.mark("generic-method-call");
                let (si, m) = self.gmethods[self.rng.below(self.gmethods.len())].clone();
                let recv = self.expr(&Ty::Struct(si, vec![t.clone()]), env, d);
                return format!("{}.{}()", self.paren_recv(recv), m);
            }
            11 if self.feat.inherent => {
                let c: Vec<(usize, String)> = self.methods.iter().filter(|(_, _, r)| r == t).map(|(i, n, _)| (*i, n.clone())).collect();
                if !c.is_empty() {
                    self.mark("method-call");
                    let (si, m) = c[self.rng.below(c.len())].clone();
                    let recv = self.expr(&Ty::Struct(si, vec![]), env, d);
                    return format!("{}.{}()", self.paren_recv(recv), m);
                }
            }
            12 if self.feat.traits && *t == Ty::Str => {
                let c: Vec<usize> = (0..self.traits.len()).filter(|i| !self.traits[*i].impls.is_empty()).collect();
                if !c.is_empty() {
                    let ti = c[self.rng.below(c.len())];
                    let tr = self.traits[ti].clone();
                    let it = tr.impls[self.rng.below(tr.impls.len())].clone();
                    let recv = self.expr(&it, env, d);
                    if self.feat.dyn_traits && self.rng.chance(1, 3) {
                        self.mark("dyn-call");
                        let dv = self.fresh("d");
                        let inner = format!("let {}: dyn {} = {}; {}::{}({})", dv, tr.name, recv, tr.name, tr.method, dv);
                        return self.blk(t, env, inner);
                    }
                    if self.feat.generics && self.rng.chance(1, 4) {
                        self.mark("bounded-generic-call");
                        return format!("via{}({})", tr.name, recv);
                    }
                    if self.rng.chance(1, 4) {
                        self.mark("trait-method-syntax");
                        return format!("{}.{}()", self.paren_recv(recv), tr.method);
                    }
                    self.mark("trait-call");
                    return format!("{}::{}({})", tr.name, tr.method, recv);
                }
            }
            _ => {}
        }
        // forms specific to the type
        match t {
            Ty::Bool => {
                self.mark("bool-op");
                match self.rng.below(4) {
                    0 => format!("!{}", self.atomic(&Ty::Bool, env, d)),
                    1 => {
                        let it = Ty::Int(if self.feat.wide_ints { INTS[self.rng.below(8)] } else { "int32" });
                        let op = ["<", ">", "<=", ">=", "==", "!="][self.rng.below(6)];
                        format!("{} {} {}", self.atomic(&it, env, d), op, self.atomic(&it, env, d))
                    }
                    2 => format!("{} && {}", self.atomic(&Ty::Bool, env, d), self.atomic(&Ty::Bool, env, d)),
                    _ => format!("{} || {}", self.atomic(&Ty::Bool, env, d), self.atomic(&Ty::Bool, env, d)),
                }
            }
            Ty::Int(n) => {
                self.mark("int-op");
                let signed = n.starts_with("int");
                match self.rng.below(5) {
                    0 if signed => format!("-{}", self.atomic(t, env, d)),
                    1 if *n == "int32" => format!("string_len({})", self.expr(&Ty::Str, env, d)),
                    2 if *n == "int32" && self.has_lst => {
                        self.mark("recursive-generic-enum-use");
                        let et = self.prim();
                        let mut l = "LNil".to_string();
                        for _ in 0..self.rng.below(3) {
                            l = format!("LCons({}, {})", self.expr(&et, env, d), l);
                        }
                        if l == "LNil" {
                            l = format!("LCons({}, LNil)", self.expr(&et, env, d));
                        }
                        format!("llen({})", l)
                    }
                    _ => {
                        let op = ["+", "-", "*", "/"][self.rng.below(4)];
                        format!("{} {} {}", self.atomic(t, env, d), op, self.atomic(t, env, d))
                    }
                }
            }
            Ty::Float(_) => {
                self.mark("float-op");
                let op = ["+", "-", "*", "/"][self.rng.below(4)];
                format!("{} {} {}", self.atomic(t, env, d), op, self.atomic(t, env, d))
            }
            Ty::Str => {
                self.mark("string-op");
                match self.rng.below(3) {
                    0 => format!("{} + {}", self.atomic(&Ty::Str, env, d), self.atomic(&Ty::Str, env, d)),
                    1 => {
                        let it = if self.feat.wide_ints { Ty::Int(INTS[self.rng.below(8)]) } else { Ty::Int("int32") };
                        format!("{}_to_string({})", self.show(&it), self.expr(&it, env, d))
                    }
                    _ => format!("bool_to_string({})", self.expr(&Ty::Bool, env, d)),
                }
            }
            Ty::Unit => {
                self.mark("unit-op");
                match self.rng.below(3) {
                    0 => format!("string_print({})", self.expr(&Ty::Str, env, d)),
                    _ => "()".into(),
                }
            }
            _ => self.construct(t, env, d),
        }
    }

    /// `{ … }` is not an expression on its own in goml (blocks occur only as bodies), so a block
    /// in value position is the then-branch of an `if true`
    fn blk(&mut self, t: &Ty, env: &Env, inner: String) -> String {
        let other = self.leaf(t, env);
        format!("if true {{ {} }} else {{ {} }}", inner, other)
    }

    fn paren_recv(&self, e: String) -> String {
        if e.chars().all(|c| c.is_alphanumeric() || c == '_') { e } else { format!("({})", e) }
    }

    /// an operand that needs no parentheses
    fn atomic(&mut self, t: &Ty, env: &Env, depth: usize) -> String {
        let e = self.expr(t, env, depth);
        let simple = e.chars().all(|c| c.is_alphanumeric() || c == '_' || c == '.' || c == '"');
        if simple || (e.ends_with(')') && e.chars().next().map(|c| c.is_alphabetic()).unwrap_or(false) && balanced_call(&e)) {
            e
        } else {
            format!("({})", e)
        }
    }

    fn leaf(&mut self, t: &Ty, env: &Env) -> String {
        let vars: Vec<&String> = env.iter().filter(|(_, vt)| vt == t).map(|(n, _)| n).collect();
        if !vars.is_empty() && self.rng.chance(2, 3) {
            return vars[self.rng.below(vars.len())].clone();
        }
        if let Some(l) = self.literal(t) {
            return l;
        }
        self.construct(t, env, 0)
    }

    /// build a value of a compound type from its parts
    fn construct(&mut self, t: &Ty, env: &Env, d: usize) -> String {
        match t {
            Ty::Tuple(ts) => {
                self.mark("tuple");
                format!("({})", ts.iter().map(|t| self.expr(t, env, d)).collect::<Vec<_>>().join(", "))
            }
            Ty::Array(et, n) => {
                self.mark("array");
                format!("[{}]", (0..*n).map(|_| self.expr(et, env, d)).collect::<Vec<_>>().join(", "))
            }
            Ty::Vec(et) => {
                self.mark("vec");
                let v = self.fresh("v");
                let mut s = format!("let {}: Vec[{}] = vec_new(); ", v, self.show(et));
                for _ in 0..self.rng.below(3) {
                    let e = self.expr(et, env, d);
                    write!(s, "let {} = vec_push({}, {}); ", v, v, e).unwrap();
                }
                write!(s, "{}", v).unwrap();
                format!("if true {{ {} }} else {{ vec_new() }}", s)
            }
            Ty::Ref(et) => {
                self.mark("ref");
                format!("ref({})", self.expr(et, env, d))
            }
            Ty::Fn(ps, r) => {
                // a declared function of that type, or a closure
                let cands: Vec<String> = self.fns.iter().filter(|f| f.generics.is_empty() && f.params == *ps && f.ret == **r).map(|f| f.name.clone()).collect();
                if self.feat.fn_values && !cands.is_empty() && self.rng.chance(1, 2) {
                    self.mark("fn-value");
                    return cands[self.rng.below(cands.len())].clone();
                }
                self.mark("closure");
                let mut env2 = env.clone();
                let mut names = vec![];
                for p in ps {
                    let x = self.fresh("c");
                    env2.push((x.clone(), p.clone()));
                    names.push(format!("{}: {}", x, self.show(p)));
                }
                let body = self.expr(r, &env2, d);
                format!("|{}| {}", names.join(", "), body)
            }
            Ty::Struct(i, args) => {
                self.mark("struct-lit");
                let fs = self.struct_fields(*i, args);
                let name = self.structs[*i].name.clone();
                let parts: Vec<String> = fs.iter().map(|(n, ft)| format!("{}: {}", n, self.expr(ft, env, d))).collect();
                format!("{} {{ {} }}", name, parts.join(", "))
            }
            Ty::Enum(i, args) => {
                self.mark("enum-ctor");
                let vs = self.enum_variants(*i, args);
                // prefer a variant without recursion at depth 0
                let (vn, vts) = vs[self.rng.below(vs.len())].clone();
                let name = self.enums[*i].name.clone();
                let q = if self.rng.chance(2, 3) { format!("{}::", name) } else { String::new() };
                if vts.is_empty() {
                    format!("{}{}", q, vn)
                } else {
                    format!("{}{}({})", q, vn, vts.iter().map(|t| self.expr(t, env, d)).collect::<Vec<_>>().join(", "))
                }
            }
            Ty::Dyn(i) => {
                let tr = self.traits[*i].clone();
                let it = tr.impls[self.rng.below(tr.impls.len())].clone();
                self.expr(&it, env, d)
            }
            Ty::Param(_) => "()".into(),
            other => self.literal(other).unwrap_or_else(|| "()".into()),
        }
    }

    fn block(&mut self, t: &Ty, env: &Env, d: usize) -> String {
        let mut env2 = env.clone();
        let mut s = String::from("{ ");
        for _ in 0..self.rng.below(3) {
            self.stmt(&mut s, &mut env2, d);
        }
        let tail = self.expr(t, &env2, d);
        write!(s, "{} }}", tail).unwrap();
        s
    }

    fn stmt(&mut self, s: &mut String, env: &mut Env, d: usize) {
        match self.rng.below(8) {
            0 if self.feat.while_loops => {
                self.mark("while");
                let r = self.fresh("w");
                let body = self.expr(&Ty::Unit, env, d);
                write!(s, "let {} = ref(0); while ref_get({}) < {} {{ let _ = ref_set({}, ref_get({}) + 1); {} }}; ", r, r, self.rng.below(3), r, r, body).unwrap();
            }
            1 if self.feat.go_stmt => {
                self.mark("go");
                let body = self.expr(&Ty::Unit, env, d);
                write!(s, "go || {{ {} }}; ", body).unwrap();
            }
            2 if self.feat.let_patterns && self.feat.tuples => {
                self.mark("let-tuple-pattern");
                let a = self.prim();
                let b = self.prim();
                let x = self.fresh("p");
                let y = self.fresh("p");
                let e = self.expr(&Ty::Tuple(vec![a.clone(), b.clone()]), env, d);
                write!(s, "let ({}, {}) = {}; ", x, y, e).unwrap();
                env.push((x, a));
                env.push((y, b));
            }
            3 => {
                let e = self.expr(&Ty::Unit, env, d);
                write!(s, "let _ = {}; ", e).unwrap();
            }
            4 if self.feat.refs => {
                self.mark("ref_set");
                let t = self.prim();
                let r = self.fresh("r");
                let a = self.expr(&t, env, d);
                let b = self.expr(&t, env, d);
                write!(s, "let {} = ref({}); let _ = ref_set({}, {}); ", r, a, r, b).unwrap();
                env.push((r, Ty::Ref(Box::new(t))));
            }
            _ => {
                self.mark("let");
                let t = self.ty(2);
                let x = self.fresh("x");
                let e = self.expr(&t, env, d);
                if self.rng.chance(2, 3) {
                    write!(s, "let {}: {} = {}; ", x, self.show(&t), e).unwrap();
                } else {
                    write!(s, "let {} = {}; ", x, e).unwrap();
                }
                env.push((x, t));
            }
        }
    }

    /// pattern for a value of type `t` with its bindings; `total` patterns only when asked
    fn pattern(&mut self, t: &Ty, binds: &mut Env, depth: usize, total: bool) -> String {
        if depth == 0 || self.rng.chance(1, 3) {
            return if self.rng.chance(1, 2) {
                "_".into()
            } else {
                let x = self.fresh("m");
                binds.push((x.clone(), t.clone()));
                x
            };
        }
        match t {
            Ty::Tuple(ts) if self.feat.nested_patterns => {
                format!("({})", ts.iter().map(|t| self.pattern(t, binds, depth - 1, total)).collect::<Vec<_>>().join(", "))
            }
            Ty::Struct(i, args) if self.feat.struct_patterns => {
                let fs = self.struct_fields(*i, args);
                let name = self.structs[*i].name.clone();
                let parts: Vec<String> = fs.iter().map(|(n, ft)| format!("{}: {}", n, self.pattern(ft, binds, depth - 1, total))).collect();
                format!("{} {{ {} }}", name, parts.join(", "))
            }
            Ty::Bool if !total => if self.rng.chance(1, 2) { "true".into() } else { "false".into() },
            Ty::Int(_) if !total && self.feat.int_match => self.literal(t).unwrap(),
            Ty::Str if !total && self.feat.string_match => self.literal(t).unwrap(),
            _ => {
                let x = self.fresh("m");
                binds.push((x.clone(), t.clone()));
                x
            }
        }
    }

    fn match_expr(&mut self, t: &Ty, env: &Env, d: usize) -> Option<String> {
        // scrutinee type: enum, bool, int, string, tuple
        let mut kinds: Vec<u8> = vec![0];
        if self.feat.enums && !self.enums.is_empty() { kinds.push(1); kinds.push(1) }
        if self.feat.int_match { kinds.push(2) }
        if self.feat.string_match { kinds.push(3) }
        if self.feat.tuples && self.feat.nested_patterns { kinds.push(4) }
        if self.feat.structs && self.feat.struct_patterns && !self.structs.is_empty() { kinds.push(5) }
        let k = kinds[self.rng.below(kinds.len())];
        self.mark("match");
        let pd = if self.feat.nested_patterns { 2 } else { 1 };
        match k {
            0 => {
                let s = self.expr(&Ty::Bool, env, d);
                let a = self.expr(t, env, d);
                let b = self.expr(t, env, d);
                Some(format!("match {} {{ true => {}, false => {}, }}", self.scrut(s), a, b))
            }
            1 => {
                let i = self.rng.below(self.enums.len());
                let args = if self.enums[i].generic { vec![self.prim()] } else { vec![] };
                let st = Ty::Enum(i, args.clone());
                let s = self.expr(&st, env, d);
                let name = self.enums[i].name.clone();
                let mut arms = String::new();
                let vs = self.enum_variants(i, &args);
                let drop_last = vs.len() > 1 && self.rng.chance(1, 4);
                for (k, (vn, vts)) in vs.iter().enumerate() {
                    if drop_last && k + 1 == vs.len() {
                        let body = self.expr(t, env, d);
                        write!(arms, "_ => {}, ", body).unwrap();
                        break;
                    }
                    let mut binds = env.clone();
                    let q = if self.rng.chance(2, 3) { format!("{}::", name) } else { String::new() };
                    let pat = if vts.is_empty() {
                        format!("{}{}", q, vn)
                    } else {
                        let ps: Vec<String> = vts.iter().map(|t| self.pattern(t, &mut binds, pd - 1, true)).collect();
                        format!("{}{}({})", q, vn, ps.join(", "))
                    };
                    let body = self.expr(t, &binds, d);
                    write!(arms, "{} => {}, ", pat, body).unwrap();
                }
                Some(format!("match {} {{ {}}}", self.scrut(s), arms))
            }
            2 | 3 => {
                let st = if k == 2 { Ty::Int(if self.feat.wide_ints { INTS[self.rng.below(8)] } else { "int32" }) } else { Ty::Str };
                let s = self.expr(&st, env, d);
                let mut arms = String::new();
                let mut seen = vec![];
                for _ in 0..1 + self.rng.below(3) {
                    let mut l = self.literal(&st).unwrap();
                    if k == 2 && self.rng.chance(1, 3) {
                        // an unsuffixed literal pattern takes the scrutinee's integer type
                        l = format!("{}", self.rng.below(100));
                    }
                    if seen.contains(&l) {
                        continue;
                    }
                    seen.push(l.clone());
                    let body = self.expr(t, env, d);
                    write!(arms, "{} => {}, ", l, body).unwrap();
                }
                let x = self.fresh("m");
                let mut binds = env.clone();
                let named = self.rng.chance(1, 2);
                if named {
                    binds.push((x.clone(), st.clone()));
                }
                let body = self.expr(t, &binds, d);
                write!(arms, "{} => {}, ", if named { x } else { "_".into() }, body).unwrap();
                Some(format!("match {} {{ {}}}", self.scrut(s), arms))
            }
            4 => {
                let st = Ty::Tuple(vec![Ty::Bool, self.prim()]);
                let s = self.expr(&st, env, d);
                let mut b1 = env.clone();
                let p1 = self.pattern(&st, &mut b1, 2, false);
                let e1 = self.expr(t, &b1, d);
                let e2 = self.expr(t, env, d);
                Some(format!("match {} {{ {} => {}, _ => {}, }}", self.scrut(s), p1, e1, e2))
            }
            _ => {
                let i = self.rng.below(self.structs.len());
                let args = if self.structs[i].generic { vec![self.prim()] } else { vec![] };
                let st = Ty::Struct(i, args);
                let s = self.expr(&st, env, d);
                let mut b1 = env.clone();
                let p1 = self.pattern(&st, &mut b1, 2, true);
                let e1 = self.expr(t, &b1, d);
                Some(format!("match {} {{ {} => {}, }}", self.scrut(s), p1, e1))
            }
        }
    }

    /// a scrutinee must not start with a struct literal (`match S { .. } { .. }` is ambiguous)
    fn scrut(&self, e: String) -> String {
        if e.contains('{') { format!("({})", e) } else { e }
    }

    // ------------------------------------------------------------ declarations

    fn decl_types(&mut self, out: &mut String) {
        let ns = if self.feat.structs { 1 + self.rng.below(3) } else { 0 };
        for k in 0..ns {
            let generic = self.feat.generics && self.rng.chance(1, 3);
            let name = format!("S{}", k);
            let nf = self.rng.below(4);
            let mut fields = vec![];
            for j in 0..nf {
                let t = if generic && j == 0 { Ty::Param("T") } else { self.ty(2) };
                fields.push((format!("f{}", j), t));
            }
            if generic && fields.is_empty() {
                fields.push(("f0".into(), Ty::Param("T")));
            }
            let def = StructDef { name: name.clone(), generic, fields };
            if self.feat.derive && self.rng.chance(1, 5) && !generic && def.fields.iter().all(|(_, t)| matches!(t, Ty::Int(_) | Ty::Bool | Ty::Str)) {
                self.mark("derive");
                out.push_str(if self.rng.chance(1, 2) { "#[derive(ToString)]\n" } else { "#[derive(ToJson)]\n" });
            }
            write!(out, "struct {}{} {{ ", name, if generic { "[T]" } else { "" }).unwrap();
            self.structs.push(def.clone());
            for (n, t) in &def.fields {
                write!(out, "{}: {}, ", n, self.show(t)).unwrap();
            }
            out.push_str("}\n");
        }
        let ne = if self.feat.enums { 1 + self.rng.below(2) } else { 0 };
        for k in 0..ne {
            let generic = self.feat.generics && self.rng.chance(1, 3);
            let name = format!("E{}", k);
            let nv = 1 + self.rng.below(3);
            let mut variants = vec![];
            for j in 0..nv {
                let np = self.rng.below(3);
                let mut ps = vec![];
                for q in 0..np {
                    ps.push(if generic && j == 0 && q == 0 { Ty::Param("T") } else { self.ty(1) });
                }
                variants.push((format!("V{}x{}", k, j), ps));
            }
            if generic && !variants.iter().any(|(_, ps)| ps.contains(&Ty::Param("T"))) {
                variants[0].1.push(Ty::Param("T"));
            }
            let def = EnumDef { name: name.clone(), generic, variants };
            write!(out, "enum {}{} {{ ", name, if generic { "[T]" } else { "" }).unwrap();
            self.enums.push(def.clone());
            for (n, ps) in &def.variants {
                if ps.is_empty() {
                    write!(out, "{}, ", n).unwrap();
                } else {
                    write!(out, "{}({}), ", n, ps.iter().map(|t| self.show(t)).collect::<Vec<_>>().join(", ")).unwrap();
                }
            }
            out.push_str("}\n");
        }
    }

    fn decl_traits(&mut self, out: &mut String) {
        if !self.feat.traits {
            return;
        }
        for k in 0..1 + self.rng.below(2) {
            let name = format!("Tr{}", k);
            let method = format!("show{}", k);
            writeln!(out, "trait {} {{ fn {}(Self) -> string; }}", name, method).unwrap();
            let mut impls = vec![];
            let mut cands = vec![Ty::Int("int32"), Ty::Bool];
            for (i, s) in self.structs.iter().enumerate() {
                if !s.generic {
                    cands.push(Ty::Struct(i, vec![]));
                }
            }
            for (i, e) in self.enums.iter().enumerate() {
                if !e.generic {
                    cands.push(Ty::Enum(i, vec![]));
                }
            }
            for c in cands {
                if self.rng.chance(1, 2) {
                    let x = "self";
                    let env = vec![(x.to_string(), c.clone())];
                    let body = self.expr(&Ty::Str, &env, 2);
                    writeln!(out, "impl {} for {} {{ fn {}(self: {}) -> string {{ {} }} }}", name, self.show(&c), method, self.show(&c), body).unwrap();
                    impls.push(c);
                }
            }
            if self.feat.generics {
                writeln!(out, "fn via{}[T: {}](x: T) -> string {{ {}::{}(x) }}", name, name, name, method).unwrap();
            }
            self.traits.push(TraitDef { name, method, ret: Ty::Str, impls });
        }
    }

    fn decl_fns(&mut self, out: &mut String) {
        if self.feat.generics {
            self.mark("generic-fn");
            out.push_str("fn idg[T](x: T) -> T { x }\n");
            self.fns.push(FnDef { name: "idg".into(), generics: vec!["T"], params: vec![Ty::Param("T")], ret: Ty::Param("T") });
            out.push_str("fn chooseg[T](c: bool, a: T, b: T) -> T { if c { a } else { b } }\n");
            self.fns.push(FnDef { name: "chooseg".into(), generics: vec!["T"], params: vec![Ty::Bool, Ty::Param("T"), Ty::Param("T")], ret: Ty::Param("T") });
        }
        if self.feat.generics && self.feat.vecs {
            self.mark("generic-fn-over-vec");
            out.push_str("fn firstv[T](v: Vec[T], d: T) -> T { if vec_len(v) > 0 { vec_get(v, 0) } else { d } }\n");
            self.fns.push(FnDef { name: "firstv".into(), generics: vec!["T"], params: vec![Ty::Vec(Box::new(Ty::Param("T"))), Ty::Param("T")], ret: Ty::Param("T") });
        }
        if self.feat.inherent {
            for i in 0..self.structs.len() {
                if self.structs[i].generic || self.structs[i].fields.is_empty() || !self.rng.chance(1, 2) {
                    continue;
                }
                let (fname, fty) = self.structs[i].fields[self.rng.below(self.structs[i].fields.len())].clone();
                let sname = self.structs[i].name.clone();
                let m = format!("get{}", i);
                writeln!(out, "impl {} {{ fn {}(self: {}) -> {} {{ self.{} }} }}", sname, m, sname, self.show(&fty), fname).unwrap();
                self.methods.push((i, m, fty));
            }
        }
        if self.feat.generics && self.feat.inherent {
            for i in 0..self.structs.len() {
                if self.structs[i].generic && self.structs[i].fields[0].1 == Ty::Param("T") {
                    let sname = self.structs[i].name.clone();
                    let f0 = self.structs[i].fields[0].0.clone();
                    writeln!(out, "impl[T] {}[T] {{ fn head{}(self: {}[T]) -> T {{ self.{} }} }}", sname, i, sname, f0).unwrap();
                    self.gmethods.push((i, format!("head{}", i)));
                }
            }
        }
        if self.feat.generics && self.feat.enums && self.feat.recursion {
            self.mark("recursive-generic-enum");
            out.push_str("enum Lst[T] { LNil, LCons(T, Lst[T]) }\nfn llen[T](l: Lst[T]) -> int32 { match l { LNil => 0, LCons(_, t) => 1 + llen(t), } }\n");
            self.has_lst = true;
        }
        if self.feat.recursion {
            self.mark("recursion");
            out.push_str("fn fact(n: int32) -> int32 { if n < 1 { 1 } else { n * fact(n - 1) } }\n");
            self.fns.push(FnDef { name: "fact".into(), generics: vec![], params: vec![Ty::Int("int32")], ret: Ty::Int("int32") });
        }
        for k in 0..1 + self.rng.below(4) {
            let np = self.rng.below(3);
            let mut params = vec![];
            let mut env = vec![];
            for j in 0..np {
                let mut t = self.ty(2);
                if !self.feat.closure_args {
                    while matches!(t, Ty::Fn(..)) || contains_fn(&t) {
                        t = self.ty(1);
                    }
                }
                env.push((format!("a{}", j), t.clone()));
                params.push(t);
            }
            let ret = self.ty(2);
            let name = format!("fun{}", k);
            let body = self.expr(&ret, &env, 3);
            let ps: Vec<String> = env.iter().map(|(n, t)| format!("{}: {}", n, self.show(t))).collect();
            writeln!(out, "fn {}({}) -> {} {{ {} }}", name, ps.join(", "), self.show(&ret), body).unwrap();
            self.fns.push(FnDef { name, generics: vec![], params, ret });
        }
    }

    pub fn program(&mut self) -> String {
        let mut out = String::new();
        self.decl_types(&mut out);
        self.decl_traits(&mut out);
        self.decl_fns(&mut out);
        let mut body = String::from("fn main() {\n");
        let mut env: Env = vec![];
        for _ in 0..2 + self.rng.below(5) {
            let mut s = String::from("    ");
            self.stmt(&mut s, &mut env, 3);
            s.push('\n');
            body.push_str(&s);
        }
        let e = self.expr(&Ty::Str, &env, 3);
        writeln!(body, "    string_println({})\n}}", e).unwrap();
        out.push_str(&body);
        out
    }

    pub fn hole_count(&self) -> usize {
        self.holes
    }
}

fn contains_fn(t: &Ty) -> bool {
    match t {
        Ty::Fn(..) => true,
        Ty::Tuple(ts) => ts.iter().any(contains_fn),
        Ty::Array(t, _) | Ty::Vec(t) | Ty::Ref(t) => contains_fn(t),
        Ty::Struct(_, a) | Ty::Enum(_, a) => a.iter().any(contains_fn),
        _ => false,
    }
}

fn balanced_call(e: &str) -> bool {
    // `name(...)` where the final `)` closes the first `(`
    let Some(open) = e.find('(') else { return false };
    if !e[..open].chars().all(|c| c.is_alphanumeric() || c == '_' || c == ':') {
        return false;
    }
    let mut depth = 0i32;
    for (i, c) in e.char_indices() {
        if c == '(' {
            depth += 1;
        } else if c == ')' {
            depth -= 1;
            if depth == 0 && i + 1 != e.len() {
                return false;
            }
        }
    }
    depth == 0
}
