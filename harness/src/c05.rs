//! C05 — lexical name resolution: real `name_resolution` vs the Lean model, plus the
//! acceptance oracle (well-scoped ⇔ no scoping diagnostic) on the whole pipeline.
use crate::rng::Rng;
use crate::sexp::{S, a, esc_line, l, n, tagged};
use crate::util::{self, Outcome};
use ast::ast;
use compiler::hir;
use std::collections::HashMap;
use std::fmt::Write as _;
use std::path::Path;

fn off(ptr: &parser::syntax::MySyntaxNodePtr) -> u32 {
    u32::from(ptr.text_range().start())
}

pub const PARAM_BASE: u32 = 10_000_000;

fn pat_sexp(p: &ast::Pat) -> S {
    match p {
        ast::Pat::PVar { name, astptr } => tagged("pv", vec![a(&name.0), n(off(astptr))]),
        ast::Pat::PConstr { args, .. } => tagged("po", args.iter().map(pat_sexp).collect()),
        ast::Pat::PStruct { fields, .. } => {
            tagged("po", fields.iter().map(|(_, p)| pat_sexp(p)).collect())
        }
        ast::Pat::PTuple { pats, .. } => tagged("po", pats.iter().map(pat_sexp).collect()),
        _ => tagged("po", vec![]),
    }
}

/// children in the order `resolve_expr` visits them; `outside` counts shapes the model
/// does not cover (a `let` that is not a direct block item)
fn expr_sexp(e: &ast::Expr, outside: &mut usize) -> S {
    use ast::Expr::*;
    let mut node = |es: Vec<&ast::Expr>, outside: &mut usize| {
        tagged("n", es.into_iter().map(|e| expr_sexp(e, outside)).collect())
    };
    match e {
        EPath { path, astptr } => {
            if path.len() == 1 {
                tagged("v", vec![a(&path.segments[0].ident.0), n(off(astptr))])
            } else {
                tagged("n", vec![])
            }
        }
        EUnit { .. } | EBool { .. } | EInt { .. } | EInt8 { .. } | EInt16 { .. } | EInt32 { .. }
        | EInt64 { .. } | EUInt8 { .. } | EUInt16 { .. } | EUInt32 { .. } | EUInt64 { .. }
        | EFloat { .. } | EFloat32 { .. } | EFloat64 { .. } | EString { .. } => tagged("n", vec![]),
        EConstr { args, .. } => node(args.iter().collect(), outside),
        EStructLiteral { fields, .. } => node(fields.iter().map(|(_, e)| e).collect(), outside),
        ETuple { items, .. } | EArray { items, .. } => node(items.iter().collect(), outside),
        ELet { pat, value, .. } => {
            *outside += 1;
            tagged("b", vec![tagged("let", vec![pat_sexp(pat), expr_sexp(value, outside)])])
        }
        EClosure { params, body, .. } => tagged(
            "c",
            vec![
                l(params.iter().map(|p| l(vec![a(&p.name.0), n(off(&p.astptr))])).collect()),
                expr_sexp(body, outside),
            ],
        ),
        EMatch { expr, arms, .. } => {
            let mut v = vec![expr_sexp(expr, outside)];
            for arm in arms {
                v.push(tagged("arm", vec![pat_sexp(&arm.pat), expr_sexp(&arm.body, outside)]));
            }
            tagged("m", v)
        }
        EIf { cond, then_branch, else_branch, .. } => {
            node(vec![cond, then_branch, else_branch], outside)
        }
        EWhile { cond, body, .. } => node(vec![cond, body], outside),
        EGo { expr, .. } => node(vec![expr], outside),
        ECall { func, args, .. } => {
            let mut v: Vec<&ast::Expr> = vec![func];
            v.extend(args.iter());
            node(v, outside)
        }
        EUnary { expr, .. } => node(vec![expr], outside),
        EBinary { lhs, rhs, .. } => node(vec![lhs, rhs], outside),
        EProj { tuple, .. } => node(vec![tuple], outside),
        EField { expr, .. } => node(vec![expr], outside),
        EBlock { exprs, .. } => {
            let mut v = Vec::new();
            for e in exprs {
                match e {
                    ELet { pat, value, .. } => {
                        v.push(tagged("let", vec![pat_sexp(pat), expr_sexp(value, outside)]))
                    }
                    other => v.push(expr_sexp(other, outside)),
                }
            }
            tagged("b", v)
        }
    }
}

fn ast_fns(file: &ast::File) -> Vec<&ast::Fn> {
    let mut v = Vec::new();
    for item in &file.toplevels {
        match item {
            ast::Item::Fn(f) => v.push(f),
            ast::Item::ImplBlock(i) => v.extend(i.methods.iter()),
            _ => {}
        }
    }
    v
}

pub struct ScopeDump {
    pub fns: Vec<S>,
    pub use_tags: Vec<(u32, String)>,
    pub outside: usize,
    pub binders: usize,
}

fn collect_use_tags(s: &S, out: &mut Vec<(u32, String)>, binders: &mut usize) {
    if let S::L(items) = s {
        if let (Some(S::A(h)), Some(S::A(name)), Some(S::A(t))) = (items.first(), items.get(1), items.get(2)) {
            if h == "v" {
                if let Ok(t) = t.parse() {
                    out.push((t, name.clone()));
                }
                return;
            }
            if h == "pv" {
                *binders += 1;
                return;
            }
        }
        for it in items {
            collect_use_tags(it, out, binders);
        }
    }
}

fn all_tags(s: &S, out: &mut Vec<u32>) {
    if let S::L(items) = s {
        if let (Some(S::A(h)), Some(S::A(t))) = (items.first(), items.get(2)) {
            if (h == "v" || h == "pv") && items.len() == 3 {
                if let Ok(t) = t.parse() {
                    out.push(t);
                }
                return;
            }
        }
        // closure parameter lists: (name tag)
        if items.len() == 2 {
            if let (S::A(_), S::A(t)) = (&items[0], &items[1]) {
                if let Ok(t) = t.parse::<u32>() {
                    if t < PARAM_BASE {
                        out.push(t);
                    }
                    return;
                }
            }
        }
        for it in items {
            all_tags(it, out);
        }
    }
}

pub fn scope_dump(file: &ast::File) -> ScopeDump {
    let mut outside = 0;
    let mut synthetic = 0usize;
    let mut seen_tags: std::collections::HashSet<u32> = std::collections::HashSet::new();
    let mut fns = Vec::new();
    for (fi, f) in ast_fns(file).into_iter().enumerate() {
        let params = f
            .params
            .iter()
            .enumerate()
            .map(|(k, (id, _))| l(vec![a(&id.0), n(PARAM_BASE + fi as u32 * 1000 + k as u32)]))
            .collect();
        let cand = tagged("fn", vec![l(params), expr_sexp(&f.body, &mut outside)]);
        // derive-generated methods reuse the attribute's syntax pointer for every node: their
        // occurrences cannot be told apart by offset, so they are left out of the comparison
        let mut tags = Vec::new();
        all_tags(&cand, &mut tags);
        let mut uniq = tags.clone();
        uniq.sort();
        uniq.dedup();
        if uniq.len() != tags.len() || tags.iter().any(|t| seen_tags.contains(t)) {
            synthetic += 1;
            fns.push(tagged("fn", vec![l(vec![]), tagged("n", vec![])]));
        } else {
            seen_tags.extend(tags);
            fns.push(cand);
        }
    }
    let _ = synthetic;
    let mut use_tags = Vec::new();
    let mut binders = 0;
    for f in &fns {
        collect_use_tags(f, &mut use_tags, &mut binders);
    }
    ScopeDump { fns, use_tags, outside, binders }
}

/// what the real resolver decided: use offset -> binder tag / none
pub fn real_resolution(
    file: ast::File,
    uses_named: &[(u32, String)],
    globals: &mut Vec<String>,
) -> Result<String, String> {
    let use_tags: Vec<u32> = uses_named.iter().map(|(t, _)| *t).collect();
    let use_tags = &use_tags[..];
    let r = std::panic::catch_unwind(std::panic::AssertUnwindSafe(|| {
        hir::lower_to_hir_files(vec![hir::SourceFileAst {
            path: std::path::PathBuf::from("main.gom"),
            ast: file,
        }])
    }));
    let (pkg, table, _diags) = match r {
        Ok(x) => x,
        Err(p) => return Err(format!("panic: {}", util::panic_message(p))),
    };
    let mut binder_tag: HashMap<hir::LocalId, u32> = HashMap::new();
    // fn params, in the same order as `ast_fns`
    let mut fi = 0u32;
    let mut add_fn = |f: &hir::Fn, binder_tag: &mut HashMap<hir::LocalId, u32>, fi: &mut u32| {
        for (k, (id, _)) in f.params.iter().enumerate() {
            binder_tag.insert(*id, PARAM_BASE + *fi * 1000 + k as u32);
        }
        *fi += 1;
    };
    for def_id in &pkg.toplevels {
        match table.def(*def_id) {
            hir::Def::Fn(f) => add_fn(f, &mut binder_tag, &mut fi),
            hir::Def::ImplBlock(ib) => {
                for m in &ib.methods {
                    if let hir::Def::Fn(f) = table.def(*m) {
                        add_fn(f, &mut binder_tag, &mut fi);
                    }
                }
            }
            _ => {}
        }
    }
    let pkg_id = table.package();
    for idx in 0..table.pat_count() as u32 {
        if let hir::Pat::PVar { name, astptr } = table.pat(hir::PatId { pkg: pkg_id, idx }) {
            binder_tag.insert(*name, off(astptr));
        }
    }
    let mut uses: HashMap<u32, Option<hir::LocalId>> = HashMap::new();
    let mut global_tags: std::collections::HashSet<u32> = std::collections::HashSet::new();
    for idx in 0..table.expr_count() as u32 {
        match table.expr(hir::ExprId { pkg: pkg_id, idx }) {
            hir::Expr::EClosure { params, .. } => {
                for p in params {
                    binder_tag.insert(p.name, off(&p.astptr));
                }
            }
            hir::Expr::ENameRef { res, astptr: Some(ptr), .. } => {
                let v = match res {
                    hir::NameRef::Local(id) => Some(*id),
                    hir::NameRef::Unresolved(_) => None,
                    _ => {
                        global_tags.insert(off(ptr));
                        None
                    }
                };
                uses.insert(off(ptr), v);
            }
            hir::Expr::EConstr { .. } => {
                if let Some(ptr) = table.expr_ptr(hir::ExprId { pkg: pkg_id, idx }) {
                    global_tags.insert(off(&ptr));
                }
            }
            _ => {}
        }
    }
    let builtin_fns = compiler::builtins::builtin_function_names();
    for (t, name) in uses_named {
        if builtin_fns.contains(name) && !globals.contains(name) {
            globals.push(name.clone());
        }
        if global_tags.contains(t) && !uses.get(t).map(|u| u.is_some()).unwrap_or(false) && !globals.contains(name) {
            globals.push(name.clone());
        }
    }
    let mut out = String::new();
    for (i, t) in use_tags.iter().enumerate() {
        if i > 0 {
            out.push(' ');
        }
        match uses.get(t) {
            Some(Some(id)) => match binder_tag.get(id) {
                Some(b) => write!(out, "{}>{}", t, b).unwrap(),
                None => write!(out, "{}>?", t).unwrap(),
            },
            // not a name reference in HIR (constructor) or a non-local name
            Some(None) | None => write!(out, "{}>-", t).unwrap(),
        }
    }
    Ok(out)
}

// ---------------------------------------------------------------- generator

struct Gen {
    rng: Rng,
    stray: u64, // per-mille chance that a use ignores the lexical scope
    strays: usize,
    globals_clash: bool,
    feats: HashMap<&'static str, usize>,
}

const NAMES: [&str; 3] = ["a", "b", "c"];

impl Gen {
    fn feat(&mut self, f: &'static str) {
        *self.feats.entry(f).or_default() += 1;
    }
    fn var(&mut self, scope: &[&'static str]) -> String {
        if self.rng.chance(self.stray, 1000) {
            self.strays += 1;
            return self.rng.pick(&NAMES).to_string();
        }
        if scope.is_empty() {
            return format!("{}", self.rng.below(9));
        }
        // favour the most recent binders but reach all of them
        let k = scope.len();
        let i = if self.rng.chance(1, 2) { k - 1 - self.rng.below(k.min(2)) } else { self.rng.below(k) };
        scope[i].to_string()
    }
    fn expr(&mut self, scope: &mut Vec<&'static str>, depth: usize) -> String {
        if depth == 0 || self.rng.chance(1, 4) {
            return if self.rng.chance(4, 5) { self.var(scope) } else { format!("{}", self.rng.below(9)) };
        }
        match self.rng.below(6) {
            0 => {
                self.feat("binary");
                format!("({} + {})", self.expr(scope, depth - 1), self.expr(scope, depth - 1))
            }
            1 | 2 => {
                self.feat("if");
                let c = self.expr(scope, depth - 1);
                let t = self.block(scope, depth - 1);
                let e = self.block(scope, depth - 1);
                format!("if {} > 0 {} else {}", c, t, e)
            }
            3 => {
                self.feat("match-var");
                let s = self.expr(scope, depth - 1);
                let x = *self.rng.pick(&NAMES);
                let e0 = if self.rng.chance(1, 2) { self.block(scope, depth - 1) } else { self.expr(scope, depth - 1) };
                scope.push(x);
                let e1 = if self.rng.chance(1, 2) { self.block(scope, depth - 1) } else { self.expr(scope, depth - 1) };
                scope.pop();
                format!("match ({}) {{ 0 => {}, {} => {}, }}", s, e0, x, e1)
            }
            4 => {
                self.feat("match-tuple");
                let s1 = self.expr(scope, depth - 1);
                let s2 = self.expr(scope, depth - 1);
                let x = *self.rng.pick(&NAMES);
                let y = *self.rng.pick(&NAMES);
                let z = *self.rng.pick(&NAMES);
                // first arm binds z; its binding must not be visible in the second arm
                scope.push(z);
                let e2 = self.expr(scope, depth - 1);
                scope.pop();
                let before = scope.len();
                scope.push(x);
                if y != x {
                    scope.push(y);
                }
                let yy = if y == x { "_" } else { y };
                let e1 = self.expr(scope, depth - 1);
                scope.truncate(before);
                format!("match ({}, {}) {{ ({}, 0) => {}, ({}, {}) => {}, }}", s1, s2, z, e2, x, yy, e1)
            }
            _ => {
                self.feat("if-nested");
                let t = self.block(scope, depth - 1);
                let e = self.block(scope, depth - 1);
                format!("if true {} else {}", t, e)
            }
        }
    }
    fn block(&mut self, scope: &mut Vec<&'static str>, depth: usize) -> String {
        self.feat("block");
        let before = scope.len();
        let mut s = String::from("{ ");
        let nstmts = self.rng.below(3);
        for _ in 0..nstmts {
            match self.rng.below(6) {
                0 if depth > 0 => {
                    // closure bound and called: parameter scopes over the body only
                    self.feat("closure");
                    let x = *self.rng.pick(&NAMES);
                    scope.push(x);
                    let body = if self.rng.chance(1, 2) { self.block(scope, depth - 1) } else { self.expr(scope, depth - 1) };
                    scope.pop();
                    let arg = self.expr(scope, depth.saturating_sub(1));
                    let r = *self.rng.pick(&NAMES);
                    write!(s, "let f = |{}: int32| {}; let {} = f({}); ", x, body, r, arg).unwrap();
                    scope.push(r);
                }
                1 if depth > 0 => {
                    // loop body is a scope of its own
                    self.feat("while");
                    let x = *self.rng.pick(&NAMES);
                    let v = self.expr(scope, depth - 1);
                    scope.push(x);
                    let inner = self.expr(scope, depth - 1);
                    scope.pop();
                    write!(s, "while false {{ let {} = {}; let _ = {}; }}; ", x, v, inner).unwrap();
                }
                2 => {
                    let e = self.expr(scope, depth);
                    write!(s, "let _ = {}; ", e).unwrap();
                }
                _ => {
                    let x = *self.rng.pick(&NAMES);
                    let v = self.expr(scope, depth);
                    self.feat("let");
                    write!(s, "let {} = {}; ", x, v).unwrap();
                    scope.push(x);
                }
            }
        }
        let tail = self.expr(scope, depth);
        write!(s, "{} }}", tail).unwrap();
        scope.truncate(before);
        s
    }
    fn program(&mut self, depth: usize) -> String {
        let mut src = String::new();
        let nparams = self.rng.below(3);
        let mut scope: Vec<&'static str> = Vec::new();
        let mut ps = Vec::new();
        for i in 0..nparams {
            let x = NAMES[(i + self.rng.below(3)) % 3];
            if !scope.contains(&x) {
                scope.push(x);
                ps.push(format!("{}: int32", x));
            }
        }
        let body = self.block(&mut scope, depth);
        // top-level items spelled like the local names: a local binder must shadow them
        if self.globals_clash {
            writeln!(src, "fn a(x: int32) -> int32 {{ x + 100 }}").unwrap();
            writeln!(src, "fn b() -> int32 {{ 200 }}").unwrap();
        }
        writeln!(src, "fn g({}) -> int32 {}", ps.join(", "), body).unwrap();
        let args: Vec<String> = ps.iter().enumerate().map(|(i, _)| format!("{}", i + 1)).collect();
        writeln!(src, "fn main() {{ string_println(int32_to_string(g({}))) }}", args.join(", ")).unwrap();
        src
    }
}

fn run_case(id: &str, src: &str, dir: &Path, real_path: Option<&Path>, out: &mut String, extra: &str) {
    let path = real_path.map(|p| p.to_path_buf()).unwrap_or_else(|| dir.join("main.gom"));
    let parsed = std::panic::catch_unwind(std::panic::AssertUnwindSafe(|| {
        compiler::pipeline::pipeline::parse_ast_file(&path, src)
    }));
    let file = match parsed {
        Ok(Ok(f)) => f,
        Ok(Err(e)) => {
            writeln!(out, "{}\tSKIP\tparse-{}\t{}", id, util::stage_of(&e), esc_line(src)).unwrap();
            return;
        }
        Err(_) => {
            writeln!(out, "{}\tSKIP\tparse-panic\t{}", id, esc_line(src)).unwrap();
            return;
        }
    };
    let dump = scope_dump(&file);
    let mut globals = Vec::new();
    let real = match real_resolution(file, &dump.use_tags, &mut globals) {
        Ok(s) => s,
        Err(e) => format!("ERROR {}", e),
    };
    let mut items = vec![tagged("globals", globals.iter().map(a).collect())];
    items.extend(dump.fns.iter().cloned());
    let sexp = tagged("fns", items);
    let outcome = match real_path {
        Some(p) => util::compile_path(p, src),
        None => util::compile_text(dir, src),
    };
    let acc = match outcome {
        Outcome::Ok(_) => "ok".to_string(),
        Outcome::Err(stage, msgs) => {
            format!("err:{}:{}", stage, esc_line(&msgs.iter().take(3).cloned().collect::<Vec<_>>().join(" | ")))
        }
        Outcome::Panic(m) => format!("panic:{}", esc_line(&m)),
    };
    writeln!(
        out,
        "{}\tCASE\t{}\t{}\t{}\tuses={} binders={} outside={} {}\t{}",
        id,
        sexp.to_text(),
        real,
        acc,
        dump.use_tags.len(),
        dump.binders,
        dump.outside,
        extra,
        esc_line(src)
    )
    .unwrap();
}

pub fn main(args: &util::Args) {
    util::quiet_panics();
    let dir = util::scratch_dir("c05");
    let mut out = String::new();
    // corpus first: minimised past failures, then the repository's pipeline programs
    let mut corpus: Vec<(String, String, Option<std::path::PathBuf>)> = Vec::new();
    if let Some(f) = args.rest.iter().position(|a| a == "--file").and_then(|i| args.rest.get(i + 1)) {
        let src = std::fs::read_to_string(f).expect("read --file");
        run_case("replay", &src, &dir, None, &mut out, "stream=replay");
        let _ = std::fs::create_dir_all(&args.out);
        std::fs::write(args.out.join("c05.cases.tsv"), out).unwrap();
        let _ = std::fs::remove_dir_all(&dir);
        return;
    }
    if let Ok(rd) = std::fs::read_dir(util::verif_root().join("corpus/C05")) {
        let mut ps: Vec<_> = rd.filter_map(|e| e.ok().map(|e| e.path())).collect();
        ps.sort();
        for p in ps {
            if let Ok(s) = std::fs::read_to_string(&p) {
                corpus.push((format!("corpus:{}", p.file_name().unwrap().to_string_lossy()), s, None));
            }
        }
    }
    for d in util::corpus_pipeline_dirs() {
        if let Ok(s) = std::fs::read_to_string(d.join("main.gom")) {
            corpus.push((format!("repo:{}", d.file_name().unwrap().to_string_lossy()), s, Some(d.join("main.gom"))));
        }
    }
    for (id, src, rp) in &corpus {
        run_case(id, src, &dir, rp.as_deref(), &mut out, "stream=corpus");
    }
    let total = args.n.unwrap_or(if args.tier == "thorough" { 6000 } else { 600 });
    let mut feats_total: HashMap<&'static str, usize> = HashMap::new();
    for i in 0..total {
        let mut root = Rng::new(args.seed);
        let rng = root.fork(i as u64);
        // a third of the programs draw some names regardless of scope (ill-scoped stream)
        let stray = if i % 3 == 2 { 120 } else { 0 };
        let depth = 1 + (i % 3);
        let mut g = Gen { rng, stray, strays: 0, globals_clash: i % 4 == 1, feats: HashMap::new() };
        let src = g.program(depth);
        for (k, v) in &g.feats {
            *feats_total.entry(k).or_default() += v;
        }
        let extra = format!(
            "stream={} strays={} globals_clash={}",
            if stray > 0 { "stray" } else { "scoped" },
            g.strays,
            g.globals_clash
        );
        run_case(&format!("gen:{}:{}", args.seed, i), &src, &dir, None, &mut out, &extra);
    }
    let mut feats: Vec<_> = feats_total.into_iter().collect();
    feats.sort();
    writeln!(out, "#FEATS\t{}", feats.iter().map(|(k, v)| format!("{}={}", k, v)).collect::<Vec<_>>().join(" ")).unwrap();
    let _ = std::fs::create_dir_all(&args.out);
    std::fs::write(args.out.join("c05.cases.tsv"), out).unwrap();
    let _ = std::fs::remove_dir_all(&dir);
}
