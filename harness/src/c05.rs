//! C05 — lexical name resolution: real `name_resolution` vs the Lean model, plus the
//! acceptance oracle (well-scoped ⇔ no scoping diagnostic) on the whole pipeline.
use crate::rng::Rng;
use crate::sexp::{S, a, esc_line, l, n, tagged};
use std::collections::HashSet;
use crate::util::{self, Outcome};
use ast::ast;
use compiler::hir;
use std::collections::HashMap;
use std::fmt::Write as _;
use std::path::Path;

fn off(ptr: &parser::syntax::MySyntaxNodePtr) -> u32 {
    u32::from(ptr.text_range().start())
}

pub const PARAM_BASE: u32 = 10_000_000;

/// constructors of ONE file by its own declarations (harness/src/patrule.rs)
type Ctors = std::collections::BTreeSet<String>;

/// Which occurrences in a pattern are BINDERS is the language's rule, not lowering's word: a bare
/// identifier that is a variant of an enum / the name of a struct declared in the same file is a
/// constructor pattern whatever is in scope (a pattern never refers to a local), every other bare
/// identifier and every struct-pattern shorthand field is a binder (patrule.rs, DESIGN.md 9.2).
fn pat_sexp(p: &ast::Pat, ctors: &Ctors) -> S {
    if let Some((name, rule, _)) = crate::patrule::by_rule(p, ctors) {
        return match (rule, p) {
            (crate::patrule::Class::Binder, ast::Pat::PVar { astptr, .. } | ast::Pat::PConstr { astptr, .. }) => {
                tagged("pv", vec![a(&name), n(off(astptr))])
            }
            _ => tagged("po", vec![]),
        };
    }
    match p {
        ast::Pat::PVar { name, astptr } => tagged("pv", vec![a(&name.0), n(off(astptr))]),
        ast::Pat::PConstr { args, .. } => tagged("po", args.iter().map(|p| pat_sexp(p, ctors)).collect()),
        ast::Pat::PStruct { fields, .. } => {
            tagged("po", fields.iter().map(|(_, p)| pat_sexp(p, ctors)).collect())
        }
        ast::Pat::PTuple { pats, .. } => tagged("po", pats.iter().map(|p| pat_sexp(p, ctors)).collect()),
        _ => tagged("po", vec![]),
    }
}

/// children in the order `resolve_expr` visits them; `outside` counts shapes the model
/// does not cover (a `let` that is not a direct block item)
fn expr_sexp(e: &ast::Expr, outside: &mut usize, ctors: &Ctors) -> S {
    use ast::Expr::*;
    let mut node = |es: Vec<&ast::Expr>, outside: &mut usize| {
        tagged("n", es.into_iter().map(|e| expr_sexp(e, outside, ctors)).collect())
    };
    match e {
        EPath { path, astptr } => {
            if path.len() == 1 {
                tagged("v", vec![a(&path.segments[0].ident.0), n(off(astptr))])
            } else {
                tagged("n", vec![])
            }
        }
        EUnit { .. } | EBool { .. } | EInt { .. } | EInt8 { .. } | EInt16 { .. } | EInt32 { .. }
        | EInt64 { .. } | EUInt8 { .. } | EUInt16 { .. } | EUInt32 { .. } | EUInt64 { .. }
        | EFloat { .. } | EFloat32 { .. } | EFloat64 { .. } | EString { .. } => tagged("n", vec![]),
        EConstr { constructor, args, astptr } => {
            if constructor.len() == 1 {
                // a bare name that AST lowering classified as a constructor
                let mut v = vec![a(&constructor.segments[0].ident.0), n(off(astptr))];
                v.extend(args.iter().map(|e| expr_sexp(e, outside, ctors)));
                tagged("k", v)
            } else {
                node(args.iter().collect(), outside)
            }
        }
        EStructLiteral { fields, .. } => node(fields.iter().map(|(_, e)| e).collect(), outside),
        ETuple { items, .. } | EArray { items, .. } => node(items.iter().collect(), outside),
        ELet { pat, value, .. } => {
            *outside += 1;
            tagged("b", vec![tagged("let", vec![pat_sexp(pat, ctors), expr_sexp(value, outside, ctors)])])
        }
        EClosure { params, body, .. } => tagged(
            "c",
            vec![
                l(params.iter().map(|p| l(vec![a(&p.name.0), n(off(&p.astptr))])).collect()),
                expr_sexp(body, outside, ctors),
            ],
        ),
        EMatch { expr, arms, .. } => {
            let mut v = vec![expr_sexp(expr, outside, ctors)];
            for arm in arms {
                v.push(tagged("arm", vec![pat_sexp(&arm.pat, ctors), expr_sexp(&arm.body, outside, ctors)]));
            }
            tagged("m", v)
        }
        EIf { cond, then_branch, else_branch, .. } => {
            node(vec![cond, then_branch, else_branch], outside)
        }
        EWhile { cond, body, .. } => node(vec![cond, body], outside),
        EGo { expr, .. } => node(vec![expr], outside),
        ECall { func, args, .. } => {
            let mut v: Vec<&ast::Expr> = vec![func];
            v.extend(args.iter());
            node(v, outside)
        }
        EUnary { expr, .. } => node(vec![expr], outside),
        EBinary { lhs, rhs, .. } => node(vec![lhs, rhs], outside),
        EProj { tuple, .. } => node(vec![tuple], outside),
        EField { expr, .. } => node(vec![expr], outside),
        EBlock { exprs, .. } => {
            let mut v = Vec::new();
            for e in exprs {
                match e {
                    ELet { pat, value, .. } => {
                        v.push(tagged("let", vec![pat_sexp(pat, ctors), expr_sexp(value, outside, ctors)]))
                    }
                    other => v.push(expr_sexp(other, outside, ctors)),
                }
            }
            tagged("b", v)
        }
    }
}

fn ast_fns(file: &ast::File) -> Vec<&ast::Fn> {
    let mut v = Vec::new();
    for item in &file.toplevels {
        match item {
            ast::Item::Fn(f) => v.push(f),
            ast::Item::ImplBlock(i) => v.extend(i.methods.iter()),
            _ => {}
        }
    }
    v
}

pub struct FileDump {
    /// names that are constructors when written bare in this file: variants of the package's
    /// enums (`ConstructorIndex`) and structs of the file (`collect_constructor_names`)
    pub ctors: Vec<String>,
    pub fns: Vec<S>,
}

pub struct ScopeDump {
    pub files: Vec<FileDump>,
    /// `def_names` of the package and the builtin functions
    pub defs: Vec<String>,
    pub use_tags: Vec<(u32, String)>,
    pub outside: usize,
    pub binders: usize,
    /// bare names that lowering classified as constructors
    pub con_nodes: usize,
    /// bare-identifier patterns that lowering classified against the rule of patrule.rs: `name@offset:kind`
    pub patclass: Vec<String>,
}

fn collect_use_tags(s: &S, out: &mut Vec<(u32, String)>, binders: &mut usize, cons: &mut usize) {
    if let S::L(items) = s {
        if let (Some(S::A(h)), Some(S::A(name)), Some(S::A(t))) = (items.first(), items.get(1), items.get(2)) {
            if h == "v" {
                if let Ok(t) = t.parse() {
                    out.push((t, name.clone()));
                }
                return;
            }
            if h == "k" {
                if let Ok(t) = t.parse() {
                    out.push((t, name.clone()));
                    *cons += 1;
                }
                for it in &items[3..] {
                    collect_use_tags(it, out, binders, cons);
                }
                return;
            }
            if h == "pv" {
                *binders += 1;
                return;
            }
        }
        for it in items {
            collect_use_tags(it, out, binders, cons);
        }
    }
}

fn all_tags(s: &S, out: &mut Vec<u32>) {
    if let S::L(items) = s {
        if let (Some(S::A(h)), Some(S::A(t))) = (items.first(), items.get(2)) {
            if (h == "v" || h == "pv") && items.len() == 3 {
                if let Ok(t) = t.parse() {
                    out.push(t);
                }
                return;
            }
            if h == "k" {
                if let Ok(t) = t.parse() {
                    out.push(t);
                }
                for it in &items[3..] {
                    all_tags(it, out);
                }
                return;
            }
        }
        // closure parameter lists: (name tag)
        if items.len() == 2 {
            if let (S::A(_), S::A(t)) = (&items[0], &items[1]) {
                if let Ok(t) = t.parse::<u32>() {
                    if t < PARAM_BASE {
                        out.push(t);
                    }
                    return;
                }
            }
        }
        for it in items {
            all_tags(it, out);
        }
    }
}

/// package-level names of the files of ONE package, read off the declarations (not off what
/// the resolver did): per-file constructor names and the package's definition names
fn declared_globals(files: &[&ast::File]) -> (Vec<Vec<String>>, Vec<String>) {
    let mut variants: Vec<String> = Vec::new();
    let mut defs: Vec<String> = Vec::new();
    let mut push = |v: &mut Vec<String>, x: &str| {
        if !v.iter().any(|y| y == x) {
            v.push(x.to_string());
        }
    };
    for f in files {
        for item in &f.toplevels {
            match item {
                ast::Item::EnumDef(e) => {
                    push(&mut defs, &e.name.0);
                    for (v, _) in &e.variants {
                        push(&mut variants, &v.0);
                    }
                }
                ast::Item::StructDef(d) => push(&mut defs, &d.name.0),
                ast::Item::TraitDef(d) => push(&mut defs, &d.name.0),
                ast::Item::Fn(d) => push(&mut defs, &d.name.0),
                ast::Item::ExternGo(d) => push(&mut defs, &d.goml_name.0),
                ast::Item::ExternType(d) => push(&mut defs, &d.goml_name.0),
                ast::Item::ExternBuiltin(d) => push(&mut defs, &d.name.0),
                ast::Item::ImplBlock(_) => {}
            }
        }
    }
    for b in compiler::builtins::builtin_function_names() {
        push(&mut defs, &b);
    }
    let per_file = files
        .iter()
        .map(|f| {
            let mut c = variants.clone();
            for item in &f.toplevels {
                if let ast::Item::StructDef(d) = item {
                    push(&mut c, &d.name.0);
                }
            }
            c
        })
        .collect();
    (per_file, defs)
}

/// the scope trees of all functions of the files of one package, in `pkg.toplevels` order
pub fn scope_dump(files: &[&ast::File]) -> ScopeDump {
    let mut outside = 0;
    let mut seen_tags: HashSet<u32> = HashSet::new();
    let (ctors, defs) = declared_globals(files);
    let mut out_files = Vec::new();
    let mut fi = 0u32;
    let mut patclass = Vec::new();
    for (file, ctors) in files.iter().zip(ctors) {
        let mut fns = Vec::new();
        let file_ctors = crate::patrule::file_ctors(file);
        patclass.extend(crate::patrule::mismatches(file).into_iter().map(|m| format!("{}@{}:{}", m.name, m.offset, m.kind)));
        for f in ast_fns(file) {
            let params = f
                .params
                .iter()
                .enumerate()
                .map(|(k, (id, _))| l(vec![a(&id.0), n(PARAM_BASE + fi * 1000 + k as u32)]))
                .collect();
            fi += 1;
            let cand = tagged("fn", vec![l(params), expr_sexp(&f.body, &mut outside, &file_ctors)]);
            // derive-generated methods reuse the attribute's syntax pointer for every node: their
            // occurrences cannot be told apart by offset, so they are left out of the comparison
            let mut tags = Vec::new();
            all_tags(&cand, &mut tags);
            let mut uniq = tags.clone();
            uniq.sort();
            uniq.dedup();
            if uniq.len() != tags.len() || tags.iter().any(|t| seen_tags.contains(t)) {
                fns.push(tagged("fn", vec![l(vec![]), tagged("n", vec![])]));
            } else {
                seen_tags.extend(tags);
                fns.push(cand);
            }
        }
        out_files.push(FileDump { ctors, fns });
    }
    let mut use_tags = Vec::new();
    let mut binders = 0;
    let mut con_nodes = 0;
    for f in out_files.iter().flat_map(|f| f.fns.iter()) {
        collect_use_tags(f, &mut use_tags, &mut binders, &mut con_nodes);
    }
    ScopeDump { files: out_files, defs, use_tags, outside, binders, con_nodes, patclass }
}

pub struct Real {
    /// use tag -> binder tag | C (constructor) | G (definition, builtin) | - (unresolved)
    pub map: String,
    /// groups of binder occurrences that were given ONE LocalId
    pub shared: Vec<Vec<u32>>,
}

/// what the real resolver decided for every bare name of the package's files
pub fn real_resolution(files: Vec<(std::path::PathBuf, ast::File)>, uses_named: &[(u32, String)]) -> Result<Real, String> {
    let r = std::panic::catch_unwind(std::panic::AssertUnwindSafe(|| {
        hir::lower_to_hir_files(files.into_iter().map(|(path, ast)| hir::SourceFileAst { path, ast }).collect())
    }));
    let (pkg, table, _diags) = match r {
        Ok(x) => x,
        Err(p) => return Err(format!("panic: {}", util::panic_message(p))),
    };
    // every binder occurrence with the id it was given
    let mut binders: Vec<(u32, hir::LocalId)> = Vec::new();
    // fn params, in the same order as `ast_fns` over the files
    let mut fi = 0u32;
    let mut add_fn = |f: &hir::Fn, binders: &mut Vec<(u32, hir::LocalId)>, fi: &mut u32| {
        for (k, (id, _)) in f.params.iter().enumerate() {
            binders.push((PARAM_BASE + *fi * 1000 + k as u32, *id));
        }
        *fi += 1;
    };
    for def_id in &pkg.toplevels {
        match table.def(*def_id) {
            hir::Def::Fn(f) => add_fn(f, &mut binders, &mut fi),
            hir::Def::ImplBlock(ib) => {
                for m in &ib.methods {
                    if let hir::Def::Fn(f) = table.def(*m) {
                        add_fn(f, &mut binders, &mut fi);
                    }
                }
            }
            _ => {}
        }
    }
    let pkg_id = table.package();
    for idx in 0..table.pat_count() as u32 {
        if let hir::Pat::PVar { name, astptr } = table.pat(hir::PatId { pkg: pkg_id, idx }) {
            binders.push((off(astptr), *name));
        }
    }
    let builtin_fns = compiler::builtins::builtin_function_names();
    let mut uses: HashMap<u32, String> = HashMap::new();
    let mut local_uses: Vec<(u32, hir::LocalId)> = Vec::new();
    for idx in 0..table.expr_count() as u32 {
        match table.expr(hir::ExprId { pkg: pkg_id, idx }) {
            hir::Expr::EClosure { params, .. } => {
                for p in params {
                    binders.push((off(&p.astptr), p.name));
                }
            }
            hir::Expr::ENameRef { res, astptr: Some(ptr), .. } => match res {
                hir::NameRef::Local(id) => local_uses.push((off(ptr), *id)),
                hir::NameRef::Def(_) | hir::NameRef::Builtin(_) => {
                    uses.insert(off(ptr), "G".to_string());
                }
                // the resolver leaves the builtin functions to the typer's function environment
                hir::NameRef::Unresolved(path) => {
                    let g = path.len() == 1 && path.last_ident().is_some_and(|x| builtin_fns.contains(x));
                    uses.insert(off(ptr), if g { "G" } else { "-" }.to_string());
                }
            },
            hir::Expr::EConstr { .. } => {
                if let Some(ptr) = table.expr_ptr(hir::ExprId { pkg: pkg_id, idx }) {
                    uses.entry(off(&ptr)).or_insert_with(|| "C".to_string());
                }
            }
            _ => {}
        }
    }
    let mut binder_tag: HashMap<hir::LocalId, u32> = HashMap::new();
    let mut by_id: HashMap<hir::LocalId, Vec<u32>> = HashMap::new();
    for (t, id) in &binders {
        binder_tag.insert(*id, *t);
        let v = by_id.entry(*id).or_default();
        if !v.contains(t) {
            v.push(*t);
        }
    }
    let mut shared: Vec<Vec<u32>> = by_id.into_values().filter(|v| v.len() > 1).collect();
    shared.sort();
    for (t, id) in local_uses {
        let b = binder_tag.get(&id).map(|b| b.to_string()).unwrap_or_else(|| "?".to_string());
        uses.insert(t, b);
    }
    let mut out = String::new();
    for (i, (t, _)) in uses_named.iter().enumerate() {
        if i > 0 {
            out.push(' ');
        }
        match uses.get(t) {
            Some(r) => write!(out, "{}>{}", t, r).unwrap(),
            // no HIR node at this offset
            None => write!(out, "{}>!", t).unwrap(),
        }
    }
    Ok(Real { map: out, shared })
}

// ---------------------------------------------------------------- generator

/// where the enum whose constructors are spelled like local names is declared
#[derive(Clone, Copy, PartialEq, Eq, Debug)]
enum Site {
    None,
    SameFile,
    OtherFile,
    Imported,
}

struct Gen {
    rng: Rng,
    stray: u64, // per-mille chance that a use ignores the lexical scope
    strays: usize,
    globals_clash: bool,
    feats: HashMap<&'static str, usize>,
    /// names binders and uses are drawn from
    pool: Vec<&'static str>,
    site: Site,
    /// nullary / one-payload variant of `enum Color`
    v_null: &'static str,
    v_pay: &'static str,
    /// names that are constructors when written bare in main.gom (variants of an enum of the
    /// file, structs of the file): in PATTERN position such a name is a constructor pattern,
    /// not a binder
    file_ctors: Vec<&'static str>,
    /// names that are constructors of the package when written bare in an expression
    pkg_ctors: Vec<&'static str>,
    /// `ctorpat` stream: pattern positions may use constructor names all the same
    ctor_patterns: bool,
    /// one parameter list / pattern / closure parameter list may bind a name twice
    dups: bool,
    has_struct: bool,
}

const NAMES: [&str; 3] = ["a", "b", "c"];

#[derive(Clone, Copy, PartialEq, Eq)]
enum Binder {
    /// fn or closure parameter: always a binder
    Param,
    /// variable pattern (let, match arm, tuple / struct sub-pattern)
    Pattern,
}

impl Gen {
    fn feat(&mut self, f: &'static str) {
        *self.feats.entry(f).or_default() += 1;
    }
    fn binder(&mut self, kind: Binder) -> &'static str {
        let x = *self.rng.pick(&self.pool);
        if self.pkg_ctors.contains(&x) || x == "cv" || x == "Color" || x == "P" {
            match kind {
                Binder::Param => self.feat("binder-like-global:param"),
                Binder::Pattern => self.feat("binder-like-global:pattern"),
            }
        }
        if kind == Binder::Pattern && self.file_ctors.contains(&x) {
            if self.ctor_patterns {
                self.feat("ctor-name-in-pattern-position");
                return x;
            }
            // the free names of the pool, else a name of no declaration
            let free: Vec<&'static str> = self.pool.iter().copied().filter(|y| !self.file_ctors.contains(y)).collect();
            return if free.is_empty() { "c" } else { *self.rng.pick(&free) };
        }
        x
    }
    /// a second binder for the same parameter list / pattern: the same name again when
    /// duplicates are on, a different one otherwise
    fn binder2(&mut self, kind: Binder, first: &'static str) -> Option<&'static str> {
        let y = self.binder(kind);
        if y != first {
            return Some(y);
        }
        if self.dups {
            self.feat(match kind {
                Binder::Param => "duplicate:params",
                Binder::Pattern => "duplicate:pattern",
            });
            Some(y)
        } else {
            None
        }
    }
    fn var(&mut self, scope: &[&'static str]) -> String {
        if self.rng.chance(self.stray, 1000) {
            self.strays += 1;
            // not the type names: `Color` as a value resolves (to the enum's DefId) and is then
            // refused by the typer as "Function Color not found" — not a question of scoping
            let vals: Vec<&'static str> = self.pool.iter().copied().filter(|x| *x != "Color" && *x != "P").collect();
            return self.rng.pick(&vals).to_string();
        }
        if scope.is_empty() {
            return format!("{}", self.rng.below(9));
        }
        // favour the most recent binders but reach all of them
        let k = scope.len();
        let i = if self.rng.chance(1, 2) { k - 1 - self.rng.below(k.min(2)) } else { self.rng.below(k) };
        scope[i].to_string()
    }
    /// an int32 expression that USES a constructor of `Color`: bare where no local binder of
    /// that name is in scope (and the constructor is visible unqualified), qualified otherwise
    fn ctor_use(&mut self, scope: &mut Vec<&'static str>, depth: usize) -> Option<String> {
        if self.site == Site::None || scope.contains(&"cv") {
            return None;
        }
        let payload = self.rng.chance(1, 2);
        let v = if payload { self.v_pay } else { self.v_null };
        let arg = if payload { format!("({})", self.expr(scope, depth.saturating_sub(1))) } else { String::new() };
        let bare_ok = self.site != Site::Imported && !scope.contains(&v);
        Some(if self.site == Site::Imported {
            self.feat("ctor-use:package-qualified");
            format!("Lib::cv(Lib::Color::{}{})", v, arg)
        } else if bare_ok && self.rng.chance(2, 3) {
            self.feat(if payload { "ctor-use:bare-payload" } else { "ctor-use:bare-nullary" });
            format!("cv({}{})", v, arg)
        } else {
            self.feat("ctor-use:enum-qualified");
            format!("cv(Color::{}{})", v, arg)
        })
    }
    fn expr(&mut self, scope: &mut Vec<&'static str>, depth: usize) -> String {
        if depth == 0 || self.rng.chance(1, 4) {
            if self.site != Site::None && self.rng.chance(1, 5) {
                if let Some(e) = self.ctor_use(scope, 0) {
                    return e;
                }
            }
            return if self.rng.chance(4, 5) { self.var(scope) } else { format!("{}", self.rng.below(9)) };
        }
        match self.rng.below(9) {
            0 => {
                self.feat("binary");
                format!("({} + {})", self.expr(scope, depth - 1), self.expr(scope, depth - 1))
            }
            1 | 2 => {
                self.feat("if");
                let c = self.expr(scope, depth - 1);
                let t = self.block(scope, depth - 1);
                let e = self.block(scope, depth - 1);
                format!("if {} > 0 {} else {}", c, t, e)
            }
            3 => {
                self.feat("match-var");
                let s = self.expr(scope, depth - 1);
                let x = self.binder(Binder::Pattern);
                let e0 = if self.rng.chance(1, 2) { self.block(scope, depth - 1) } else { self.expr(scope, depth - 1) };
                scope.push(x);
                let e1 = if self.rng.chance(1, 2) { self.block(scope, depth - 1) } else { self.expr(scope, depth - 1) };
                scope.pop();
                format!("match ({}) {{ 0 => {}, {} => {}, }}", s, e0, x, e1)
            }
            4 => {
                self.feat("match-tuple");
                let s1 = self.expr(scope, depth - 1);
                let s2 = self.expr(scope, depth - 1);
                let x = self.binder(Binder::Pattern);
                let y = self.binder2(Binder::Pattern, x);
                let z = self.binder(Binder::Pattern);
                // first arm binds z; its binding must not be visible in the second arm
                scope.push(z);
                let e2 = self.expr(scope, depth - 1);
                scope.pop();
                let before = scope.len();
                scope.push(x);
                if let Some(y) = y {
                    scope.push(y);
                }
                let yy = y.unwrap_or("_");
                let e1 = self.expr(scope, depth - 1);
                scope.truncate(before);
                format!("match ({}, {}) {{ ({}, 0) => {}, ({}, {}) => {}, }}", s1, s2, z, e2, x, yy, e1)
            }
            5 if self.has_struct => {
                // struct pattern: shorthand field (always a binder) and a renamed field
                self.feat("match-struct");
                let s1 = self.expr(scope, depth - 1);
                let s2 = self.expr(scope, depth - 1);
                let shorthand = self.rng.chance(1, 2);
                let f1 = self.pool[0];
                let x = if shorthand { f1 } else { self.binder(Binder::Pattern) };
                if shorthand && (self.pkg_ctors.contains(&f1) || self.file_ctors.contains(&f1)) {
                    self.feat("binder-like-global:shorthand-field");
                }
                let y = self.binder2(Binder::Pattern, x);
                let before = scope.len();
                scope.push(x);
                if let Some(y) = y {
                    scope.push(y);
                }
                let e1 = self.expr(scope, depth - 1);
                scope.truncate(before);
                let p1 = if shorthand { f1.to_string() } else { format!("{}: {}", f1, x) };
                format!("match (P {{ {}: {}, q: {} }}) {{ P {{ {}, q: {} }} => {}, }}", f1, s1, s2, p1, y.unwrap_or("_"), e1)
            }
            6 => {
                // closure with two parameters, called in place of its use
                self.feat("closure2");
                let x = self.binder(Binder::Param);
                let y = self.binder2(Binder::Param, x);
                let before = scope.len();
                scope.push(x);
                if let Some(y) = y {
                    scope.push(y);
                }
                let body = self.expr(scope, depth - 1);
                scope.truncate(before);
                let a1 = self.expr(scope, depth - 1);
                let a2 = self.expr(scope, depth - 1);
                match y {
                    Some(y) => format!("(|{}: int32, {}: int32| {})({}, {})", x, y, body, a1, a2),
                    None => format!("(|{}: int32| {})({})", x, body, a1),
                }
            }
            7 => match self.ctor_use(scope, depth) {
                Some(e) => e,
                None => self.var(scope),
            },
            _ => {
                self.feat("if-nested");
                let t = self.block(scope, depth - 1);
                let e = self.block(scope, depth - 1);
                format!("if true {} else {}", t, e)
            }
        }
    }
    fn block(&mut self, scope: &mut Vec<&'static str>, depth: usize) -> String {
        self.feat("block");
        let before = scope.len();
        let mut s = String::from("{ ");
        let nstmts = self.rng.below(3);
        for _ in 0..nstmts {
            match self.rng.below(7) {
                0 if depth > 0 => {
                    // closure bound and called: parameter scopes over the body only
                    self.feat("closure");
                    let x = self.binder(Binder::Param);
                    scope.push(x);
                    let body = if self.rng.chance(1, 2) { self.block(scope, depth - 1) } else { self.expr(scope, depth - 1) };
                    scope.pop();
                    let arg = self.expr(scope, depth.saturating_sub(1));
                    let r = self.binder(Binder::Pattern);
                    write!(s, "let f = |{}: int32| {}; let {} = f({}); ", x, body, r, arg).unwrap();
                    scope.push(r);
                }
                1 if depth > 0 => {
                    // loop body is a scope of its own
                    self.feat("while");
                    let x = self.binder(Binder::Pattern);
                    let v = self.expr(scope, depth - 1);
                    scope.push(x);
                    let inner = self.expr(scope, depth - 1);
                    scope.pop();
                    write!(s, "while false {{ let {} = {}; let _ = {}; }}; ", x, v, inner).unwrap();
                }
                2 => {
                    let e = self.expr(scope, depth);
                    write!(s, "let _ = {}; ", e).unwrap();
                }
                3 => {
                    // tuple pattern in a let: both names are visible to the end of the block
                    self.feat("let-tuple");
                    let v1 = self.expr(scope, depth);
                    let v2 = self.expr(scope, depth);
                    let x = self.binder(Binder::Pattern);
                    let y = self.binder2(Binder::Pattern, x);
                    write!(s, "let ({}, {}) = ({}, {}); ", x, y.unwrap_or("_"), v1, v2).unwrap();
                    scope.push(x);
                    if let Some(y) = y {
                        scope.push(y);
                    }
                }
                _ => {
                    let x = self.binder(Binder::Pattern);
                    let v = self.expr(scope, depth);
                    self.feat("let");
                    write!(s, "let {} = {}; ", x, v).unwrap();
                    scope.push(x);
                }
            }
        }
        let tail = self.expr(scope, depth);
        write!(s, "{} }}", tail).unwrap();
        scope.truncate(before);
        s
    }
    /// the files of one program: `main.gom` first
    fn program(&mut self, depth: usize) -> Vec<(String, String)> {
        let nparams = self.rng.below(3);
        let mut scope: Vec<&'static str> = Vec::new();
        let mut ps = Vec::new();
        for _ in 0..nparams {
            let x = self.binder(Binder::Param);
            if !scope.contains(&x) || self.dups {
                if scope.contains(&x) {
                    self.feat("duplicate:params");
                }
                scope.push(x);
                ps.push(format!("{}: int32", x));
            }
        }
        let body = self.block(&mut scope, depth);
        let mut src = String::new();
        let mut decls = String::new();
        if self.site != Site::None {
            writeln!(decls, "enum Color {{ {}, {}(int32) }}", self.v_null, self.v_pay).unwrap();
            // bare constructor patterns where the enum is declared; qualified ones otherwise
            let q = if self.rng.chance(1, 2) { "Color::" } else { "" };
            writeln!(
                decls,
                "fn cv(c: Color) -> int32 {{ match c {{ {}{} => 7, {}{}(x) => x }} }}",
                q, self.v_null, q, self.v_pay
            )
            .unwrap();
        }
        let struct_decl = format!("struct P {{ {}: int32, q: int32 }}\n", self.pool[0]);
        // top-level items spelled like the local names: a local binder must shadow them
        if self.globals_clash {
            writeln!(src, "fn a(x: int32) -> int32 {{ x + 100 }}").unwrap();
            writeln!(src, "fn b() -> int32 {{ 200 }}").unwrap();
        }
        if self.has_struct {
            src.push_str(&struct_decl);
        }
        if self.site == Site::SameFile {
            src.push_str(&decls);
        }
        writeln!(src, "fn g({}) -> int32 {}", ps.join(", "), body).unwrap();
        let args: Vec<String> = ps.iter().enumerate().map(|(i, _)| format!("{}", i + 1)).collect();
        writeln!(src, "fn main() {{ string_println(int32_to_string(g({}))) }}", args.join(", ")).unwrap();
        match self.site {
            Site::None | Site::SameFile => vec![("main.gom".to_string(), src)],
            Site::OtherFile => {
                // offsets identify occurrences: keep those of main.gom above those of types.gom
                let pad = format!("//{}\n", "-".repeat(decls.len() + 8));
                vec![("main.gom".to_string(), format!("{}{}", pad, src)), ("types.gom".to_string(), decls)]
            }
            Site::Imported => vec![
                ("main.gom".to_string(), format!("package Main\nimport Lib\n{}", src)),
                ("Lib/lib.gom".to_string(), format!("package Lib\n{}", decls)),
            ],
        }
    }
}

const FILE_MARK: &str = "//// file: ";

/// one text for a whole program: a single file as it is, several files with `//// file: <path>` lines
pub fn join_project(files: &[(String, String)]) -> String {
    if files.len() == 1 {
        return files[0].1.clone();
    }
    let mut s = String::new();
    for (p, src) in files {
        writeln!(s, "{}{}", FILE_MARK, p).unwrap();
        s.push_str(src);
        if !src.ends_with('\n') {
            s.push('\n');
        }
    }
    s
}

pub fn split_project(text: &str) -> Vec<(String, String)> {
    if !text.lines().any(|l| l.starts_with(FILE_MARK)) {
        return vec![("main.gom".to_string(), text.to_string())];
    }
    let mut files: Vec<(String, String)> = Vec::new();
    for line in text.split_inclusive('\n') {
        if let Some(p) = line.strip_prefix(FILE_MARK) {
            files.push((p.trim().to_string(), String::new()));
        } else if let Some(last) = files.last_mut() {
            last.1.push_str(line);
        }
    }
    files
}

/// `real_path`: a corpus program compiled where it lives; otherwise the files are written to a
/// directory of their own (every `.gom` next to `main.gom` belongs to package Main)
fn run_case(id: &str, files: &[(String, String)], dir: &Path, real_path: Option<&Path>, out: &mut String, extra: &str) {
    let joined = join_project(files);
    let case_dir = dir.join("case");
    let _ = std::fs::remove_dir_all(&case_dir);
    let entry = match real_path {
        Some(p) => p.to_path_buf(),
        None => {
            for (rel, src) in files {
                let p = case_dir.join(rel);
                let _ = std::fs::create_dir_all(p.parent().unwrap());
                let _ = std::fs::write(&p, src);
            }
            case_dir.join("main.gom")
        }
    };
    // the files of package Main: those next to the entry
    let mut asts: Vec<(std::path::PathBuf, ast::File)> = Vec::new();
    for (rel, src) in files.iter().filter(|(rel, _)| !rel.contains('/')) {
        let path = if rel == "main.gom" { entry.clone() } else { case_dir.join(rel) };
        let parsed = std::panic::catch_unwind(std::panic::AssertUnwindSafe(|| {
            compiler::pipeline::pipeline::parse_ast_file(&path, src)
        }));
        match parsed {
            Ok(Ok(f)) => asts.push((path, f)),
            Ok(Err(e)) => {
                writeln!(out, "{}\tSKIP\tparse-{}\t{}", id, util::stage_of(&e), esc_line(&joined)).unwrap();
                return;
            }
            Err(_) => {
                writeln!(out, "{}\tSKIP\tparse-panic\t{}", id, esc_line(&joined)).unwrap();
                return;
            }
        }
    }
    // the resolver reads the files of a package in path order
    asts.sort_by(|x, y| x.0.cmp(&y.0));
    let dump = scope_dump(&asts.iter().map(|(_, f)| f).collect::<Vec<_>>());
    let (real, shared) = match real_resolution(asts, &dump.use_tags) {
        Ok(r) => (
            r.map,
            r.shared.iter().map(|g| g.iter().map(|t| t.to_string()).collect::<Vec<_>>().join("+")).collect::<Vec<_>>().join(","),
        ),
        Err(e) => (format!("ERROR {}", e), String::new()),
    };
    let defs = tagged("defs", dump.defs.iter().map(a).collect());
    let sexp = tagged(
        "fns",
        dump.files
            .iter()
            .map(|f| {
                let mut items = vec![tagged("ctors", f.ctors.iter().map(a).collect()), defs.clone()];
                items.extend(f.fns.iter().cloned());
                tagged("file", items)
            })
            .collect(),
    );
    let outcome = util::compile_path(&entry, &files[0].1);
    let acc = match outcome {
        Outcome::Ok(_) => "ok".to_string(),
        Outcome::Err(stage, msgs) => {
            // the scoping diagnostics first, so that the three messages kept show them
            let (mut first, rest): (Vec<String>, Vec<String>) =
                msgs.into_iter().partition(|m| m.contains("Unresolved name") || m.contains("not found in environment"));
            first.extend(rest);
            format!("err:{}:{}", stage, esc_line(&first.iter().take(3).cloned().collect::<Vec<_>>().join(" | ")))
        }
        Outcome::Panic(m) => format!("panic:{}", esc_line(&m)),
    };
    writeln!(
        out,
        "{}\tCASE\t{}\t{}\t{}\tuses={} binders={} outside={} cons={} shared={} patclass={} {}\t{}",
        id,
        sexp.to_text(),
        real,
        acc,
        dump.use_tags.len(),
        dump.binders,
        dump.outside,
        dump.con_nodes,
        if shared.is_empty() { "-" } else { &shared },
        if dump.patclass.is_empty() { "-".to_string() } else { dump.patclass.join(",") },
        extra,
        esc_line(&joined)
    )
    .unwrap();
    let _ = std::fs::remove_dir_all(&case_dir);
}

pub fn main(args: &util::Args) {
    util::quiet_panics();
    let dir = util::scratch_dir("c05");
    let mut out = String::new();
    // corpus first: minimised past failures, then the repository's pipeline programs
    let mut corpus: Vec<(String, String, Option<std::path::PathBuf>)> = Vec::new();
    if let Some(f) = args.rest.iter().position(|a| a == "--file").and_then(|i| args.rest.get(i + 1)) {
        let src = std::fs::read_to_string(f).expect("read --file");
        run_case("replay", &split_project(&src), &dir, None, &mut out, "stream=replay");
        let _ = std::fs::create_dir_all(&args.out);
        std::fs::write(args.out.join("c05.cases.tsv"), out).unwrap();
        let _ = std::fs::remove_dir_all(&dir);
        return;
    }
    if let Ok(rd) = std::fs::read_dir(util::verif_root().join("corpus/C05")) {
        let mut ps: Vec<_> = rd.filter_map(|e| e.ok().map(|e| e.path())).collect();
        ps.sort();
        for p in ps {
            if let Ok(s) = std::fs::read_to_string(&p) {
                corpus.push((format!("corpus:{}", p.file_name().unwrap().to_string_lossy()), s, None));
            }
        }
    }
    for d in util::corpus_pipeline_dirs() {
        if let Ok(s) = std::fs::read_to_string(d.join("main.gom")) {
            corpus.push((format!("repo:{}", d.file_name().unwrap().to_string_lossy()), s, Some(d.join("main.gom"))));
        }
    }
    for (id, src, rp) in &corpus {
        let files = if rp.is_some() { vec![("main.gom".to_string(), src.clone())] } else { split_project(src) };
        run_case(id, &files, &dir, rp.as_deref(), &mut out, "stream=corpus");
    }
    // the name catalogue (harness/src/namecat.rs): a local binder spelled like a package-level name in every
    // binder kind x use position (bare, callee, callee under an operator, passed on, captured, …); well-typed
    // by construction when every use means its innermost binder
    for case in crate::namecat::catalogue(args.seed, args.tier == "thorough") {
        run_case(&case.id, &case.files, &dir, None, &mut out, &format!("stream=names strays=0 globals_clash=false site={:?}File dups=false", case.site));
    }
    // constructor names in PATTERN position under a local binder of the same spelling (harness/src/patpos.rs):
    // the pattern tests the constructor, a use in the arm body means the local; well-typed by construction
    for case in crate::patpos::catalogue() {
        run_case(&case.id, &[("main.gom".to_string(), case.src.clone())], &dir, None, &mut out, "stream=patpos strays=0 globals_clash=false site=SameFile dups=false");
    }
    let total = args.n.unwrap_or(if args.tier == "thorough" { 9000 } else { 900 });
    let mut feats_total: HashMap<&'static str, usize> = HashMap::new();
    for i in 0..total {
        let mut root = Rng::new(args.seed);
        let mut rng = root.fork(i as u64);
        // a third of the programs draw some names regardless of scope (ill-scoped stream)
        let stray = if i % 3 == 2 { 120 } else { 0 };
        let depth = 1 + (i % 3);
        // a third of the programs: names a, b, c only (with top-level fns a, b in a quarter of
        // them); two thirds: an enum whose constructors are spelled like the local names
        let site = match (i / 3) % 6 {
            0 | 1 => Site::None,
            2 | 3 => Site::SameFile,
            4 => Site::OtherFile,
            _ => Site::Imported,
        };
        let v_null = *rng.pick(&["a", "A", "red"]);
        let v_pay = *rng.pick(&["b", "B", "Blue"]);
        // the third name: free, or spelled like the helper function / the enum type / the struct
        let third = *rng.pick(&["c", "c", "cv", "Color", "P"]);
        let has_struct = rng.chance(1, 2);
        let ctor_patterns = site == Site::SameFile && i % 7 == 3;
        let pool: Vec<&'static str> = if site == Site::None { NAMES.to_vec() } else { vec![v_null, v_pay, third, "c"] };
        let mut file_ctors: Vec<&'static str> = Vec::new();
        let mut pkg_ctors: Vec<&'static str> = Vec::new();
        if site == Site::SameFile {
            file_ctors.extend([v_null, v_pay]);
        }
        if site == Site::SameFile || site == Site::OtherFile {
            pkg_ctors.extend([v_null, v_pay]);
        }
        if has_struct {
            file_ctors.push("P");
        }
        let mut g = Gen {
            rng,
            stray,
            strays: 0,
            globals_clash: site == Site::None && i % 4 == 1,
            feats: HashMap::new(),
            pool,
            site,
            v_null,
            v_pay,
            file_ctors,
            pkg_ctors,
            ctor_patterns,
            dups: i % 5 == 3,
            has_struct,
        };
        let files = g.program(depth);
        for (k, v) in &g.feats {
            *feats_total.entry(k).or_default() += v;
        }
        let extra = format!(
            "stream={} strays={} globals_clash={} site={:?} dups={}",
            if stray > 0 {
                "stray"
            } else if ctor_patterns {
                "ctorpat"
            } else {
                "scoped"
            },
            g.strays,
            g.globals_clash,
            site,
            g.dups
        );
        run_case(&format!("gen:{}:{}", args.seed, i), &files, &dir, None, &mut out, &extra);
    }
    let mut feats: Vec<_> = feats_total.into_iter().collect();
    feats.sort();
    writeln!(out, "#FEATS\t{}", feats.iter().map(|(k, v)| format!("{}={}", k, v)).collect::<Vec<_>>().join(" ")).unwrap();
    let _ = std::fs::create_dir_all(&args.out);
    std::fs::write(args.out.join("c05.cases.tsv"), out).unwrap();
    let _ = std::fs::remove_dir_all(&dir);
}
