//! C06 — pattern matching: every `match` / destructuring `let` of the REAL typed AST is handed,
//! with its arm bodies replaced by markers, to the REAL `compile_match::compile_file`; the
//! patterns and the Core it produced are dumped for the Lean side (L1 tie against
//! `Model/Match.lean`, and the first-match oracle that runs the real Core under `Sem`).
use crate::dump;
use crate::rng::Rng;
use crate::sexp::{S, a, l, n, tagged};
use crate::util;
use compiler::common::Prim;
use compiler::env::{Gensym, GlobalTypeEnv};
use compiler::tast::{self, Arm, Expr, Pat, Ty};
use diagnostics::Diagnostics;
use std::collections::BTreeMap;
use std::fmt::Write as _;
use std::panic::{AssertUnwindSafe, catch_unwind};

// ---------------------------------------------------------------- dumps

fn pat(p: &Pat) -> S {
    match p {
        Pat::PWild { ty } => tagged("pwild", vec![dump::ty(ty)]),
        Pat::PVar { name, ty, .. } => tagged("pvar", vec![a(name), dump::ty(ty)]),
        Pat::PPrim { value, ty } => tagged("pprim", vec![dump::prim(value), dump::ty(ty)]),
        Pat::PTuple { items, ty } => {
            let mut v = vec![dump::ty(ty)];
            v.extend(items.iter().map(pat));
            tagged("ptuple", v)
        }
        Pat::PConstr { constructor, args, ty } => {
            let mut v = vec![dump::ctor(constructor), dump::ty(ty)];
            v.extend(args.iter().map(pat));
            tagged("pconstr", v)
        }
    }
}

fn sig(genv: &GlobalTypeEnv) -> S {
    let enums = genv
        .enums()
        .iter()
        .map(|(name, d)| {
            let mut v = vec![a(&name.0), l(d.generics.iter().map(|g| a(&g.0)).collect())];
            v.extend(d.variants.iter().map(|(vn, tys)| {
                let mut w = vec![a(&vn.0)];
                w.extend(tys.iter().map(dump::ty));
                l(w)
            }));
            tagged("enum", v)
        })
        .collect();
    let structs = genv
        .structs()
        .iter()
        .map(|(name, d)| {
            let mut v = vec![a(&name.0), l(d.generics.iter().map(|g| a(&g.0)).collect())];
            v.extend(d.fields.iter().map(|(fname, t)| l(vec![a(&fname.0), dump::ty(t)])));
            tagged("struct", v)
        })
        .collect();
    tagged("sig", vec![tagged("enums", enums), tagged("structs", structs)])
}

// ---------------------------------------------------------------- sites

#[derive(Clone)]
enum Site {
    /// `match e { arms }`; `var` = the scrutinee is a plain variable (no temporary)
    Match { var: Option<String>, scrut_ty: Ty, arms: Vec<Pat> },
    /// `let pat = e; rest…` inside a block
    LetBlock { pat: Pat },
    /// `let pat = e` with nothing after it
    LetAlone { pat: Pat },
}

fn is_simple(p: &Pat) -> bool {
    matches!(p, Pat::PVar { .. })
}

/// shape of a binding construct, used to align the TAST walk with the AST walk
#[derive(Clone, PartialEq, Debug)]
enum Shape {
    Match(usize),
    Let,
}

type Anchors = Vec<(Shape, Option<Site>)>;

fn walk(e: &Expr, out: &mut Anchors) {
    match e {
        Expr::EVar { .. } | Expr::EPrim { .. } => {}
        Expr::EConstr { args, .. } => args.iter().for_each(|x| walk(x, out)),
        Expr::ETuple { items, .. } | Expr::EArray { items, .. } => items.iter().for_each(|x| walk(x, out)),
        Expr::EClosure { body, .. } => walk(body, out),
        Expr::ELet { pat, value, .. } => {
            // `let x = e` is not a site, and the typer introduces such lets itself (initialisers of a
            // struct literal written out of order), so they do not take part in the alignment
            if !is_simple(pat) {
                out.push((Shape::Let, Some(Site::LetAlone { pat: pat.clone() })));
            }
            walk(value, out);
        }
        Expr::EBlock { exprs, .. } => {
            for (i, x) in exprs.iter().enumerate() {
                match x {
                    Expr::ELet { pat, value, .. } if i + 1 < exprs.len() => {
                        if !is_simple(pat) {
                            out.push((Shape::Let, Some(Site::LetBlock { pat: pat.clone() })));
                        }
                        walk(value, out);
                    }
                    _ => walk(x, out),
                }
            }
        }
        Expr::EMatch { expr, arms, .. } => {
            let var = match expr.as_ref() {
                Expr::EVar { name, .. } => Some(name.clone()),
                _ => None,
            };
            out.push((
                Shape::Match(arms.len()),
                Some(Site::Match { var, scrut_ty: expr.get_ty(), arms: arms.iter().map(|a| a.pat.clone()).collect() }),
            ));
            walk(expr, out);
            arms.iter().for_each(|a| walk(&a.body, out));
        }
        Expr::EIf { cond, then_branch, else_branch, .. } => {
            walk(cond, out);
            walk(then_branch, out);
            walk(else_branch, out);
        }
        Expr::EWhile { cond, body, .. } => {
            walk(cond, out);
            walk(body, out);
        }
        Expr::EGo { expr, .. } => walk(expr, out),
        Expr::ECall { func, args, .. } => {
            walk(func, out);
            args.iter().for_each(|x| walk(x, out));
        }
        Expr::EUnary { expr, .. } => walk(expr, out),
        Expr::EProj { tuple, .. } => walk(tuple, out),
        Expr::EField { expr, .. } => walk(expr, out),
        Expr::EBinary { lhs, rhs, .. } => {
            walk(lhs, out);
            walk(rhs, out);
        }
        Expr::ETraitMethod { .. } | Expr::EDynTraitMethod { .. } | Expr::EInherentMethod { .. } => {}
        Expr::EToDyn { expr, .. } => walk(expr, out),
    }
}

/// binding constructs per function of the typed AST, in source order; key = function name, or
/// `impl#k#method` for the k-th impl block
fn anchors_of(file: &tast::File) -> Vec<(String, Anchors)> {
    let mut out = Vec::new();
    let mut k = 0;
    for item in &file.toplevels {
        match item {
            tast::Item::Fn(f) => {
                let mut a = Vec::new();
                walk(&f.body, &mut a);
                out.push((f.name.clone(), a));
            }
            tast::Item::ImplBlock(b) => {
                for m in &b.methods {
                    let mut a = Vec::new();
                    walk(&m.body, &mut a);
                    out.push((format!("impl#{}#{}", k, m.name), a));
                }
                k += 1;
            }
            _ => {}
        }
    }
    out
}

// ---------------------------------------------------------------- the same walk over the SURFACE syntax

use ::ast::ast as sast;

fn awalk(e: &sast::Expr, out: &mut Vec<(Shape, Vec<sast::Pat>)>) {
    use sast::Expr as E;
    match e {
        E::EPath { .. } | E::EUnit { .. } | E::EBool { .. } | E::EInt { .. } | E::EInt8 { .. } | E::EInt16 { .. }
        | E::EInt32 { .. } | E::EInt64 { .. } | E::EUInt8 { .. } | E::EUInt16 { .. } | E::EUInt32 { .. } | E::EUInt64 { .. }
        | E::EFloat { .. } | E::EFloat32 { .. } | E::EFloat64 { .. } | E::EString { .. } => {}
        E::EConstr { args, .. } => args.iter().for_each(|x| awalk(x, out)),
        E::EStructLiteral { fields, .. } => fields.iter().for_each(|(_, x)| awalk(x, out)),
        E::ETuple { items, .. } | E::EArray { items, .. } => items.iter().for_each(|x| awalk(x, out)),
        E::ELet { pat, value, .. } => {
            if !matches!(pat, sast::Pat::PVar { .. }) {
                out.push((Shape::Let, vec![pat.clone()]));
            }
            awalk(value, out);
        }
        E::EClosure { body, .. } => awalk(body, out),
        E::EMatch { expr, arms, .. } => {
            out.push((Shape::Match(arms.len()), arms.iter().map(|a| a.pat.clone()).collect()));
            awalk(expr, out);
            arms.iter().for_each(|a| awalk(&a.body, out));
        }
        E::EIf { cond, then_branch, else_branch, .. } => {
            awalk(cond, out);
            awalk(then_branch, out);
            awalk(else_branch, out);
        }
        E::EWhile { cond, body, .. } => {
            awalk(cond, out);
            awalk(body, out);
        }
        E::EGo { expr, .. } => awalk(expr, out),
        E::ECall { func, args, .. } => {
            awalk(func, out);
            args.iter().for_each(|x| awalk(x, out));
        }
        E::EUnary { expr, .. } => awalk(expr, out),
        E::EBinary { lhs, rhs, .. } => {
            awalk(lhs, out);
            awalk(rhs, out);
        }
        E::EProj { tuple, .. } => awalk(tuple, out),
        E::EField { expr, .. } => awalk(expr, out),
        E::EBlock { exprs, .. } => exprs.iter().for_each(|x| awalk(x, out)),
    }
}

fn src_anchors_of(file: &sast::File) -> BTreeMap<String, Vec<(Shape, Vec<sast::Pat>)>> {
    let mut out = BTreeMap::new();
    let mut k = 0;
    for item in &file.toplevels {
        match item {
            sast::Item::Fn(f) => {
                let mut a = Vec::new();
                awalk(&f.body, &mut a);
                out.insert(f.name.0.clone(), a);
            }
            sast::Item::ImplBlock(b) => {
                for m in &b.methods {
                    let mut a = Vec::new();
                    awalk(&m.body, &mut a);
                    out.insert(format!("impl#{}#{}", k, m.name.0), a);
                }
                k += 1;
            }
            _ => {}
        }
    }
    out
}

/// the sites of the typed AST, each with the patterns AS WRITTEN when the function's binding
/// constructs line up one to one with those of the surface syntax
fn sites_of(file: &tast::File, src_file: Option<&sast::File>) -> Vec<(Site, Option<Vec<sast::Pat>>)> {
    let srcs = src_file.map(src_anchors_of).unwrap_or_default();
    let n_impl_t = file.toplevels.iter().filter(|i| matches!(i, tast::Item::ImplBlock(_))).count();
    let n_impl_s = src_file.map(|f| f.toplevels.iter().filter(|i| matches!(i, sast::Item::ImplBlock(_))).count()).unwrap_or(0);
    let mut out = Vec::new();
    for (key, anchors) in anchors_of(file) {
        let aligned = srcs.get(&key).filter(|sa| {
            (!key.starts_with("impl#") || n_impl_t == n_impl_s)
                && sa.len() == anchors.len()
                && sa.iter().zip(anchors.iter()).all(|(x, y)| x.0 == y.0)
        });
        if aligned.is_none() && std::env::var("GV_C06_DEBUG").is_ok() {
            eprintln!("unaligned {}: tast {:?} / src {:?}", key, anchors.iter().map(|a| a.0.clone()).collect::<Vec<_>>(), srcs.get(&key).map(|sa| sa.iter().map(|a| a.0.clone()).collect::<Vec<_>>()));
        }
        for (i, (_, site)) in anchors.into_iter().enumerate() {
            if let Some(site) = site {
                out.push((site, aligned.map(|sa| sa[i].1.clone())));
            }
        }
    }
    out
}

// ---------------------------------------------------------------- markers

fn pat_vars(p: &Pat, out: &mut Vec<(String, Ty)>) {
    match p {
        Pat::PVar { name, ty, .. } => out.push((name.clone(), ty.clone())),
        Pat::PTuple { items, .. } => items.iter().for_each(|x| pat_vars(x, out)),
        Pat::PConstr { args, .. } => args.iter().for_each(|x| pat_vars(x, out)),
        Pat::PWild { .. } | Pat::PPrim { .. } => {}
    }
}

/// `{ string_print("<i>;"); (i, v1, …, vn) }` — prints which arm runs and returns what it bound
fn marker(i: usize, p: &Pat) -> Expr {
    let mut vars = Vec::new();
    pat_vars(p, &mut vars);
    let mut items = vec![Expr::EPrim { value: Prim::Int32 { value: i as i32 }, ty: Ty::TInt32 }];
    let mut tys = vec![Ty::TInt32];
    for (name, ty) in vars {
        tys.push(ty.clone());
        items.push(Expr::EVar { name, ty, astptr: None });
    }
    let tup_ty = Ty::TTuple { typs: tys };
    Expr::EBlock {
        exprs: vec![
            Expr::ECall {
                func: Box::new(Expr::EVar {
                    name: "string_print".into(),
                    ty: Ty::TFunc { params: vec![Ty::TString], ret_ty: Box::new(Ty::TUnit) },
                    astptr: None,
                }),
                args: vec![Expr::EPrim { value: Prim::string(format!("<{}>;", i)), ty: Ty::TString }],
                ty: Ty::TUnit,
            },
            Expr::ETuple { items, ty: tup_ty.clone() },
        ],
        ty: tup_ty,
    }
}

const SCRUT: &str = "c06scrut";

/// the synthetic function body handed to the real match compiler
fn synthetic(site: &Site) -> Expr {
    match site {
        Site::Match { var, scrut_ty, arms } => {
            let scrut = match var {
                Some(name) => Expr::EVar { name: name.clone(), ty: scrut_ty.clone(), astptr: None },
                // any non-variable scrutinee: a block around the variable that carries the value
                None => Expr::EBlock {
                    exprs: vec![Expr::EVar { name: SCRUT.into(), ty: scrut_ty.clone(), astptr: None }],
                    ty: scrut_ty.clone(),
                },
            };
            let ty = arms.first().map(|p| marker(0, p).get_ty()).unwrap_or(Ty::TUnit);
            Expr::EMatch {
                expr: Box::new(scrut),
                arms: arms.iter().enumerate().map(|(i, p)| Arm { pat: p.clone(), body: marker(i, p) }).collect(),
                ty,
                astptr: None,
            }
        }
        Site::LetBlock { pat } => {
            let m = marker(0, pat);
            let ty = m.get_ty();
            Expr::EBlock {
                exprs: vec![
                    Expr::ELet {
                        pat: pat.clone(),
                        value: Box::new(Expr::EVar { name: SCRUT.into(), ty: pat.get_ty(), astptr: None }),
                        ty: Ty::TUnit,
                    },
                    m,
                ],
                ty,
            }
        }
        Site::LetAlone { pat } => Expr::ELet {
            pat: pat.clone(),
            value: Box::new(Expr::EVar { name: SCRUT.into(), ty: pat.get_ty(), astptr: None }),
            ty: Ty::TUnit,
        },
    }
}

fn site_sexp(site: &Site) -> S {
    match site {
        Site::Match { var, scrut_ty, arms } => tagged(
            "match",
            vec![
                match var {
                    Some(v) => tagged("var", vec![a(v)]),
                    None => tagged("other", vec![a(SCRUT)]),
                },
                dump::ty(scrut_ty),
                tagged("arms", arms.iter().map(pat).collect()),
            ],
        ),
        Site::LetBlock { pat: p } => tagged("letblock", vec![a(SCRUT), dump::ty(&p.get_ty()), pat(p)]),
        Site::LetAlone { pat: p } => tagged("letalone", vec![a(SCRUT), dump::ty(&p.get_ty()), pat(p)]),
    }
}

/// run the real `compile_file` on one site; returns the TSV tail (kind + payload)
fn compile_site(genv: &GlobalTypeEnv, site: &Site) -> String {
    let body = synthetic(site);
    let file = tast::File {
        toplevels: vec![tast::Item::Fn(tast::Fn { name: "c06site".into(), params: vec![], ret_ty: body.get_ty(), body })],
    };
    let r = catch_unwind(AssertUnwindSafe(|| {
        let gensym = Gensym::new();
        let mut diags = Diagnostics::new();
        let core = compiler::compile_match::compile_file(genv, &gensym, &mut diags, &file);
        (core, diags)
    }));
    match r {
        Ok((core, diags)) => {
            if diags.has_errors() {
                let msgs: Vec<String> = diags.iter().map(|d| d.message().to_string()).collect();
                format!("DIAG\t{}", crate::sexp::esc_line(&msgs.join(" | ")))
            } else {
                format!("CORE\t{}", dump::core_expr(&core.toplevels[0].body).to_text())
            }
        }
        Err(p) => format!("PANIC\t{}", crate::sexp::esc_line(&util::panic_message(p))),
    }
}

struct Out {
    text: String,
    sites: usize,
    kinds: BTreeMap<String, usize>,
}

fn emit_program(out: &mut Out, id: &str, tast: &tast::File, genv: &GlobalTypeEnv, src: &str, show_src: bool) {
    // the surface syntax of the same text, from the repository's own parser and lowering
    let src_file = crate::astdump::parse_lower(std::path::Path::new("main.gom"), src).ok();
    // which bare identifiers of the written patterns are constructors is NOT taken from the lowering:
    // harness/src/patrule.rs applies the language's rule (constructor of the same file, whatever is in
    // scope) to the syntax node; a pattern the lowering classified otherwise is a row of its own
    let ctors = src_file.as_ref().map(crate::patrule::file_ctors).unwrap_or_default();
    let mism = src_file.as_ref().map(crate::patrule::mismatches).unwrap_or_default();
    if let Some(f) = src_file.as_ref() {
        let (c, b) = crate::patrule::count_bare(f);
        *out.kinds.entry("bare-identifier-patterns:constructor-by-rule".to_string()).or_default() += c;
        *out.kinds.entry("bare-identifier-patterns:binder-by-rule".to_string()).or_default() += b;
    }
    let sites = sites_of(tast, src_file.as_ref());
    if sites.is_empty() && mism.is_empty() {
        return;
    }
    writeln!(out.text, "{}\tSIG\t{}", id, sig(genv).to_text()).unwrap();
    if show_src || !mism.is_empty() {
        writeln!(out.text, "{}\tSRC\t{}", id, crate::sexp::esc_line(src)).unwrap();
    }
    for m in &mism {
        let line = src[..(m.offset as usize).min(src.len())].matches('\n').count() + 1;
        writeln!(out.text, "{}\tPATCLASS\t{}\t{}\t{}\t{}\t{}", id, m.kind, m.name, m.offset, line, m.func).unwrap();
    }
    for (k, (site, written)) in sites.iter().enumerate() {
        let tail = compile_site(genv, site);
        let kind = match site {
            Site::Match { var: Some(_), .. } => "match-var",
            Site::Match { var: None, .. } => "match-expr",
            Site::LetBlock { .. } => "let-block",
            Site::LetAlone { .. } => "let-alone",
        };
        *out.kinds.entry(format!("{}:{}", kind, tail.split('\t').next().unwrap_or(""))).or_default() += 1;
        *out.kinds.entry(if written.is_some() { "aligned-with-source".to_string() } else { "not-aligned".to_string() }).or_default() += 1;
        out.sites += 1;
        let w = match written {
            Some(ps) => tagged("written", ps.iter().map(|p| crate::patrule::pat(p, &ctors)).collect()).to_text(),
            None => "none".to_string(),
        };
        writeln!(out.text, "{}#{}\tSITE\t{}\t{}\t{}", id, k, site_sexp(site).to_text(), tail, w).unwrap();
    }
}

/// a program the typer rejects has no site; what the lowering made of its bare-identifier patterns is
/// judged all the same (a misread pattern is a frequent reason for the rejection)
fn patclass_of_rejected(out: &mut Out, id: &str, src: &str) {
    if let Ok(f) = crate::astdump::parse_lower(std::path::Path::new("main.gom"), src) {
        let mism = crate::patrule::mismatches(&f);
        if !mism.is_empty() {
            writeln!(out.text, "{}\tSRC\t{}", id, crate::sexp::esc_line(src)).unwrap();
        }
        for m in &mism {
            let line = src[..(m.offset as usize).min(src.len())].matches('\n').count() + 1;
            writeln!(out.text, "{}\tPATCLASS\t{}\t{}\t{}\t{}\t{}", id, m.kind, m.name, m.offset, line, m.func).unwrap();
        }
    }
}

fn typecheck(path: &std::path::Path, src: &str) -> Result<(tast::File, GlobalTypeEnv), String> {
    let r = catch_unwind(AssertUnwindSafe(|| compiler::pipeline::pipeline::typecheck_with_packages(path, src)));
    match r {
        Ok(Ok((tast, genv, diags))) => {
            if diags.has_errors() {
                Err(format!("typer: {}", diags.iter().map(|d| d.message().to_string()).collect::<Vec<_>>().join(" | ")))
            } else {
                Ok((tast, genv))
            }
        }
        Ok(Err(e)) => Err(format!("{}: {}", util::stage_of(&e), e.diagnostics().iter().map(|d| d.message().to_string()).collect::<Vec<_>>().join(" | "))),
        Err(p) => Err(format!("panic: {}", util::panic_message(p))),
    }
}

// ---------------------------------------------------------------- G-small: pattern matrices

#[derive(Clone, Copy, PartialEq, Debug)]
enum CT {
    Bool,
    I8,
    Str,
    Unit,
    E2,
    E,
    OptB,
    OptE2,
    Tup,
    S,
    P,
    OptP,
    TupP,
}

const HEADER: &str = "struct S { a: bool, b: int8 }\nstruct P { x: int8, y: int8 }\nenum E2 { X, Y }\nenum E { A, B(bool), C(E2, bool) }\nenum Opt[T] { Non, Som(T) }\n";

fn ct_text(t: CT) -> &'static str {
    match t {
        CT::Bool => "bool",
        CT::I8 => "int8",
        CT::Str => "string",
        CT::Unit => "unit",
        CT::E2 => "E2",
        CT::E => "E",
        CT::OptB => "Opt[bool]",
        CT::OptE2 => "Opt[E2]",
        CT::Tup => "(bool, int8)",
        CT::S => "S",
        CT::P => "P",
        CT::OptP => "Opt[P]",
        CT::TupP => "(P, bool)",
    }
}

/// all patterns of type `t` with constructor nesting ≤ `d`; `$` stands for a fresh variable
fn pats(t: CT, d: usize) -> Vec<String> {
    // `$b` / `$i` / `$s` / `$o`: a fresh variable of type bool / int8 / string / anything else
    let var = match t {
        CT::Bool => "$b",
        CT::I8 => "$i",
        CT::Str => "$s",
        _ => "$o",
    };
    let mut v = vec!["_".to_string(), var.to_string()];
    let sub = |t: CT| -> Vec<String> { if d == 0 { vec![] } else { pats(t, d - 1) } };
    match t {
        CT::Bool => v.extend(["true", "false"].map(String::from)),
        CT::I8 => v.extend(["0i8", "1i8"].map(String::from)),
        CT::Str => v.extend(["\"a\"", "\"b\""].map(String::from)),
        CT::Unit => v.push("()".into()),
        CT::E2 => v.extend(["X", "Y"].map(String::from)),
        CT::E => {
            v.push("A".into());
            for p in sub(CT::Bool) {
                v.push(format!("B({})", p));
            }
            for p in sub(CT::E2) {
                for q in sub(CT::Bool) {
                    v.push(format!("C({}, {})", p, q));
                }
            }
        }
        CT::OptB => {
            v.push("Non".into());
            for p in sub(CT::Bool) {
                v.push(format!("Som({})", p));
            }
        }
        CT::OptE2 => {
            v.push("Non".into());
            for p in sub(CT::E2) {
                v.push(format!("Som({})", p));
            }
        }
        CT::Tup => {
            for p in sub(CT::Bool) {
                for q in sub(CT::I8) {
                    v.push(format!("({}, {})", p, q));
                }
            }
        }
        CT::S => {
            for p in sub(CT::Bool) {
                for q in sub(CT::I8) {
                    v.push(format!("S {{ a: {}, b: {} }}", p, q));
                    // the same pattern with the fields written in the other order
                    v.push(format!("S {{ b: {}, a: {} }}", q, p));
                }
            }
        }
        CT::P => {
            // two fields of the SAME type: written in declaration order and reversed
            for p in sub(CT::I8) {
                for q in sub(CT::I8) {
                    v.push(format!("P {{ x: {}, y: {} }}", p, q));
                    v.push(format!("P {{ y: {}, x: {} }}", q, p));
                }
            }
        }
        CT::OptP => {
            v.push("Non".into());
            for p in sub(CT::P) {
                v.push(format!("Som({})", p));
            }
        }
        CT::TupP => {
            for p in sub(CT::P) {
                for q in sub(CT::Bool) {
                    v.push(format!("({}, {})", p, q));
                }
            }
        }
    }
    v
}

fn fresh_vars(p: &str, k: &mut usize) -> String {
    let mut s = String::new();
    let mut it = p.chars();
    while let Some(c) = it.next() {
        if c == '$' {
            let tag = it.next().unwrap_or('o');
            write!(s, "v{}{}", tag, *k).unwrap();
            *k += 1;
        } else {
            s.push(c);
        }
    }
    s
}

/// printable variables (`vb3`, `vi4`, `vs5`) of a rendered pattern, with the conversion to string
fn printable_vars(p: &str) -> Vec<String> {
    let cs: Vec<char> = p.chars().collect();
    let mut out = Vec::new();
    let mut i = 0;
    while i < cs.len() {
        let boundary = i == 0 || !(cs[i - 1].is_alphanumeric() || cs[i - 1] == '_');
        if boundary && cs[i] == 'v' && i + 2 < cs.len() + 1 && i + 1 < cs.len() && "bis".contains(cs[i + 1]) {
            let mut j = i + 2;
            while j < cs.len() && cs[j].is_ascii_digit() {
                j += 1;
            }
            if j > i + 2 {
                let name: String = cs[i..j].iter().collect();
                out.push(match cs[i + 1] {
                    'b' => format!("bool_to_string({})", name),
                    'i' => format!("int8_to_string({})", name),
                    _ => name,
                });
                i = j;
                continue;
            }
        }
        i += 1;
    }
    out
}

fn values(t: CT) -> Vec<&'static str> {
    match t {
        CT::Bool => vec!["true", "false"],
        CT::I8 => vec!["0i8", "1i8", "2i8"],
        CT::Str => vec!["\"a\"", "\"b\"", "\"c\""],
        CT::Unit => vec!["()"],
        CT::E2 => vec!["X", "Y"],
        CT::E => vec!["A", "B(true)", "B(false)", "C(X, true)", "C(Y, false)", "C(X, false)", "C(Y, true)"],
        CT::OptB => vec!["Non", "Som(true)", "Som(false)"],
        CT::OptE2 => vec!["Non", "Som(X)", "Som(Y)"],
        CT::Tup => vec!["(true, 0i8)", "(false, 1i8)", "(true, 2i8)", "(false, 0i8)", "(true, 1i8)"],
        CT::S => vec!["S { a: true, b: 0i8 }", "S { a: false, b: 1i8 }", "S { a: true, b: 2i8 }", "S { a: false, b: 0i8 }", "S { a: true, b: 1i8 }"],
        CT::P => vec!["P { x: 0i8, y: 1i8 }", "P { x: 1i8, y: 0i8 }", "P { x: 0i8, y: 0i8 }", "P { x: 2i8, y: 1i8 }", "P { x: 1i8, y: 2i8 }"],
        CT::OptP => vec!["Non", "Som(P { x: 0i8, y: 1i8 })", "Som(P { x: 1i8, y: 0i8 })", "Som(P { x: 1i8, y: 1i8 })"],
        CT::TupP => vec!["(P { x: 0i8, y: 1i8 }, true)", "(P { x: 1i8, y: 0i8 }, false)", "(P { x: 0i8, y: 0i8 }, true)", "(P { x: 1i8, y: 0i8 }, true)"],
    }
}

/// a runnable function for the whole-pipeline stream: every arm prints its index and the
/// printable variables it bound; `total` appends a catch-all so that the run never stops early
fn render_runnable(name: &str, m: &Matrix, total: bool) -> String {
    let mut s = String::new();
    let params: Vec<String> = m.cols.iter().enumerate().map(|(i, t)| format!("s{}: {}", i, ct_text(*t))).collect();
    write!(s, "fn {}({}) -> unit {{ ", name, params.join(", ")).unwrap();
    let scrut = if m.cols.len() == 1 { "s0".to_string() } else { format!("({})", (0..m.cols.len()).map(|i| format!("s{}", i)).collect::<Vec<_>>().join(", ")) };
    write!(s, "match {} {{ ", scrut).unwrap();
    let mut k = 0;
    for (i, r) in m.rows.iter().enumerate() {
        let ps: Vec<String> = r.iter().map(|p| fresh_vars(p, &mut k)).collect();
        let pat = if ps.len() == 1 { ps[0].clone() } else { format!("({})", ps.join(", ")) };
        let mut msg = format!("\"{}.{}\"", name, i);
        for v in printable_vars(&pat) {
            msg = format!("{} + \" \" + {}", msg, v);
        }
        write!(s, "{} => string_println({}), ", pat, msg).unwrap();
    }
    if total {
        write!(s, "_ => string_println(\"{}.none\"), ", name).unwrap();
    }
    write!(s, "}} }}\n").unwrap();
    s
}

fn calls(name: &str, m: &Matrix, rng: &mut Rng) -> String {
    let mut s = String::new();
    let v0 = values(m.cols[0]);
    if m.cols.len() == 1 {
        for v in v0 {
            write!(s, "let _ = {}({}); ", name, v).unwrap();
        }
    } else {
        let v1 = values(m.cols[1]);
        let mut all: Vec<(usize, usize)> = (0..v0.len()).flat_map(|i| (0..v1.len()).map(move |j| (i, j))).collect();
        while all.len() > 12 {
            let k = rng.below(all.len());
            all.remove(k);
        }
        for (i, j) in all {
            write!(s, "let _ = {}({}, {}); ", name, v0[i], v1[j]).unwrap();
        }
    }
    s
}

/// one function per matrix; `rows[r][c]` are pattern texts
fn render_matrix(name: &str, cols: &[CT], rows: &[Vec<String>], as_let: bool) -> String {
    let mut s = String::new();
    let params: Vec<String> = cols.iter().enumerate().map(|(i, t)| format!("s{}: {}", i, ct_text(*t))).collect();
    write!(s, "fn {}({}) -> int32 {{ ", name, params.join(", ")).unwrap();
    let scrut = if cols.len() == 1 { "s0".to_string() } else { format!("({})", (0..cols.len()).map(|i| format!("s{}", i)).collect::<Vec<_>>().join(", ")) };
    let mut k = 0;
    let row_pat = |r: &Vec<String>, k: &mut usize| -> String {
        let ps: Vec<String> = r.iter().map(|p| fresh_vars(p, k)).collect();
        if ps.len() == 1 { ps[0].clone() } else { format!("({})", ps.join(", ")) }
    };
    if as_let {
        write!(s, "let {} = {}; 1 }}\n", row_pat(&rows[0], &mut k), scrut).unwrap();
    } else {
        write!(s, "match {} {{ ", scrut).unwrap();
        for (i, r) in rows.iter().enumerate() {
            write!(s, "{} => {}, ", row_pat(r, &mut k), i + 1).unwrap();
        }
        write!(s, "}} }}\n").unwrap();
    }
    s
}

struct Matrix {
    cols: Vec<CT>,
    rows: Vec<Vec<String>>,
    as_let: bool,
}

const COL_TYPES: [CT; 13] = [CT::Bool, CT::I8, CT::Str, CT::Unit, CT::E2, CT::OptB, CT::OptE2, CT::Tup, CT::S, CT::E, CT::P, CT::OptP, CT::TupP];

/// every matrix with ≤ `max_rows` rows over one column of type `t` (depth ≤ 2), or a sample of `budget`
fn one_col(t: CT, max_rows: usize, budget: usize, rng: &mut Rng, out: &mut Vec<Matrix>, stats: &mut BTreeMap<String, usize>) {
    let ps = pats(t, 2);
    let mut total = 0usize;
    for r in 1..=max_rows {
        total += ps.len().pow(r as u32);
    }
    let exhaustive = total <= budget;
    *stats.entry(format!("1col:{}:{}", ct_text(t), if exhaustive { "exhaustive" } else { "sampled" })).or_default() += total.min(budget);
    if exhaustive {
        for r in 1..=max_rows {
            let mut idx = vec![0usize; r];
            loop {
                out.push(Matrix { cols: vec![t], rows: idx.iter().map(|&i| vec![ps[i].clone()]).collect(), as_let: false });
                let mut k = 0;
                while k < r {
                    idx[k] += 1;
                    if idx[k] < ps.len() {
                        break;
                    }
                    idx[k] = 0;
                    k += 1;
                }
                if k == r {
                    break;
                }
            }
        }
    } else {
        for _ in 0..budget {
            let r = 1 + rng.below(max_rows);
            out.push(Matrix { cols: vec![t], rows: (0..r).map(|_| vec![rng.pick(&ps).clone()]).collect(), as_let: false });
        }
    }
}

fn gen_small(args: &util::Args, out: &mut Out, stats: &mut BTreeMap<String, usize>, pipe: &mut String) {
    let thorough = args.tier == "thorough";
    let mut rng = Rng::new(args.seed).fork(0x06);
    let mut ms: Vec<Matrix> = Vec::new();
    let budget1 = if thorough { 14000 } else { 1500 };
    for t in COL_TYPES {
        one_col(t, 3, budget1, &mut rng, &mut ms, stats);
    }
    // two columns (the scrutinee is a tuple expression, so it goes through `mtmp`)
    let n2 = if thorough { 250000 } else { 8000 };
    for _ in 0..n2 {
        let c0 = *rng.pick(&COL_TYPES);
        let c1 = *rng.pick(&COL_TYPES);
        // depth 2 for the small column types, 1 for the large ones, keeps literals frequent
        let p0 = pats(c0, if rng.chance(1, 2) { 2 } else { 1 });
        let p1 = pats(c1, if rng.chance(1, 2) { 2 } else { 1 });
        let r = 1 + rng.below(3);
        let rows = (0..r).map(|_| vec![rng.pick(&p0).clone(), rng.pick(&p1).clone()]).collect();
        ms.push(Matrix { cols: vec![c0, c1], rows, as_let: false });
    }
    *stats.entry("2col:sampled".into()).or_default() += n2;
    // destructuring lets
    let nl = if thorough { 6000 } else { 600 };
    for _ in 0..nl {
        let c0 = *rng.pick(&COL_TYPES);
        let p0 = pats(c0, 2);
        ms.push(Matrix { cols: vec![c0], rows: vec![vec![rng.pick(&p0).clone()]], as_let: true });
    }
    *stats.entry("let:sampled".into()).or_default() += nl;

    let dir = util::scratch_dir("c06s");
    let path = dir.join("main.gom");
    let batch = 40;
    for (bi, chunk) in ms.chunks(batch).enumerate() {
        let mut src = String::from(HEADER);
        for (k, m) in chunk.iter().enumerate() {
            src.push_str(&render_matrix(&format!("f{}", k), &m.cols, &m.rows, m.as_let));
        }
        src.push_str("fn main() -> unit { () }\n");
        let _ = std::fs::write(&path, &src);
        let id = format!("small:{}:{}", args.seed, bi);
        match typecheck(&path, &src) {
            Ok((tast, genv)) => emit_program(out, &id, &tast, &genv, &src, true),
            Err(e) => {
                writeln!(out.text, "{}\tREJECT\t{}\t{}", id, crate::sexp::esc_line(&e), crate::sexp::esc_line(&src)).unwrap();
                patclass_of_rejected(out, &id, &src);
            }
        }
    }
    let _ = std::fs::remove_dir_all(&dir);

    // whole-pipeline stream: the same matrices as runnable programs, every stage dumped for the
    // stage-wise oracle (Core behaviour must survive mono / lift / ANF / Go)
    let np = if thorough { 3000 } else { 400 };
    let dirp = util::scratch_dir("c06p");
    let cands: Vec<&Matrix> = ms.iter().filter(|m| !m.as_let).collect();
    let mut n_ok = 0usize;
    for pi in 0..np {
        // one program in four holds a single matrix without the added catch-all (it may stop at `missing`)
        let raw = pi % 4 == 3;
        let count = if raw { 1 } else { 12 };
        let mut src = String::from(HEADER);
        let mut body = String::new();
        for k in 0..count {
            let m = cands[rng.below(cands.len())];
            let name = format!("f{}", k);
            src.push_str(&render_runnable(&name, m, !raw));
            body.push_str(&calls(&name, m, &mut rng));
        }
        writeln!(src, "fn main() -> unit {{ {}() }}", body).unwrap();
        let id = format!("pipe:{}:{}{}", args.seed, pi, if raw { ":raw" } else { "" });
        match util::compile_text(&dirp, &src) {
            util::Outcome::Ok(c) => {
                n_ok += 1;
                writeln!(pipe, "{}\tEXPECT\tnone\t", id).unwrap();
                writeln!(pipe, "{}\tSRC\t{}", id, crate::sexp::esc_line(&src)).unwrap();
                crate::c01::dump_case(&id, &c, pipe);
                emit_program(out, &id, &c.tast, &c.genv, &src, true);
            }
            util::Outcome::Err(stage, msgs) => {
                writeln!(pipe, "{}\tREJECT\t{}\t{}\t{}", id, stage, crate::sexp::esc_line(&msgs.join(" | ")), crate::sexp::esc_line(&src)).unwrap()
            }
            util::Outcome::Panic(m) => writeln!(pipe, "{}\tPANIC\t{}\t{}", id, crate::sexp::esc_line(&m), crate::sexp::esc_line(&src)).unwrap(),
        }
    }
    *stats.entry("pipeline-programs".into()).or_default() += n_ok;
    let _ = std::fs::remove_dir_all(&dirp);
}

// ---------------------------------------------------------------- constructor names in pattern position under same-spelled locals

/// harness/src/patpos.rs: every program's sites under the first-match oracle (source side: the rule
/// of patrule.rs), and the whole program through the real pipeline with the output it prints by
/// construction
fn gen_patpos(out: &mut Out, stats: &mut BTreeMap<String, usize>, pipe: &mut String) {
    let dir = util::scratch_dir("c06n");
    for case in crate::patpos::catalogue() {
        *stats.entry("patpos-programs".into()).or_default() += 1;
        match util::compile_text(&dir, &case.src) {
            util::Outcome::Ok(c) => {
                writeln!(pipe, "{}\tEXPECT\tout\t{}", case.id, crate::sexp::esc_line(&case.expected)).unwrap();
                writeln!(pipe, "{}\tSRC\t{}", case.id, crate::sexp::esc_line(&case.src)).unwrap();
                crate::c01::dump_case(&case.id, &c, pipe);
                emit_program(out, &case.id, &c.tast, &c.genv, &case.src, true);
            }
            util::Outcome::Err(stage, msgs) => {
                writeln!(pipe, "{}\tREJECT\t{}\t{}\t{}", case.id, stage, crate::sexp::esc_line(&msgs.join(" | ")), crate::sexp::esc_line(&case.src)).unwrap();
                // the lowering's verdict on the patterns is still judged
                patclass_of_rejected(out, &case.id, &case.src);
            }
            util::Outcome::Panic(m) => writeln!(pipe, "{}\tPANIC\t{}\t{}", case.id, crate::sexp::esc_line(&m), crate::sexp::esc_line(&case.src)).unwrap(),
        }
    }
    let _ = std::fs::remove_dir_all(&dir);
}

// ---------------------------------------------------------------- main

pub fn main(args: &util::Args) {
    util::quiet_panics();
    let mut out = Out { text: String::new(), sites: 0, kinds: BTreeMap::new() };
    let mut stats: BTreeMap<String, usize> = BTreeMap::new();
    let only = args.rest.first().map(|s| s.as_str()).unwrap_or("all");

    if only == "all" || only == "corpus" {
        for d in util::corpus_pipeline_dirs() {
            let path = d.join("main.gom");
            let Ok(src) = std::fs::read_to_string(&path) else { continue };
            let id = format!("repo:{}", d.file_name().unwrap().to_string_lossy());
            match typecheck(&path, &src) {
                Ok((tast, genv)) => emit_program(&mut out, &id, &tast, &genv, &src, false),
                Err(e) => {
                    writeln!(out.text, "{}\tREJECT\t{}\t", id, crate::sexp::esc_line(&e)).unwrap();
                    patclass_of_rejected(&mut out, &id, &src);
                }
            }
        }
        // minimised past failures
        // (+ the coverage witnesses `corpus/C01/cov-*.gom`: shapes no generator produced, tools/coverage_audit.py)
        for sub in ["C06", "C01"] {
            let Ok(rd) = std::fs::read_dir(util::verif_root().join("corpus").join(sub)) else { continue };
            let mut files: Vec<_> = rd.filter_map(|e| e.ok().map(|e| e.path())).filter(|p| p.extension().is_some_and(|x| x == "gom")).filter(|p| sub != "C01" || p.file_name().is_some_and(|n| n.to_string_lossy().starts_with("cov-"))).collect();
            files.sort();
            let dir = util::scratch_dir("c06c");
            for f in files {
                let Ok(src) = std::fs::read_to_string(&f) else { continue };
                let id = format!("corpus:{}/{}", sub, f.file_name().unwrap().to_string_lossy());
                let path = dir.join("main.gom");
                let _ = std::fs::write(&path, &src);
                match typecheck(&path, &src) {
                    Ok((tast, genv)) => emit_program(&mut out, &id, &tast, &genv, &src, true),
                    Err(e) => {
                        writeln!(out.text, "{}\tREJECT\t{}\t{}", id, crate::sexp::esc_line(&e), crate::sexp::esc_line(&src)).unwrap();
                        patclass_of_rejected(&mut out, &id, &src);
                    }
                }
            }
            let _ = std::fs::remove_dir_all(&dir);
        }
    }
    if only == "file" {
        // replay: one program given on the command line
        if let Some(f) = args.rest.get(1) {
            if let Ok(src) = std::fs::read_to_string(f) {
                let dir = util::scratch_dir("c06f");
                let path = dir.join("main.gom");
                let _ = std::fs::write(&path, &src);
                match typecheck(&path, &src) {
                    Ok((tast, genv)) => emit_program(&mut out, "replay", &tast, &genv, &src, true),
                    Err(e) => {
                        writeln!(out.text, "replay\tREJECT\t{}\t{}", crate::sexp::esc_line(&e), crate::sexp::esc_line(&src)).unwrap();
                        patclass_of_rejected(&mut out, "replay", &src);
                    }
                }
                let _ = std::fs::remove_dir_all(&dir);
            }
        }
    }
    let mut pipe = String::new();
    if only == "all" || only == "small" {
        gen_small(args, &mut out, &mut stats, &mut pipe);
    }
    if only == "all" || only == "patpos" {
        gen_patpos(&mut out, &mut stats, &mut pipe);
    }
    // always written: a replay (`file`) must not read the whole-pipeline rows of an earlier run
    let _ = std::fs::create_dir_all(&args.out);
    std::fs::write(args.out.join("c06pipe.cases.tsv"), &pipe).unwrap();
    if only == "all" || only == "prog" {
        let total = args.n.unwrap_or(if args.tier == "thorough" { 3000 } else { 300 });
        let dir = util::scratch_dir("c06p");
        let path = dir.join("main.gom");
        let mut feats_total: BTreeMap<&'static str, usize> = Default::default();
        for i in 0..total {
            let mut root = Rng::new(args.seed);
            let mut rng = root.fork(0x0600 + i as u64);
            let cfg = crate::progen::Cfg {
                closure_flows: false,
                traits: i % 3 != 0,
                generics: true,
                go_stmt: false,
                max_depth: 1 + i % 3,
                effects: true,
                wildcard_arrays: false,
                nested_patterns: true,
                src_forms: true,
                cov_shapes: i % 5 == 2,
                ..Default::default()
            };
            let (src, feats) = crate::progen::gen_program(&mut rng, cfg);
            let id = format!("gen:{}:{}", args.seed, i);
            let _ = std::fs::write(&path, &src);
            match typecheck(&path, &src) {
                Ok((tast, genv)) => {
                    for (k, v) in feats {
                        *feats_total.entry(k).or_default() += v;
                    }
                    emit_program(&mut out, &id, &tast, &genv, &src, true)
                }
                Err(e) => {
                    writeln!(out.text, "{}\tREJECT\t{}\t{}", id, crate::sexp::esc_line(&e), crate::sexp::esc_line(&src)).unwrap();
                    patclass_of_rejected(&mut out, &id, &src);
                }
            }
        }
        writeln!(out.text, "#FEATS\t{}", feats_total.iter().map(|(k, v)| format!("{}={}", k, v)).collect::<Vec<_>>().join(" ")).unwrap();
        let _ = std::fs::remove_dir_all(&dir);
    }
    writeln!(out.text, "#KINDS\t{}", out.kinds.iter().map(|(k, v)| format!("{}={}", k, v)).collect::<Vec<_>>().join(" ")).unwrap();
    writeln!(out.text, "#SMALL\t{}", stats.iter().map(|(k, v)| format!("{}={}", k, v)).collect::<Vec<_>>().join(" ")).unwrap();
    let _ = std::fs::create_dir_all(&args.out);
    std::fs::write(args.out.join("c06.cases.tsv"), out.text).unwrap();
    eprintln!("c06: {} sites", out.sites);
}
