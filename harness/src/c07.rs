//! C07 — generics: the REAL `mono::mono` run on the REAL Core of corpus / generated programs.
//!
//! The passes are run one by one (the same calls `pipeline::compile` makes, in the same order, with
//! one shared `Gensym`), each under `catch_unwind`, so that the Core and Mono of a program are
//! available even when a later pass panics.  Per program the harness prints
//!   `CORE`  input of mono: Core file + the enum/struct definitions of `genv`
//!   `MONO`  output of mono: Mono file + `monoenv.mono_enums/mono_structs/mono_funcs`
//!   `STAGE` core|mono|lift|anf programs for `Sem` and for the closedness oracle
//! Modes: `gv c07` (all streams), `gv c07 file <f.gom>` (one file, human readable),
//! `gv c07 one <f.gom>` (one file, used by the watchdog: prints `DONE` when mono returned).
//! `gv c07 inst [tag]` / `gv c07 req [tag]` list the instantiation-pair / request-route catalogues (one line per
//! program: outcome and what the model-free oracles found; the program text of `tag`).
use crate::c01;
use crate::dump;
use crate::sexp::{S, a, esc_line, l, tagged};
use crate::util;
use compiler::env::{EnumDef, Gensym, GlobalTypeEnv, StructDef};
use compiler::mono::GlobalMonoEnv;
use compiler::pipeline::pipeline;
use compiler::tast::{TastIdent, Ty};
use indexmap::IndexMap;
use std::fmt::Write as _;
use std::panic::{AssertUnwindSafe, catch_unwind};
use std::path::Path;

pub struct Staged {
    pub genv: Option<GlobalTypeEnv>,
    pub core: Option<compiler::core::File>,
    pub mono: Option<(compiler::mono::MonoFile, GlobalMonoEnv)>,
    pub lift: Option<(compiler::lift::LiftFile, compiler::lift::GlobalLiftEnv)>,
    pub anf: Option<(compiler::anf::File, compiler::anf::GlobalAnfEnv)>,
    pub go_ok: bool,
    /// the Go AST dump (`godump::gfile`) when the backend returned
    pub go: Option<String>,
    /// `None` = every pass returned; otherwise (kind, stage, message), kind ∈ reject | panic
    pub stop: Option<(&'static str, &'static str, String)>,
}

fn guarded<T>(f: impl FnOnce() -> T) -> Result<T, String> {
    catch_unwind(AssertUnwindSafe(f)).map_err(util::panic_message)
}

/// the passes of `pipeline::compile`, one by one; `upto_mono` stops after monomorphisation
pub fn run_stages(path: &Path, src: &str, upto_mono: bool) -> Staged {
    let mut st = Staged { genv: None, core: None, mono: None, lift: None, anf: None, go_ok: false, go: None, stop: None };
    if !upto_mono {
        // the real entry point first (multi-package programs are linked there); the pass-by-pass run
        // below is only needed to keep the earlier stages when a later pass panics
        match guarded(|| pipeline::compile(path, src)) {
            Ok(Ok(c)) => {
                st.genv = Some(c.genv.clone());
                st.core = Some(c.core.clone());
                st.mono = Some((c.mono.clone(), c.monoenv.clone()));
                st.lift = Some((c.lambda.clone(), c.liftenv.clone()));
                st.anf = Some((c.anf.clone(), c.anfenv.clone()));
                st.go_ok = true;
                st.go = Some(crate::godump::gfile(&c.go).to_text());
                return st;
            }
            Ok(Err(e)) => {
                st.stop = Some(("reject", util::stage_of(&e), e.diagnostics().iter().map(|d| d.message().to_string()).collect::<Vec<_>>().join(" | ")));
                return st;
            }
            Err(_) => {}
        }
    }
    let tc = guarded(|| pipeline::typecheck_with_packages(path, src));
    let (tast, genv) = match tc {
        Err(m) => {
            st.stop = Some(("panic", "typer", m));
            return st;
        }
        Ok(Err(e)) => {
            st.stop = Some(("reject", util::stage_of(&e), e.diagnostics().iter().map(|d| d.message().to_string()).collect::<Vec<_>>().join(" | ")));
            return st;
        }
        Ok(Ok((tast, genv, diags))) => {
            if diags.has_errors() {
                st.stop = Some(("reject", "typer", diags.iter().map(|d| d.message().to_string()).collect::<Vec<_>>().join(" | ")));
                return st;
            }
            (tast, genv)
        }
    };
    st.genv = Some(genv.clone());
    let gensym = Gensym::new();
    let mut diags = diagnostics::Diagnostics::new();
    let core = match guarded(|| compiler::compile_match::compile_file(&genv, &gensym, &mut diags, &tast)) {
        Ok(c) => c,
        Err(m) => {
            st.stop = Some(("panic", "core", m));
            return st;
        }
    };
    if diags.has_errors() {
        st.stop = Some(("reject", "compile", diags.iter().map(|d| d.message().to_string()).collect::<Vec<_>>().join(" | ")));
        return st;
    }
    st.core = Some(core.clone());
    let (mono, monoenv) = match guarded(|| compiler::mono::mono(genv.clone(), core.clone())) {
        Ok(r) => r,
        Err(m) => {
            st.stop = Some(("panic", "mono", m));
            return st;
        }
    };
    st.mono = Some((mono.clone(), monoenv.clone()));
    if upto_mono {
        return st;
    }
    let (lifted, liftenv) = match guarded(|| compiler::lift::lambda_lift(monoenv.clone(), &gensym, mono.clone())) {
        Ok(r) => r,
        Err(m) => {
            st.stop = Some(("panic", "lift", m));
            return st;
        }
    };
    st.lift = Some((lifted.clone(), liftenv.clone()));
    let (anf, anfenv) = match guarded(|| compiler::anf::anf_file(liftenv.clone(), &gensym, lifted.clone())) {
        Ok(r) => r,
        Err(m) => {
            st.stop = Some(("panic", "anf", m));
            return st;
        }
    };
    st.anf = Some((anf.clone(), anfenv.clone()));
    match guarded(|| compiler::go::compile::go_file(anfenv.clone(), &gensym, anf.clone())) {
        Ok((g, _)) => {
            st.go_ok = true;
            st.go = Some(crate::godump::gfile(&g).to_text());
        }
        Err(m) => st.stop = Some(("panic", "go", m)),
    }
    st
}

pub fn enum_def(d: &EnumDef) -> S {
    let mut v = vec![a(&d.name.0), l(d.generics.iter().map(|g| a(&g.0)).collect())];
    for (vn, fs) in d.variants.iter() {
        let mut w = vec![a(&vn.0)];
        w.extend(fs.iter().map(dump::ty));
        v.push(l(w));
    }
    tagged("enum", v)
}

pub fn struct_def(d: &StructDef) -> S {
    let mut v = vec![a(&d.name.0), l(d.generics.iter().map(|g| a(&g.0)).collect())];
    for (fnm, ft) in d.fields.iter() {
        v.push(l(vec![a(&fnm.0), dump::ty(ft)]));
    }
    tagged("struct", v)
}

pub fn enums_s(m: &IndexMap<TastIdent, EnumDef>) -> S {
    tagged("enums", m.values().map(enum_def).collect())
}
pub fn structs_s(m: &IndexMap<TastIdent, StructDef>) -> S {
    tagged("structs", m.values().map(struct_def).collect())
}

pub fn core_case(genv: &GlobalTypeEnv, core: &compiler::core::File) -> S {
    tagged("case", vec![dump::core_file(core), enums_s(genv.enums()), structs_s(genv.structs())])
}

pub fn mono_case(mono: &compiler::mono::MonoFile, env: &GlobalMonoEnv) -> S {
    tagged(
        "mono",
        vec![
            dump::mono_file(mono),
            enums_s(&env.mono_enums),
            structs_s(&env.mono_structs),
            tagged("funcs", env.mono_funcs.iter().map(|(k, t)| l(vec![a(k), dump::ty(t)])).collect()),
        ],
    )
}

/// all definitions visible after mono / lift (for `wt`): genv + mono instances (+ closure structs)
pub fn all_defs_mono(env: &GlobalMonoEnv) -> (S, S) {
    let mut es: IndexMap<TastIdent, EnumDef> = env.genv.enums().clone();
    es.extend(env.mono_enums.clone());
    let mut ss: IndexMap<TastIdent, StructDef> = env.genv.structs().clone();
    ss.extend(env.mono_structs.clone());
    (enums_s(&es), structs_s(&ss))
}

/// names of all `EVar` nodes of a Mono expression
fn mono_vars(e: &compiler::mono::MonoExpr, out: &mut Vec<(String, bool)>) {
    use compiler::mono::MonoExpr as E;
    match e {
        E::EVar { name, .. } => out.push((name.clone(), false)),
        E::EPrim { .. } => {}
        E::EConstr { args, .. } => args.iter().for_each(|a| mono_vars(a, out)),
        E::ETuple { items, .. } | E::EArray { items, .. } => items.iter().for_each(|a| mono_vars(a, out)),
        E::ELet { value, body, .. } => {
            mono_vars(value, out);
            mono_vars(body, out)
        }
        E::EMatch { expr, arms, default, .. } => {
            mono_vars(expr, out);
            for arm in arms {
                mono_vars(&arm.lhs, out);
                mono_vars(&arm.body, out);
            }
            if let Some(d) = default {
                mono_vars(d, out)
            }
        }
        E::EIf { cond, then_branch, else_branch, .. } => {
            mono_vars(cond, out);
            mono_vars(then_branch, out);
            mono_vars(else_branch, out)
        }
        E::EWhile { cond, body, .. } => {
            mono_vars(cond, out);
            mono_vars(body, out)
        }
        E::EGo { expr, .. } | E::EConstrGet { expr, .. } | E::EUnary { expr, .. } | E::EToDyn { expr, .. } => mono_vars(expr, out),
        E::EBinary { lhs, rhs, .. } => {
            mono_vars(lhs, out);
            mono_vars(rhs, out)
        }
        E::ECall { func, args, .. } => {
            if let E::EVar { name, .. } = &**func {
                out.push((name.clone(), true));
            } else {
                mono_vars(func, out);
            }
            args.iter().for_each(|a| mono_vars(a, out))
        }
        E::EDynCall { receiver, args, .. } => {
            mono_vars(receiver, out);
            args.iter().for_each(|a| mono_vars(a, out))
        }
        E::EClosure { body, .. } => mono_vars(body, out),
        E::EProj { tuple, .. } => mono_vars(tuple, out),
    }
}

/// calls in the Mono program whose callee annotation is not the signature of the Mono function they name:
/// after specialisation every function is monomorphic, so the two must be the same type; a mismatch means
/// that call sites at different types share one instance (or an instance was named without binding a parameter)
fn mono_calls(e: &compiler::mono::MonoExpr, out: &mut Vec<(String, Ty)>) {
    use compiler::mono::MonoExpr as E;
    match e {
        E::EVar { .. } | E::EPrim { .. } => {}
        E::EConstr { args, .. } => args.iter().for_each(|a| mono_calls(a, out)),
        E::ETuple { items, .. } | E::EArray { items, .. } => items.iter().for_each(|a| mono_calls(a, out)),
        E::ELet { value, body, .. } => {
            mono_calls(value, out);
            mono_calls(body, out)
        }
        E::EMatch { expr, arms, default, .. } => {
            mono_calls(expr, out);
            for arm in arms {
                mono_calls(&arm.body, out);
            }
            if let Some(d) = default {
                mono_calls(d, out)
            }
        }
        E::EIf { cond, then_branch, else_branch, .. } => {
            mono_calls(cond, out);
            mono_calls(then_branch, out);
            mono_calls(else_branch, out)
        }
        E::EWhile { cond, body, .. } => {
            mono_calls(cond, out);
            mono_calls(body, out)
        }
        E::EGo { expr, .. } | E::EConstrGet { expr, .. } | E::EUnary { expr, .. } | E::EToDyn { expr, .. } => mono_calls(expr, out),
        E::EBinary { lhs, rhs, .. } => {
            mono_calls(lhs, out);
            mono_calls(rhs, out)
        }
        E::ECall { func, args, .. } => {
            if let E::EVar { name, ty } = &**func {
                out.push((name.clone(), ty.clone()));
            } else {
                mono_calls(func, out);
            }
            args.iter().for_each(|a| mono_calls(a, out))
        }
        E::EDynCall { receiver, args, .. } => {
            mono_calls(receiver, out);
            args.iter().for_each(|a| mono_calls(a, out))
        }
        E::EClosure { body, .. } => mono_calls(body, out),
        E::EProj { tuple, .. } => mono_calls(tuple, out),
    }
}

fn tparams_of(t: &Ty, out: &mut std::collections::BTreeSet<String>) {
    match t {
        Ty::TParam { name } => {
            out.insert(name.clone());
        }
        Ty::TTuple { typs } => typs.iter().for_each(|t| tparams_of(t, out)),
        Ty::TApp { ty, args } => {
            tparams_of(ty, out);
            args.iter().for_each(|t| tparams_of(t, out))
        }
        Ty::TArray { elem, .. } | Ty::TVec { elem } | Ty::TRef { elem } => tparams_of(elem, out),
        Ty::TFunc { params, ret_ty } => {
            params.iter().for_each(|t| tparams_of(t, out));
            tparams_of(ret_ty, out)
        }
        _ => {}
    }
}

/// type parameters that occur in the signature of some Core function (a parameter that occurs in no
/// signature is a phantom one: the known finding; one that does must have been bound by mono)
pub fn sig_tparams(core: &compiler::core::File) -> std::collections::BTreeSet<String> {
    let mut ps = std::collections::BTreeSet::new();
    for f in core.toplevels.iter() {
        ps.extend(f.generics.iter().cloned());
        for (_, t) in f.params.iter() {
            tparams_of(t, &mut ps);
        }
        tparams_of(&f.ret_ty, &mut ps);
    }
    ps
}

pub fn call_signature_mismatches(mono: &compiler::mono::MonoFile) -> Vec<(String, String)> {
    let sigs: std::collections::BTreeMap<&str, Ty> = mono
        .toplevels
        .iter()
        .map(|f| (f.name.as_str(), Ty::TFunc { params: f.params.iter().map(|(_, t)| t.clone()).collect(), ret_ty: Box::new(f.ret_ty.clone()) }))
        .collect();
    let mut bad = Vec::new();
    for f in mono.toplevels.iter() {
        let mut cs = Vec::new();
        mono_calls(&f.body, &mut cs);
        for (callee, ann) in cs {
            if let Some(sig) = sigs.get(callee.as_str()) {
                if *sig != ann {
                    bad.push((f.name.clone(), callee));
                }
            }
        }
    }
    bad.sort();
    bad.dedup();
    bad
}

/// the direct sub-expressions of a Mono expression (arm patterns included: they are constructor applications
/// over variables that carry the field types the arm binds)
fn mono_children(e: &compiler::mono::MonoExpr) -> Vec<&compiler::mono::MonoExpr> {
    use compiler::mono::MonoExpr as E;
    match e {
        E::EVar { .. } | E::EPrim { .. } => vec![],
        E::EConstr { args, .. } => args.iter().collect(),
        E::ETuple { items, .. } | E::EArray { items, .. } => items.iter().collect(),
        E::ELet { value, body, .. } => vec![&**value, &**body],
        E::EMatch { expr, arms, default, .. } => {
            let mut v = vec![&**expr];
            for arm in arms {
                v.push(&arm.lhs);
                v.push(&arm.body);
            }
            if let Some(d) = default {
                v.push(&**d)
            }
            v
        }
        E::EIf { cond, then_branch, else_branch, .. } => vec![&**cond, &**then_branch, &**else_branch],
        E::EWhile { cond, body, .. } => vec![&**cond, &**body],
        E::EGo { expr, .. } | E::EConstrGet { expr, .. } | E::EUnary { expr, .. } | E::EToDyn { expr, .. } => vec![&**expr],
        E::EBinary { lhs, rhs, .. } => vec![&**lhs, &**rhs],
        E::ECall { func, args, .. } => std::iter::once(&**func).chain(args.iter()).collect(),
        E::EDynCall { receiver, args, .. } => std::iter::once(&**receiver).chain(args.iter()).collect(),
        E::EClosure { body, .. } => vec![&**body],
        E::EProj { tuple, .. } => vec![&**tuple],
    }
}

/// One disagreement between a use of a monomorphic data type and the ONE definition registered under its name.
pub struct InstConflict {
    pub func: String,
    pub type_name: String,
    /// constr-arg | constr-arity | field-read | no-such-field | no-definition | constr-type
    pub site: &'static str,
    pub defined: String,
    pub used: String,
}

/// C07 "distinct instantiations never share a name or a body", read off the implementation's own output: after
/// monomorphisation every data type is monomorphic, so every construction `S { .. }` / `E::V(..)`, every arm
/// pattern and every field read in the Mono program must carry exactly the field types of the definition that
/// `monoenv` (instances first, then the monomorphic declarations of `genv`) holds under that type name.  Two
/// instantiations that were given one name leave ONE definition behind; the code specialised for the other
/// instantiation then builds / reads the type at field types the definition does not have.  No model involved.
pub fn type_instance_conflicts(mono: &compiler::mono::MonoFile, env: &GlobalMonoEnv) -> Vec<InstConflict> {
    use compiler::common::Constructor as C;
    use compiler::mono::MonoExpr as E;
    // field types of constructor `c` according to the registered definition (None = no definition / no such variant)
    let fields_of = |c: &C| -> Option<Vec<Ty>> {
        match c {
            C::Struct(s) => env.mono_structs.get(&s.type_name).or_else(|| env.genv.structs().get(&s.type_name)).map(|d| d.fields.iter().map(|(_, t)| t.clone()).collect()),
            C::Enum(en) => env
                .mono_enums
                .get(&en.type_name)
                .or_else(|| env.genv.enums().get(&en.type_name))
                .and_then(|d| d.variants.get(en.index).filter(|(vn, _)| *vn == en.variant).map(|(_, ts)| ts.clone())),
        }
    };
    let show = |ts: &[Ty]| ts.iter().map(compiler::names::ty_compact).collect::<Vec<_>>().join(",");
    let mut out = Vec::new();
    for f in mono.toplevels.iter() {
        let mut stack = vec![&f.body];
        while let Some(e) = stack.pop() {
            stack.extend(mono_children(e));
            let mut push = |type_name: &TastIdent, site: &'static str, defined: String, used: String| {
                out.push(InstConflict { func: f.name.clone(), type_name: type_name.0.clone(), site, defined, used })
            };
            match e {
                E::EConstr { constructor, args, ty } => {
                    let used: Vec<Ty> = args.iter().map(|a| a.get_ty()).collect();
                    let tn = constructor.type_name();
                    let named = match (constructor, ty) {
                        (C::Struct(_), Ty::TStruct { name }) | (C::Enum(_), Ty::TEnum { name }) => *name == tn.0,
                        _ => false,
                    };
                    if !named {
                        push(tn, "constr-type", tn.0.clone(), compiler::names::ty_compact(ty));
                    }
                    match fields_of(constructor) {
                        None => push(tn, "no-definition", String::new(), show(&used)),
                        Some(def) if def.len() != used.len() => push(tn, "constr-arity", show(&def), show(&used)),
                        Some(def) if def != used => push(tn, "constr-arg", show(&def), show(&used)),
                        Some(_) => {}
                    }
                }
                E::EConstrGet { constructor, field_index, ty, .. } => {
                    let tn = constructor.type_name();
                    match fields_of(constructor) {
                        None => push(tn, "no-definition", String::new(), compiler::names::ty_compact(ty)),
                        Some(def) => match def.get(*field_index) {
                            None => push(tn, "no-such-field", show(&def), format!("#{}", field_index)),
                            Some(t) if t != ty => push(tn, "field-read", compiler::names::ty_compact(t), compiler::names::ty_compact(ty)),
                            Some(_) => {}
                        },
                    }
                }
                _ => {}
            }
        }
    }
    out
}

/// coverage of `type_instance_conflicts`: (constructor / field-read sites whose type is an instance registered by
/// mono, distinct instances so used)
pub fn count_instance_uses(mono: &compiler::mono::MonoFile, env: &GlobalMonoEnv) -> (usize, usize) {
    use compiler::mono::MonoExpr as E;
    let mut sites = 0;
    let mut used = std::collections::BTreeSet::new();
    for f in mono.toplevels.iter() {
        let mut stack = vec![&f.body];
        while let Some(e) = stack.pop() {
            stack.extend(mono_children(e));
            if let E::EConstr { constructor, .. } | E::EConstrGet { constructor, .. } = e {
                let tn = constructor.type_name();
                if env.mono_structs.contains_key(tn) || env.mono_enums.contains_key(tn) {
                    sites += 1;
                    used.insert(tn.0.clone());
                }
            }
        }
    }
    (sites, used.len())
}

/// references from the Mono program to functions of the Core program that have no Mono instance
/// (a generic function that was needed but not specialised), with the function that refers to them
pub fn unspecialised_refs(core: &compiler::core::File, mono: &compiler::mono::MonoFile) -> Vec<(String, String, bool)> {
    let core_names: std::collections::BTreeSet<&str> = core.toplevels.iter().map(|f| f.name.as_str()).collect();
    let mono_names: std::collections::BTreeSet<&str> = mono.toplevels.iter().map(|f| f.name.as_str()).collect();
    let mut bad = Vec::new();
    for f in mono.toplevels.iter() {
        let mut vs = Vec::new();
        mono_vars(&f.body, &mut vs);
        for (v, callee) in vs {
            if core_names.contains(v.as_str()) && !mono_names.contains(v.as_str()) {
                bad.push((f.name.clone(), v, callee));
            }
        }
    }
    bad.sort();
    bad.dedup();
    bad
}

/// the Core function a Mono function is an instance of: the longest Core name `o` with `name == o` or
/// `name` starting with `o__` (the spelling of `spec_name_for`)
pub fn instance_origin<'a>(core_names: &[&'a str], name: &str) -> Option<&'a str> {
    core_names
        .iter()
        .filter(|o| name == **o || (name.starts_with(**o) && name[o.len()..].starts_with("__")))
        .max_by_key(|o| o.len())
        .copied()
}

/// "every instance is generated exactly once": groups of two or more Mono functions that are the SAME instance
/// of one Core function — same origin, same parameter list, same result type and the same body once the
/// function's own name is blanked (whatever the copies are called: equal names or not).  Two different
/// instantiations differ in at least one type of the signature or the body, so they are never grouped.
pub fn repeated_instances(core: &compiler::core::File, mono: &compiler::mono::MonoFile) -> Vec<(String, Vec<String>)> {
    let core_names: Vec<&str> = core.toplevels.iter().map(|f| f.name.as_str()).collect();
    let mut groups: IndexMap<(String, String), Vec<String>> = IndexMap::new();
    for f in mono.toplevels.iter() {
        let Some(o) = instance_origin(&core_names, &f.name) else { continue };
        let text = format!(
            "{}|{}|{}",
            f.params.iter().map(|(p, t)| format!("{}:{}", p, dump::ty(t).to_text())).collect::<Vec<_>>().join(","),
            dump::ty(&f.ret_ty).to_text(),
            dump::mono_expr(&f.body).to_text()
        )
        .replace(f.name.as_str(), "@self");
        groups.entry((o.to_string(), text)).or_default().push(f.name.clone());
    }
    groups.into_iter().filter(|(_, v)| v.len() > 1).map(|((o, _), v)| (o, v)).collect()
}

pub fn emit(id: &str, src: Option<&str>, st: &Staged, out: &mut String) {
    if let Some(s) = src {
        writeln!(out, "{}\tSRC\t{}", id, esc_line(s)).unwrap();
    }
    if let (Some(genv), Some(core)) = (&st.genv, &st.core) {
        let impls = c01::impls_table(genv);
        writeln!(out, "{}\tCORE\t{}", id, core_case(genv, core).to_text()).unwrap();
        writeln!(out, "{}\tSTAGE\tcore\t{}", id, c01::prog(dump::core_file(core), &impls).to_text()).unwrap();
        // inputs of the type-soundness / static-dispatch oracle (`gomlmodel tsound`)
        writeln!(out, "{}\tGENV\t{}", id, crate::sexp::tagged("genv", vec![enums_s(genv.enums()), structs_s(genv.structs())]).to_text()).unwrap();
        writeln!(out, "{}\tSIG\t{}\t{}", id, crate::c03::builtins_s(genv).to_text(), crate::c03::traits_s(genv).to_text()).unwrap();
        if let Some((m, env)) = &st.mono {
            writeln!(out, "{}\tMONO\t{}", id, mono_case(m, env).to_text()).unwrap();
            writeln!(out, "{}\tSTAGE\tmono\t{}", id, c01::prog(dump::mono_file(m), &impls).to_text()).unwrap();
            writeln!(out, "{}\tNAMES\t{}", id, m.toplevels.iter().map(|f| esc_line(&f.name)).collect::<Vec<_>>().join("\t")).unwrap();
            writeln!(out, "{}\tSIGTPARAMS\t{}", id, sig_tparams(core).into_iter().collect::<Vec<_>>().join(" ")).unwrap();
            let cm = call_signature_mismatches(m);
            if !cm.is_empty() {
                writeln!(out, "{}\tCALLSIG\t{}", id, cm.iter().map(|(f, g)| format!("{}>{}", esc_line(f), esc_line(g))).collect::<Vec<_>>().join("\t")).unwrap();
            }
            let tc = type_instance_conflicts(m, env);
            if !tc.is_empty() {
                let shown: Vec<String> = tc.iter().map(|c| format!("{}\u{1f}{}\u{1f}{}\u{1f}{}\u{1f}{}", esc_line(&c.func), esc_line(&c.type_name), c.site, esc_line(&c.defined), esc_line(&c.used))).collect();
                writeln!(out, "{}\tTYINST\t{}", id, shown.join("\t")).unwrap();
            }
            let rep = repeated_instances(core, m);
            if !rep.is_empty() {
                writeln!(out, "{}\tDUPINST\t{}", id, rep.iter().map(|(o, v)| format!("{}>{}", esc_line(o), v.iter().map(|n| esc_line(n)).collect::<Vec<_>>().join(">"))).collect::<Vec<_>>().join("\t")).unwrap();
            }
            let n_inst_uses = count_instance_uses(m, env);
            writeln!(out, "{}\tTYINSTN\t{}\t{}", id, n_inst_uses.0, n_inst_uses.1).unwrap();
            let un = unspecialised_refs(core, m);
            if !un.is_empty() {
                writeln!(out, "{}\tUNSPEC\t{}", id, un.iter().map(|(f, v, c)| format!("{}>{}>{}", esc_line(f), esc_line(v), if *c { "call" } else { "value" })).collect::<Vec<_>>().join("\t")).unwrap();
            }
        }
        if let Some((f, _)) = &st.lift {
            writeln!(out, "{}\tSTAGE\tlift\t{}", id, c01::prog(dump::lift_file(f), &impls).to_text()).unwrap();
        }
        if let Some((f, _)) = &st.anf {
            writeln!(out, "{}\tSTAGE\tanf\t{}", id, c01::prog(dump::anf_file(f), &impls).to_text()).unwrap();
        }
    }
    match &st.stop {
        None => writeln!(out, "{}\tDONE", id).unwrap(),
        Some((kind, stage, msg)) => writeln!(out, "{}\t{}\t{}\t{}", id, kind.to_uppercase(), stage, esc_line(msg)).unwrap(),
    }
}

/// run `gv c07 one <file>` in a child process with a time and memory limit; the watchdog of the
/// termination part of the property.  Returns "done" | "hang" | "other:<text>"
pub fn watchdog(file: &Path, secs: u64) -> String {
    let exe = std::env::current_exe().unwrap();
    let cmd = format!(
        "ulimit -v 4000000; exec timeout -s KILL {} {} c07 one {}",
        secs,
        exe.to_string_lossy(),
        file.to_string_lossy()
    );
    match std::process::Command::new("bash").arg("-c").arg(&cmd).output() {
        Ok(o) => {
            let so = String::from_utf8_lossy(&o.stdout);
            if so.contains("MONO-RETURNED") {
                "done".into()
            } else if o.status.code() == Some(137) || o.status.code().is_none() {
                "hang".into()
            } else {
                let se = String::from_utf8_lossy(&o.stderr);
                if se.contains("memory allocation") || se.contains("out of memory") {
                    "hang".into() // unbounded growth stopped by the memory limit
                } else {
                    format!("other:{}:{}", o.status.code().unwrap_or(-1), so.lines().last().unwrap_or(""))
                }
            }
        }
        Err(e) => format!("other:spawn:{}", e),
    }
}

fn show_file(path: &str) {
    let src = std::fs::read_to_string(path).expect("read");
    let dir = util::scratch_dir("c07f");
    let p = dir.join("main.gom");
    std::fs::write(&p, &src).unwrap();
    let st = run_stages(&p, &src, false);
    if let Some(c) = &st.core {
        println!("--- core");
        for f in c.toplevels.iter() {
            println!("fn {} generics={:?} params={:?} ret={:?}", f.name, f.generics, f.params, f.ret_ty);
        }
    }
    if let Some((m, env)) = &st.mono {
        println!("--- mono");
        for f in m.toplevels.iter() {
            println!("fn {} params={:?} ret={:?}", f.name, f.params, f.ret_ty);
        }
        println!("mono_enums: {:?}", env.mono_enums.keys().map(|k| k.0.clone()).collect::<Vec<_>>());
        println!("mono_structs: {:?}", env.mono_structs.keys().map(|k| k.0.clone()).collect::<Vec<_>>());
    }
    if std::env::args().any(|x| x == "--dump") {
        let mut out = String::new();
        emit("file", None, &st, &mut out);
        println!("{}", out);
    }
    match &st.stop {
        None => println!("DONE"),
        Some((k, s, m)) => println!("{} {} {}", k.to_uppercase(), s, m),
    }
    let _ = std::fs::remove_dir_all(&dir);
}

pub fn main(args: &util::Args) {
    util::quiet_panics();
    if args.rest.first().map(|s| s.as_str()) == Some("file") {
        show_file(&args.rest[1]);
        return;
    }
    if args.rest.first().map(|s| s.as_str()) == Some("traits") {
        debug_traits(&args.rest[1]);
        return;
    }
    if args.rest.first().map(|s| s.as_str()) == Some("inst") {
        // the instantiation-pair catalogue, one line per program: outcome and the conflicts found
        let dir = util::scratch_dir("c07i");
        for (tag, src) in inst_pair_programs(args.seed).into_iter().chain(inst_struct_programs(args.seed)) {
            let st = run_in(&dir, &src);
            let outcome = match &st.stop {
                None => "ok".to_string(),
                Some((k, s, m)) => format!("{} {} {}", k, s, m),
            };
            let conflicts = st.mono.as_ref().map(|(m, env)| type_instance_conflicts(m, env)).unwrap_or_default();
            println!("{}\t{}\t{}", tag, outcome, conflicts.iter().map(|c| format!("{}:{}:{} def[{}] use[{}]", c.func, c.type_name, c.site, c.defined, c.used)).collect::<Vec<_>>().join(" ; "));
            if args.rest.get(1).map(|s| s.as_str()) == Some(tag.as_str()) {
                println!("{}", src);
            }
        }
        let _ = std::fs::remove_dir_all(&dir);
        return;
    }
    if args.rest.first().map(|s| s.as_str()) == Some("req") {
        // the request-route catalogue, one line per program: outcome, instances of `q`, repeated instances
        let dir = util::scratch_dir("c07q");
        for (tag, src) in req_programs(args.seed, args.tier == "thorough") {
            let st = run_in(&dir, &src);
            let outcome = match &st.stop {
                None => "ok".to_string(),
                Some((k, s, m)) => format!("{} {} {}", k, s, m),
            };
            let (qn, rep) = match (&st.core, &st.mono) {
                (Some(c), Some((m, _))) => (req_q_instances(c, m).map(|x| x.1).unwrap_or(0), repeated_instances(c, m)),
                _ => (0, vec![]),
            };
            println!("{}\t{}\tq-instances={}\t{:?}", tag, outcome, qn, rep);
            if args.rest.get(1).map(|s| s.as_str()) == Some(tag.as_str()) {
                println!("{}", src);
            }
        }
        let _ = std::fs::remove_dir_all(&dir);
        return;
    }
    if args.rest.first().map(|s| s.as_str()) == Some("one") {
        let path = std::path::PathBuf::from(&args.rest[1]);
        let src = std::fs::read_to_string(&path).expect("read");
        let st = run_stages(&path, &src, true);
        match (&st.mono, &st.stop) {
            (Some(_), _) => println!("MONO-RETURNED"),
            (None, Some((k, s, m))) => println!("{} {} {}", k.to_uppercase(), s, m),
            _ => println!("?"),
        }
        return;
    }
    let _ = std::fs::create_dir_all(&args.out);
    let mut sink = Sink::new(&args.out.join("c07.cases.tsv"));
    // ---- stream 1: the repository's corpus
    for d in util::corpus_pipeline_dirs() {
        let path = d.join("main.gom");
        let Ok(src) = std::fs::read_to_string(&path) else { continue };
        let id = format!("repo:{}", d.file_name().unwrap().to_string_lossy());
        sink.begin(&id);
        let st = run_stages(&path, &src, false);
        let mut out = String::new();
        emit(&id, None, &st, &mut out);
        sink.put(&out);
    }
    // ---- stream 2: minimised witnesses kept under corpus/C07 (and C03)
    let dir = util::scratch_dir("c07");
    // (+ the coverage witnesses `corpus/C01/cov-*.gom`: shapes no generator produced, tools/coverage_audit.py)
    for sub in ["C07", "C03", "C01"] {
        let Ok(rd) = std::fs::read_dir(util::verif_root().join("corpus").join(sub)) else { continue };
        let mut files: Vec<_> = rd.filter_map(|e| e.ok().map(|e| e.path())).filter(|p| p.extension().is_some_and(|x| x == "gom" || x == "hang" || x == "witness")).filter(|p| sub != "C01" || p.file_name().is_some_and(|n| n.to_string_lossy().starts_with("cov-"))).collect();
        files.sort();
        for f in files {
            let Ok(src) = std::fs::read_to_string(&f) else { continue };
            let name = f.file_name().unwrap().to_string_lossy().to_string();
            let id = format!("corpus:{}/{}", sub, name);
            let mut out = String::new();
            if name.ends_with(".hang") {
                // programs known not to terminate are only ever run in a child process
                let p = dir.join("main.gom");
                std::fs::write(&p, &src).unwrap();
                writeln!(out, "{}\tSRC\t{}", id, esc_line(&src)).unwrap();
                writeln!(out, "{}\tWATCHDOG\t{}", id, watchdog(&p, 4)).unwrap();
                if let Some(line) = core_only(&p, &src) {
                    writeln!(out, "{}\tCORE\t{}", id, line).unwrap();
                }
            } else {
                sink.begin(&id);
                let st = run_in(&dir, &src);
                emit(&id, Some(&src), &st, &mut out);
            }
            sink.put(&out);
        }
    }
    // ---- negatives: overlapping / first-class method forms the typer does not accept (must be rejected
    // by the typer, never panic, never reach mono)
    for (name, src) in NEGATIVES {
        let id = format!("neg:{}", name);
        sink.begin(&id);
        let st = run_in(&dir, src);
        let mut out = String::new();
        writeln!(out, "{}\tSRC\t{}", id, esc_line(src)).unwrap();
        match &st.stop {
            None => writeln!(out, "{}\tNEG\taccepted\t\t", id).unwrap(),
            Some((k, stage, m)) => writeln!(out, "{}\tNEG\t{}\t{}\t{}", id, k, stage, esc_line(m)).unwrap(),
        }
        sink.put(&out);
    }
    // ---- stream 3: generated programs (G-prog, rich generics)
    let total = args.n.unwrap_or(if args.tier == "thorough" { 2500 } else { 300 });
    let mut feats_total: std::collections::BTreeMap<&'static str, usize> = Default::default();
    for i in 0..total {
        let mut root = crate::rng::Rng::new(args.seed);
        let mut rng = root.fork(i as u64);
        let cfg = gen_cfg(i);
        let (src, feats) = crate::progen::gen_program(&mut rng, cfg);
        let id = format!("gen:{}:{}{}", args.seed, i, stream_tag(&cfg));
        sink.begin(&id);
        let st = run_in(&dir, &src);
        if st.mono.is_some() {
            for (k, v) in feats {
                *feats_total.entry(k).or_default() += v;
            }
        }
        let mut out = String::new();
        emit(&id, Some(&src), &st, &mut out);
        sink.put(&out);
    }
    // ---- stream 4: template families around the features with known findings
    let nfam = args.n.map(|n| n / 4).unwrap_or(if args.tier == "thorough" { 200 } else { 40 });
    for i in 0..nfam {
        let mut root = crate::rng::Rng::new(args.seed ^ 0x5eed);
        let mut rng = root.fork(i as u64);
        for (tag, src) in [("fnval", fnval_program(&mut rng)), ("phantom", phantom_program(&mut rng))] {
            let id = format!("fam:{}:{}:{}", tag, args.seed, i);
            sink.begin(&id);
            let st = run_in(&dir, &src);
            let mut out = String::new();
            emit(&id, Some(&src), &st, &mut out);
            sink.put(&out);
        }
    }
    // ---- stream 5: termination — polymorphic recursion (child process, watchdog) and controls
    let npoly = if args.tier == "thorough" { 24 } else { 8 };
    for i in 0..npoly {
        let mut root = crate::rng::Rng::new(args.seed ^ 0x9017);
        let mut rng = root.fork(i as u64);
        let (kind, src) = recursion_program(&mut rng, i);
        let id = format!("rec:{}:{}:{}", kind, args.seed, i);
        let p = dir.join("main.gom");
        std::fs::write(&p, &src).unwrap();
        let mut out = String::new();
        writeln!(out, "{}\tSRC\t{}", id, esc_line(&src)).unwrap();
        writeln!(out, "{}\tWATCHDOG\t{}", id, watchdog(&p, 4)).unwrap();
        if let Some(line) = core_only(&p, &src) {
            writeln!(out, "{}\tCORE\t{}", id, line).unwrap();
        }
        sink.put(&out);
    }
    // ---- stream 6: instantiation pairs — one generic type at two argument types that differ at exactly ONE
    // position of the argument's type tree (every container x every position; the leaf pair rotates with the seed)
    for (tag, src) in inst_pair_programs(args.seed) {
        let id = format!("inst:{}", tag);
        sink.begin(&id);
        let st = run_in(&dir, &src);
        let mut out = String::new();
        emit(&id, Some(&src), &st, &mut out);
        sink.put(&out);
    }
    // ---- stream 6b: structural instantiation groups — the same containers and positions, the leaves of one group all in
    // ONE program: regrouped tuples (every bracketing of 3 and 4 components), a type constructor application next to user
    // structs / enums NAMED like the real encoders' spellings of that application
    for (tag, src) in inst_struct_programs(args.seed) {
        let id = format!("inst:{}", tag);
        sink.begin(&id);
        let st = run_in(&dir, &src);
        let mut out = String::new();
        emit(&id, Some(&src), &st, &mut out);
        sink.put(&out);
    }
    for g in SGROUPS {
        let (leaves, derived) = sgroup_leaves(g);
        sink.put(&format!("#SGROUP\t{}\t{}\t{}\n", g, leaves.iter().map(|l| l.src.clone()).collect::<Vec<_>>().join(" | "), derived.join(" ")));
    }
    // ---- stream 7: request routes x signature shapes — ONE instantiation of a generic function / method asked for
    // through two (or all) of the ways a program can ask for it, in both orders; exactly two instances must result
    for (tag, src) in req_programs(args.seed, args.tier == "thorough") {
        let id = format!("req:{}", tag);
        sink.begin(&id);
        let st = run_in(&dir, &src);
        let mut out = String::new();
        emit(&id, Some(&src), &st, &mut out);
        if let (Some(core), Some((m, _))) = (&st.core, &st.mono) {
            match req_q_instances(core, m) {
                Some((q, got)) => writeln!(out, "{}\tEXPECTINST\t{}\t2\t{}", id, esc_line(&q), got).unwrap(),
                None => writeln!(out, "{}\tEXPECTINST\t?\t2\t0", id).unwrap(),
            }
        }
        sink.put(&out);
    }
    sink.put(&format!("#FEATS\t{}\n", feats_total.iter().map(|(k, v)| format!("{}={}", k, v)).collect::<Vec<_>>().join(" ")));
    sink.done();
    let _ = std::fs::remove_dir_all(&dir);
}

/// the Core of a program whose monomorphisation must not be attempted in this process
fn core_only(path: &Path, src: &str) -> Option<String> {
    let (tast, genv, diags) = guarded(|| pipeline::typecheck_with_packages(path, src)).ok()?.ok()?;
    if diags.has_errors() {
        return None;
    }
    let gensym = Gensym::new();
    let mut d = diagnostics::Diagnostics::new();
    let core = guarded(|| compiler::compile_match::compile_file(&genv, &gensym, &mut d, &tast)).ok()?;
    Some(core_case(&genv, &core).to_text())
}

fn run_in(dir: &Path, src: &str) -> Staged {
    let _ = std::fs::create_dir_all(dir);
    let p = dir.join("main.gom");
    let _ = std::fs::write(&p, src);
    run_stages(&p, src, false)
}

/// output file written program by program, with an in-process watchdog: a program of the main
/// streams that keeps the compiler busy for more than 30 s is reported as `HANG` and the run ends
struct Sink {
    file: std::sync::Arc<std::sync::Mutex<std::fs::File>>,
    cur: std::sync::Arc<std::sync::Mutex<Option<(String, std::time::Instant)>>>,
}

impl Sink {
    fn new(path: &Path) -> Self {
        let file = std::sync::Arc::new(std::sync::Mutex::new(std::fs::File::create(path).unwrap()));
        let cur: std::sync::Arc<std::sync::Mutex<Option<(String, std::time::Instant)>>> = Default::default();
        let (f2, c2) = (file.clone(), cur.clone());
        std::thread::spawn(move || {
            loop {
                std::thread::sleep(std::time::Duration::from_millis(500));
                let g = c2.lock().unwrap();
                if let Some((id, t0)) = &*g {
                    if t0.elapsed().as_secs() >= 30 {
                        use std::io::Write;
                        let mut f = f2.lock().unwrap();
                        let _ = writeln!(f, "{}\tHANG\tin-process\t30s", id);
                        let _ = f.flush();
                        std::process::exit(0);
                    }
                }
            }
        });
        Sink { file, cur }
    }
    fn begin(&mut self, id: &str) {
        *self.cur.lock().unwrap() = Some((id.to_string(), std::time::Instant::now()));
    }
    fn put(&mut self, text: &str) {
        use std::io::Write;
        *self.cur.lock().unwrap() = None;
        let mut f = self.file.lock().unwrap();
        let _ = f.write_all(text.as_bytes());
    }
    fn done(&mut self) {
        use std::io::Write;
        let _ = self.file.lock().unwrap().flush();
    }
}

/// (type text, an expression of that type, code printing variable `r` of that type)
const TYS: &[(&str, &str, &str)] = &[
    ("int32", "7", "string_println(int32_to_string(r))"),
    ("string", "\"s\"", "string_println(r)"),
    ("bool", "true", "string_println(bool_to_string(r))"),
    ("(int32, bool)", "(1, false)", "string_println(int32_to_string(r.0))"),
    ("[int32; 2]", "[4, 5]", "string_println(int32_to_string(array_get(r, 1)))"),
    ("Opt[int32]", "Opt::Som(3)", "string_println(int32_to_string(opt_or(r, 0)))"),
    ("Ref[int32]", "ref(9)", "string_println(int32_to_string(ref_get(r)))"),
    ("Bx[string]", "Bx { v: \"b\" }", "string_println(r.v)"),
    ("Opt[Opt[bool]]", "Opt::Som(Opt::Som(true))", "string_println(bool_to_string(opt_or(opt_or(r, Opt::Non), false)))"),
    ("Lst[int32]", "Lst::Cons(1, Lst::Nil)", "string_println(int32_to_string(llen(r)))"),
    ("unit", "()", "string_println(unit_to_string(r))"),
];

const PRELUDE: &str = r#"enum Opt[T] { Non, Som(T) }
enum Lst[T] { Nil, Cons(T, Lst[T]) }
struct Bx[T] { v: T }
fn idg[T](x: T) -> T { x }
fn pick[T](c: bool, a: T, b: T) -> T { if c { a } else { b } }
fn opt_or[T](o: Opt[T], d: T) -> T { match o { Opt::Som(x) => x, Opt::Non => d } }
fn llen[T](l: Lst[T]) -> int32 { match l { Lst::Nil => 0, Lst::Cons(_, t) => 1 + llen(t) } }
fn twice[T](f: (T) -> T, x: T) -> T { f(f(x)) }
fn konst[A, B](a: A, b: B) -> A { a }
"#;

/// a generic function used as a first-class value (known finding)
fn fnval_program(rng: &mut crate::rng::Rng) -> String {
    let (ty, e, show) = *rng.pick(TYS);
    let body = match rng.below(4) {
        0 => format!("let f: ({ty}) -> {ty} = idg; let r: {ty} = f({e}); {show}"),
        1 => format!("let r: {ty} = twice(idg, {e}); {show}"),
        2 => format!("let fs: [({ty}) -> {ty}; 2] = [idg, idg]; let f = array_get(fs, 1); let r: {ty} = f({e}); {show}"),
        _ => format!("let f: (bool, {ty}, {ty}) -> {ty} = pick; let r: {ty} = f(true, {e}, {e}); {show}"),
    };
    format!("{}fn main() -> unit {{ {} }}\n", PRELUDE, body)
}

/// a type parameter that occurs in the body of a function but not in its signature
fn phantom_program(rng: &mut crate::rng::Rng) -> String {
    let (ty, e, show) = *rng.pick(TYS);
    let f = match rng.below(4) {
        0 => "fn ph[P](n: int32) -> int32 { let v: Vec[P] = vec_new(); vec_len(v) + n }",
        1 => "fn ph[P](n: int32) -> int32 { let o: Opt[P] = Opt::Non; match o { Opt::Non => n, Opt::Som(_) => 0 } }",
        2 => "fn ph[P](n: int32) -> int32 { let l: Lst[P] = Lst::Nil; llen(l) + n }",
        _ => "fn ph[P](n: int32) -> int32 { let p: (Opt[P], int32) = (Opt::Non, n); p.1 }",
    };
    format!("{}{}\nfn main() -> unit {{ let r: {} = {}; let _ = {}; string_println(int32_to_string(ph(2))) }}\n", PRELUDE, f, ty, e, show)
}

/// even i: polymorphic recursion (every call instantiates the function at a larger type);
/// odd i: ordinary recursion of a generic function at its own type (control: must terminate)
fn recursion_program(rng: &mut crate::rng::Rng, i: usize) -> (&'static str, String) {
    let (ty, e, _) = *rng.pick(TYS);
    if i % 2 == 1 {
        let f = match rng.below(3) {
            0 => "fn down[T](x: T, n: int32) -> int32 { if n == 0 { 0 } else { 1 + down(x, n - 1) } }",
            1 => "fn down[T](x: T, n: int32) -> int32 { if n == 0 { 0 } else { 1 + down(idg(x), n - 1) } }",
            _ => "fn down[T](x: T, n: int32) -> int32 { if n == 0 { 0 } else { up(x, n - 1) } }\nfn up[T](x: T, n: int32) -> int32 { 1 + down(pick(true, x, x), n) }",
        };
        return ("control", format!("{}{}\nfn main() -> unit {{ let r: {} = {}; string_println(int32_to_string(down(r, 3))) }}\n", PRELUDE, f, ty, e));
    }
    let f = match rng.below(6) {
        0 => "fn grow[T](x: T, n: int32) -> int32 { if n == 0 { 0 } else { 1 + grow(Opt::Som(x), n - 1) } }",
        1 => "fn grow[T](x: T, n: int32) -> int32 { if n == 0 { 0 } else { 1 + grow((x, n), n - 1) } }",
        2 => "fn grow[T](x: T, n: int32) -> int32 { if n == 0 { 0 } else { 1 + grow(Bx { v: x }, n - 1) } }",
        3 => "fn grow[T](x: T, n: int32) -> int32 { if n == 0 { 0 } else { 1 + grow([x, x], n - 1) } }",
        4 => "fn grow[T](x: T, n: int32) -> int32 { if n == 0 { 0 } else { 1 + grow(ref(x), n - 1) } }",
        _ => "fn grow[T](x: T, n: int32) -> int32 { if n == 0 { 0 } else { hop(x, n - 1) } }\nfn hop[T](x: T, n: int32) -> int32 { 1 + grow(Lst::Cons(x, Lst::Nil), n) }",
    };
    ("polyrec", format!("{}{}\nfn main() -> unit {{ let r: {} = {}; string_println(int32_to_string(grow(r, 3))) }}\n", PRELUDE, f, ty, e))
}

/// generic containers `G[X]`: (tag, type over `{X}`, value from variable `{x}`, the `{x}` read back from variable `{h}`)
const INST_CONTAINERS: &[(&str, &str, &str, &str)] = &[
    ("Bx", "Bx[{X}]", "Bx { v: {x} }", "unbx({h})"),
    ("Opt", "Opt[{X}]", "Opt::Som({x})", "opt_or({h}, {x})"),
    ("Lst", "Lst[{X}]", "Lst::Cons({x}, Lst::Nil)", "lhead({h}, {x})"),
    ("Pr1", "Pr[{X}, int32]", "Pr { a: {x}, b: 7 }", "pfst({h})"),
    ("Pr2", "Pr[int32, {X}]", "Pr { a: 7, b: {x} }", "psnd({h})"),
];

/// positions of the leaf `{T}` inside the container's argument: (tag, type, value from the leaf literal `{V}`,
/// the leaf read back from variable `{E}`).  `leaf` = the argument itself; `app-*` = inside a nested generic
/// application (struct, enum, recursive enum, either parameter of a two-parameter struct, two applications deep);
/// the rest = inside a tuple / array / Vec / Ref / function type, bare or below a generic application.
const INST_POSITIONS: &[(&str, &str, &str, &str)] = &[
    ("leaf", "{T}", "{V}", "{E}"),
    ("app-struct", "Bx[{T}]", "Bx { v: {V} }", "unbx({E})"),
    ("app-enum", "Opt[{T}]", "Opt::Som({V})", "opt_or({E}, {V})"),
    ("app-rec-enum", "Lst[{T}]", "Lst::Cons({V}, Lst::Nil)", "lhead({E}, {V})"),
    ("app-param1", "Pr[{T}, int32]", "Pr { a: {V}, b: 3 }", "pfst({E})"),
    ("app-param2", "Pr[int32, {T}]", "Pr { a: 3, b: {V} }", "psnd({E})"),
    ("app-app", "Bx[Opt[{T}]]", "Bx { v: Opt::Som({V}) }", "opt_or(unbx({E}), {V})"),
    ("tuple", "({T}, int32)", "({V}, 3)", "fst({E})"),
    ("tuple-app", "(Bx[{T}], int32)", "(Bx { v: {V} }, 3)", "unbx(fst({E}))"),
    ("array", "[{T}; 2]", "[{V}, {V}]", "array_get({E}, 1)"),
    ("array-app", "[Bx[{T}]; 2]", "[Bx { v: {V} }, Bx { v: {V} }]", "unbx(array_get({E}, 1))"),
    ("vec", "Vec[{T}]", "vec_push(vec_new(), {V})", "vec_get({E}, 0)"),
    ("vec-app", "Vec[Bx[{T}]]", "vec_push(vec_new(), Bx { v: {V} })", "unbx(vec_get({E}, 0))"),
    ("ref", "Ref[{T}]", "ref({V})", "ref_get({E})"),
    ("ref-app", "Ref[Bx[{T}]]", "ref(Bx { v: {V} })", "unbx(ref_get({E}))"),
    ("fn-param-app", "(Bx[{T}]) -> {T}", "|b: Bx[{T}]| unbx(b)", "{E}(Bx { v: {V} })"),
    ("fn-result-app", "(int32) -> Bx[{T}]", "|n: int32| Bx { v: {V} }", "unbx({E}(0))"),
];

/// leaf types: (type, a literal, the literal's string)
const INST_LEAVES: &[(&str, &str, &str)] = &[
    ("int32", "41", "int32_to_string({})"),
    ("string", "\"s\"", "{}"),
    ("bool", "true", "bool_to_string({})"),
    ("int64", "5i64", "int64_to_string({})"),
    ("Bx[int32]", "Bx { v: 9 }", "int32_to_string(unbx({}))"),
];

/// every container x every position, at two leaf types (the pair rotates with the seed and the case number):
/// `G[P(t1)]`, `G[P(t2)]` and `G[P(t1)]` once more are built, passed through generic functions, taken apart and printed
pub fn inst_pair_programs(seed: u64) -> Vec<(String, String)> {
    const LIB: &str = "struct Pr[A, B] { a: A, b: B }\n\
        fn unbx[T](b: Bx[T]) -> T { b.v }\n\
        fn lhead[T](l: Lst[T], d: T) -> T { match l { Lst::Cons(x, _) => x, Lst::Nil => d } }\n\
        fn pfst[A, B](p: Pr[A, B]) -> A { p.a }\n\
        fn psnd[A, B](p: Pr[A, B]) -> B { p.b }\n\
        fn fst[A, B](p: (A, B)) -> A { p.0 }\n";
    let pairs: [(usize, usize); 5] = [(0, 1), (2, 3), (1, 2), (0, 3), (4, 1)];
    let mut out = Vec::new();
    let mut n = 0usize;
    for (gt, gty, gval, gget) in INST_CONTAINERS {
        for (pt, pty, pval, pget) in INST_POSITIONS {
            let (i1, i2) = pairs[(seed as usize + n) % pairs.len()];
            n += 1;
            let mut body = String::new();
            let mut shows = Vec::new();
            for (k, li) in [(1, i1), (2, i2), (3, i1)] {
                let (lt, lv, lshow) = INST_LEAVES[li];
                let xt = pty.replace("{T}", lt);
                let gt_full = gty.replace("{X}", &xt);
                let (x, g, h, y) = (format!("x{k}"), format!("g{k}"), format!("h{k}"), format!("y{k}"));
                writeln!(body, "  let {x}: {xt} = {};", pval.replace("{T}", lt).replace("{V}", lv)).unwrap();
                writeln!(body, "  let {g}: {gt_full} = {};", gval.replace("{x}", &x)).unwrap();
                let through = if k == 3 { format!("pick(true, {g}, g1)") } else { format!("idg({g})") };
                writeln!(body, "  let {h}: {gt_full} = {through};").unwrap();
                writeln!(body, "  let {y}: {xt} = {};", gget.replace("{h}", &h).replace("{x}", &x)).unwrap();
                shows.push(format!("string_println({})", lshow.replace("{}", &pget.replace("{T}", lt).replace("{V}", lv).replace("{E}", &y))));
            }
            let src = format!("{}{}fn main() -> unit {{\n{}  let _ = {};\n  let _ = {};\n  {}\n}}\n", PRELUDE, LIB, body, shows[0], shows[1], shows[2]);
            out.push((format!("{}:{}:{}-{}", gt, pt, INST_LEAVES[i1].0, INST_LEAVES[i2].0), src));
        }
    }
    out
}

// ---------------------------------------------------------------- structural instantiation groups (`inst:S:`)

/// one leaf of a structural group: a type, an expression of that type, the user declarations it needs
#[derive(Clone)]
pub struct SLeaf {
    pub src: String,
    pub val: String,
    pub decls: Vec<String>,
}

/// every way of bracketing `n` components into a tuple type whose nested tuples have at least two components
/// (`(a,b,c)`, `((a,b),c)`, `(a,(b,c))` for 3; 11 for 4): (type text, value text); the k-th component is the
/// int32 literal k.
fn bracketings(lo: usize, n: usize) -> Vec<(String, String)> {
    if n == 1 {
        return vec![("int32".to_string(), format!("{}", lo + 1))];
    }
    // sequences of blocks covering lo..lo+n; `first`: the sequence must have at least two blocks
    fn seqs(lo: usize, n: usize, first: bool) -> Vec<Vec<(String, String)>> {
        if n == 0 {
            return vec![vec![]];
        }
        let mut out = Vec::new();
        for k in 1..=n {
            if first && k == n {
                continue;
            }
            for head in bracketings(lo, k) {
                for mut rest in seqs(lo + k, n - k, false) {
                    let mut v = vec![head.clone()];
                    v.append(&mut rest);
                    out.push(v);
                }
            }
        }
        out
    }
    seqs(lo, n, true)
        .into_iter()
        .map(|blocks| {
            let t = blocks.iter().map(|b| b.0.clone()).collect::<Vec<_>>().join(", ");
            let v = blocks.iter().map(|b| b.1.clone()).collect::<Vec<_>>().join(", ");
            (format!("({})", t), format!("({})", v))
        })
        .collect()
}

/// declarations of the fixed user types of the structural groups
fn sdecl(name: &str) -> String {
    match name {
        "A" => "struct A { f: int32 }\n".to_string(),
        "P" => "struct P[T] { p: T }\n".to_string(),
        "O" => "enum O[T] { OS(T), ON }\n".to_string(),
        "Q" => "struct Q[X, Y] { x: X, y: Y }\n".to_string(),
        _ => String::new(),
    }
}

pub const SGROUPS: &[&str] = &["tuples", "apps/struct", "apps/enum", "builtins/struct", "builtins/enum", "fn-tuple/struct", "fn-tuple/enum"];

/// the leaves of one structural group.  `tuples`: every bracketing of 3 and of 4 components.  The others: type
/// constructor applications over the atoms `A` (a struct) and `int32`, next to one user-declared struct / enum
/// for every spelling the REAL encoders of the compiler (`encode_ty`, `go_type_name_for`, `ty_compact`,
/// `go_ident ∘ ty_compact`) give that application, read at run time — whatever spelling instance names are
/// built from, a user type called like its output for an application is next to that application.
pub fn sgroup_leaves(group: &str) -> (Vec<SLeaf>, Vec<String>) {
    use compiler::tast::Ty as T;
    if group == "tuples" {
        let mut v = Vec::new();
        for n in [3usize, 4] {
            for (t, e) in bracketings(0, n) {
                v.push(SLeaf { src: t, val: e, decls: vec![] });
            }
        }
        return (v, vec![]);
    }
    let (fam, kind) = group.split_once('/').unwrap();
    let st = |n: &str| T::TStruct { name: n.to_string() };
    // atoms: (text, tast type, value, declarations)
    let atoms: [(&str, T, &str, Vec<&str>); 2] = [("A", st("A"), "A { f: 1 }", vec!["A"]), ("int32", T::TInt32, "2", vec![])];
    let mut forms: Vec<(String, T, String, Vec<&str>)> = Vec::new();
    for (at, aty, av, ad) in atoms.iter() {
        let with = |extra: &[&'static str]| -> Vec<&str> { ad.iter().copied().chain(extra.iter().copied()).collect() };
        let b = |t: &T| Box::new(t.clone());
        match fam {
            "apps" => {
                forms.push((format!("P[{at}]"), T::TApp { ty: b(&st("P")), args: vec![aty.clone()] }, format!("P {{ p: {av} }}"), with(&["P"])));
                forms.push((format!("O[{at}]"), T::TApp { ty: b(&T::TEnum { name: "O".into() }), args: vec![aty.clone()] }, format!("O::OS({av})"), with(&["O"])));
                forms.push((format!("Q[{at}, int32]"), T::TApp { ty: b(&st("Q")), args: vec![aty.clone(), T::TInt32] }, format!("Q {{ x: {av}, y: 3 }}"), with(&["Q"])));
            }
            "builtins" => {
                forms.push((format!("Vec[{at}]"), T::TVec { elem: b(aty) }, format!("vec_push(vec_new(), {av})"), with(&[])));
                forms.push((format!("Ref[{at}]"), T::TRef { elem: b(aty) }, format!("ref({av})"), with(&[])));
                forms.push((format!("[{at}; 2]"), T::TArray { len: 2, elem: b(aty) }, format!("[{av}, {av}]"), with(&[])));
            }
            _ => {
                forms.push((format!("({at}) -> {at}"), T::TFunc { params: vec![aty.clone()], ret_ty: b(aty) }, format!("|q: {at}| q"), with(&[])));
                forms.push((format!("({at}, int32)"), T::TTuple { typs: vec![aty.clone(), T::TInt32] }, format!("({av}, 3)"), with(&[])));
            }
        }
    }
    let taken: std::collections::BTreeSet<&str> = ["Opt", "Lst", "Bx", "Pr", "idg", "pick", "opt_or", "llen", "twice", "konst", "unbx", "lhead", "pfst", "psnd", "fst", "main", "A", "P", "O", "Q", "Vec", "Ref", "Som", "Non", "Nil", "Cons", "OS", "ON"]
        .into_iter()
        .chain(crate::c19univ::PRIM_WORDS.iter().copied())
        .collect();
    let mut leaves = Vec::new();
    let mut derived: Vec<String> = Vec::new();
    for (src, ty, val, decls) in forms {
        leaves.push(SLeaf { src, val, decls: decls.iter().map(|d| sdecl(d)).collect() });
        for s in crate::c19univ::real_spellings(&ty) {
            if crate::c19univ::is_ident(&s) && !taken.contains(s.as_str()) && !derived.contains(&s) {
                derived.push(s);
            }
        }
    }
    for (j, n) in derived.iter().enumerate() {
        let (decl, val) = if kind == "enum" { (format!("enum {n} {{ U{j}, W{j}(int32) }}\n"), format!("{n}::U{j}")) } else { (format!("struct {n} {{ f: int32 }}\n"), format!("{n} {{ f: {j} }}")) };
        leaves.push(SLeaf { src: n.clone(), val, decls: vec![decl] });
    }
    (leaves, derived)
}

/// every container x every position of `inst:`, with the leaves of ONE structural group (the group rotates with the
/// seed and the case number): `G[P(l)]` for every leaf `l` of the group in one program, built, passed through a generic
/// function, taken apart again; the first one requested once more at the end
pub fn inst_struct_programs(seed: u64) -> Vec<(String, String)> {
    const LIB: &str = "struct Pr[A, B] { a: A, b: B }\n\
        fn unbx[T](b: Bx[T]) -> T { b.v }\n\
        fn lhead[T](l: Lst[T], d: T) -> T { match l { Lst::Cons(x, _) => x, Lst::Nil => d } }\n\
        fn pfst[A, B](p: Pr[A, B]) -> A { p.a }\n\
        fn psnd[A, B](p: Pr[A, B]) -> B { p.b }\n\
        fn fst[A, B](p: (A, B)) -> A { p.0 }\n";
    let groups: Vec<(Vec<SLeaf>, Vec<String>)> = SGROUPS.iter().map(|g| sgroup_leaves(g)).collect();
    let mut out = Vec::new();
    let mut n = 0usize;
    for (gt, gty, gval, gget) in INST_CONTAINERS {
        for (pt, pty, pval, pget) in INST_POSITIONS {
            let gi = (seed as usize + n) % SGROUPS.len();
            n += 1;
            let (leaves, _) = &groups[gi];
            let mut decls: Vec<String> = Vec::new();
            let mut body = String::new();
            for (k, lf) in leaves.iter().enumerate() {
                for d in &lf.decls {
                    if !decls.contains(d) {
                        decls.push(d.clone());
                    }
                }
                let lt = &lf.src;
                let v = format!("v{k}");
                let xt = pty.replace("{T}", lt);
                let gt_full = gty.replace("{X}", &xt);
                let (x, g, h, y) = (format!("x{k}"), format!("g{k}"), format!("h{k}"), format!("y{k}"));
                writeln!(body, "  let {v}: {lt} = {};", lf.val).unwrap();
                writeln!(body, "  let {x}: {xt} = {};", pval.replace("{T}", lt).replace("{V}", &v)).unwrap();
                writeln!(body, "  let {g}: {gt_full} = {};", gval.replace("{x}", &x)).unwrap();
                writeln!(body, "  let {h}: {gt_full} = idg({g});").unwrap();
                writeln!(body, "  let {y}: {xt} = {};", gget.replace("{h}", &h).replace("{x}", &x)).unwrap();
                writeln!(body, "  let z{k}: {lt} = {};", pget.replace("{T}", lt).replace("{V}", &v).replace("{E}", &y)).unwrap();
            }
            let xt0 = pty.replace("{T}", &leaves[0].src);
            writeln!(body, "  let hr: {} = pick(true, g0, h0);", gty.replace("{X}", &xt0)).unwrap();
            writeln!(body, "  let yr: {xt0} = {};", gget.replace("{h}", "hr").replace("{x}", "x0")).unwrap();
            let src = format!("{}{}{}fn main() -> unit {{\n{}  string_println(\"end\")\n}}\n", PRELUDE, LIB, decls.concat(), body);
            out.push((format!("S:{}:{}:{}", gt, pt, SGROUPS[gi]), src));
        }
    }
    out
}

// ---------------------------------------------------------------- request routes x signature shapes (`req:`)

/// a generic function (or method of `impl[A, B] Pr[A, B]`) `q` over the type parameters A, B(, C).  Type templates
/// use `{A}` `{B}` `{C}`, value templates the leaf literals `{a}` `{b}` `{c}`; parameters are `p0`, `p1`, …
/// (`self` for the receiver of a method).  The shapes differ in the ORDER in which the parameters first occur in
/// the declaration, in the parameter list and in the result type (and in what they are nested in), so the order
/// in which a request discovers the bindings differs between shapes and between the parts of one signature.
pub struct ReqShape {
    pub tag: &'static str,
    pub generics: &'static [&'static str],
    pub params: &'static [&'static str],
    pub ret: &'static str,
    pub body: &'static str,
    pub args: &'static [&'static str],
    /// (leaf parameter, expression over the result `{r}` that reads a value of that leaf type)
    pub reads: &'static [(&'static str, &'static str)],
    pub method: bool,
}

pub const REQ_SHAPES: &[ReqShape] = &[
    ReqShape { tag: "same-order", generics: &["A", "B"], params: &["{A}", "{B}"], ret: "({A}, {B})", body: "(p0, p1)", args: &["{a}", "{b}"], reads: &[("A", "{r}.0"), ("B", "{r}.1")], method: false },
    ReqShape { tag: "result-swapped", generics: &["A", "B"], params: &["{A}", "{B}"], ret: "({B}, {A})", body: "(p1, p0)", args: &["{a}", "{b}"], reads: &[("B", "{r}.0"), ("A", "{r}.1")], method: false },
    ReqShape { tag: "declared-reversed", generics: &["B", "A"], params: &["{A}", "{B}"], ret: "({A}, {B})", body: "(p0, p1)", args: &["{a}", "{b}"], reads: &[("A", "{r}.0"), ("B", "{r}.1")], method: false },
    ReqShape { tag: "params-reversed", generics: &["A", "B"], params: &["{B}", "{A}"], ret: "({A}, {B})", body: "(p1, p0)", args: &["{b}", "{a}"], reads: &[("A", "{r}.0"), ("B", "{r}.1")], method: false },
    ReqShape { tag: "result-second-only", generics: &["A", "B"], params: &["{A}", "{B}"], ret: "{B}", body: "p1", args: &["{a}", "{b}"], reads: &[("B", "{r}")], method: false },
    ReqShape { tag: "tuple-param", generics: &["A", "B"], params: &["({A}, {B})"], ret: "({B}, {A})", body: "(p0.1, p0.0)", args: &["({a}, {b})"], reads: &[("B", "{r}.0"), ("A", "{r}.1")], method: false },
    ReqShape { tag: "struct-result", generics: &["A", "B"], params: &["{A}", "{B}"], ret: "Pr[{B}, {A}]", body: "Pr { a: p1, b: p0 }", args: &["{a}", "{b}"], reads: &[("B", "{r}.a"), ("A", "{r}.b")], method: false },
    ReqShape { tag: "fn-param", generics: &["A", "B"], params: &["({B}) -> {A}", "{B}"], ret: "{A}", body: "p0(p1)", args: &["|x: {B}| {a}", "{b}"], reads: &[("A", "{r}")], method: false },
    ReqShape { tag: "fn-result", generics: &["A", "B"], params: &["{A}", "{B}"], ret: "({B}) -> {A}", body: "|x: {B}| p0", args: &["{a}", "{b}"], reads: &[("A", "{r}({b})")], method: false },
    ReqShape { tag: "three-rotated", generics: &["A", "B", "C"], params: &["{A}", "{B}", "{C}"], ret: "({C}, {A}, {B})", body: "(p2, p0, p1)", args: &["{a}", "{b}", "{c}"], reads: &[("C", "{r}.0"), ("A", "{r}.1"), ("B", "{r}.2")], method: false },
    ReqShape { tag: "repeated", generics: &["A", "B"], params: &["{A}", "{B}", "{A}"], ret: "({B}, {A}, {B})", body: "(p1, p2, p1)", args: &["{a}", "{b}", "{a}"], reads: &[("B", "{r}.0"), ("A", "{r}.1")], method: false },
    ReqShape { tag: "enum-array", generics: &["A", "B"], params: &["Opt[{B}]", "[{A}; 2]"], ret: "([{A}; 2], Opt[{B}])", body: "(p1, p0)", args: &["Opt::Som({b})", "[{a}, {a}]"], reads: &[("A", "array_get({r}.0, 1)"), ("B", "opt_or({r}.1, {b})")], method: false },
    ReqShape { tag: "ref-vec", generics: &["A", "B"], params: &["Ref[{A}]", "Vec[{B}]"], ret: "(Vec[{B}], Ref[{A}])", body: "(p1, p0)", args: &["ref({a})", "vec_push(vec_new(), {b})"], reads: &[("B", "vec_get({r}.0, 0)"), ("A", "ref_get({r}.1)")], method: false },
    ReqShape { tag: "nested-app", generics: &["A", "B"], params: &["Bx[Opt[{A}]]", "{B}"], ret: "Pr[{B}, Opt[{A}]]", body: "Pr { a: p1, b: p0.v }", args: &["Bx { v: Opt::Som({a}) }", "{b}"], reads: &[("B", "{r}.a"), ("A", "opt_or({r}.b, {a})")], method: false },
    ReqShape { tag: "method-flip", generics: &["A", "B"], params: &["Pr[{A}, {B}]"], ret: "Pr[{B}, {A}]", body: "Pr { a: self.b, b: self.a }", args: &["Pr { a: {a}, b: {b} }"], reads: &[("B", "{r}.a"), ("A", "{r}.b")], method: true },
    ReqShape { tag: "method-param", generics: &["A", "B"], params: &["Pr[{A}, {B}]", "{B}"], ret: "({B}, {A})", body: "(p1, self.a)", args: &["Pr { a: {a}, b: {b} }", "{b}"], reads: &[("B", "{r}.0"), ("A", "{r}.1")], method: true },
];

/// the ways a program can ask for an instance of `q`: a call (`mono_expr`, case `ECall`) or a use as a value
/// (case `EVar`, `specialize_fn_value`), from monomorphic code, from inside another generic instance (the
/// request is built under a non-empty substitution) or from inside a closure
#[derive(Clone, Copy, PartialEq, Eq, Debug)]
pub enum ReqRoute {
    Call,
    Hof,
    LetValue,
    Returned,
    InGenericCall,
    InGenericValue,
    Closure,
    Array,
    Field,
    Dot,
    InGenericDot,
}

impl ReqRoute {
    pub fn tag(self) -> &'static str {
        match self {
            ReqRoute::Call => "call",
            ReqRoute::Hof => "value-argument",
            ReqRoute::LetValue => "value-let",
            ReqRoute::Returned => "value-returned",
            ReqRoute::InGenericCall => "call-in-generic",
            ReqRoute::InGenericValue => "value-in-generic",
            ReqRoute::Closure => "call-in-closure",
            ReqRoute::Array => "value-array",
            ReqRoute::Field => "value-field",
            ReqRoute::Dot => "method-call",
            ReqRoute::InGenericDot => "method-call-in-generic",
        }
    }
}

const FN_ROUTES: &[ReqRoute] = &[ReqRoute::Call, ReqRoute::Hof, ReqRoute::LetValue, ReqRoute::Returned, ReqRoute::InGenericCall, ReqRoute::InGenericValue, ReqRoute::Closure, ReqRoute::Array, ReqRoute::Field];
const METHOD_ROUTES: &[ReqRoute] = &[ReqRoute::Call, ReqRoute::Dot, ReqRoute::InGenericCall, ReqRoute::InGenericDot, ReqRoute::Closure];

fn req_inst(t: &str, tys: [&str; 3], vals: [&str; 3]) -> String {
    t.replace("{A}", tys[0]).replace("{B}", tys[1]).replace("{C}", tys[2]).replace("{a}", vals[0]).replace("{b}", vals[1]).replace("{c}", vals[2])
}

/// one request of `q` at the instantiation `tys` through `route`: (top-level declarations, statements of `main`
/// ending with the result in `r{k}`)
fn req_use(sh: &ReqShape, route: ReqRoute, k: usize, tys: [&str; 3], vals: [&str; 3]) -> (String, String) {
    let it = |t: &str| req_inst(t, tys, vals);
    let n = sh.params.len();
    let pts: Vec<String> = sh.params.iter().map(|t| it(t)).collect();
    let rt = it(sh.ret);
    let args: Vec<String> = sh.args.iter().map(|t| it(t)).collect();
    let ft = format!("({}) -> {}", pts.join(", "), rt);
    // the wrappers are generic over X, W, V (alphabetically the other way round than A, B, C)
    let wr = |t: &str| req_inst(t, ["X", "W", "V"], ["", "", ""]);
    let ggens = sh.generics.iter().map(|g| match *g { "A" => "X", "B" => "W", _ => "V" }).collect::<Vec<_>>().join(", ");
    let gparams = sh.params.iter().enumerate().map(|(i, t)| format!("p{}: {}", i, wr(t))).collect::<Vec<_>>().join(", ");
    let grt = wr(sh.ret);
    let ps: Vec<String> = (0..n).map(|i| format!("p{i}")).collect();
    let q = if sh.method { "Pr::q" } else { "q" };
    let call = |a: &[String]| format!("{}({})", q, a.join(", "));
    let (top, body) = match route {
        ReqRoute::Call => (String::new(), format!("  let r{k}: {rt} = {};\n", call(&args))),
        ReqRoute::Hof => (String::new(), format!("  let r{k}: {rt} = ap{n}(q, {});\n", args.join(", "))),
        ReqRoute::LetValue => (String::new(), format!("  let g{k}: {ft} = q;\n  let r{k}: {rt} = g{k}({});\n", args.join(", "))),
        ReqRoute::Returned => (format!("fn get{k}() -> {ft} {{ q }}\n"), format!("  let g{k} = get{k}();\n  let r{k}: {rt} = g{k}({});\n", args.join(", "))),
        ReqRoute::InGenericCall => (format!("fn via{k}[{ggens}]({gparams}) -> {grt} {{ {} }}\n", call(&ps)), format!("  let r{k}: {rt} = via{k}({});\n", args.join(", "))),
        ReqRoute::InGenericValue => (format!("fn viav{k}[{ggens}]({gparams}) -> {grt} {{ ap{n}(q, {}) }}\n", ps.join(", ")), format!("  let r{k}: {rt} = viav{k}({});\n", args.join(", "))),
        ReqRoute::Closure => (String::new(), format!("  let c{k} = |u: unit| {};\n  let r{k}: {rt} = c{k}(());\n", call(&args))),
        ReqRoute::Array => (String::new(), format!("  let fs{k}: [{ft}; 2] = [q, q];\n  let g{k} = array_get(fs{k}, 1);\n  let r{k}: {rt} = g{k}({});\n", args.join(", "))),
        ReqRoute::Field => (String::new(), format!("  let h{k}: Hold[{ft}] = Hold {{ f: q }};\n  let g{k} = h{k}.f;\n  let r{k}: {rt} = g{k}({});\n", args.join(", "))),
        ReqRoute::Dot => (String::new(), format!("  let s{k}: {} = {};\n  let r{k}: {rt} = s{k}.q({});\n", pts[0], args[0], args[1..].join(", "))),
        ReqRoute::InGenericDot => (format!("fn viad{k}[{ggens}]({gparams}) -> {grt} {{ p0.q({}) }}\n", ps[1..].join(", ")), format!("  let r{k}: {rt} = viad{k}({});\n", args.join(", "))),
    };
    (top, body)
}

/// one program: `q` of shape `sh` is requested at (A, B, C) := (t1, t2, t3) through `routes` in that order and at
/// (t2, t1, t3) through the same routes in reverse order; every result is taken apart and printed.  Exactly two
/// instances of `q` must exist afterwards.
pub fn req_program(sh: &ReqShape, routes: &[ReqRoute], leaves: [usize; 3]) -> String {
    const LIB: &str = "struct Pr[A, B] { a: A, b: B }\nstruct Hold[F] { f: F }\n\
        fn unbx[T](b: Bx[T]) -> T { b.v }\n\
        fn ap1[X1, Z](g: (X1) -> Z, x1: X1) -> Z { g(x1) }\n\
        fn ap2[X1, X2, Z](g: (X1, X2) -> Z, x1: X1, x2: X2) -> Z { g(x1, x2) }\n\
        fn ap3[X1, X2, X3, Z](g: (X1, X2, X3) -> Z, x1: X1, x2: X2, x3: X3) -> Z { g(x1, x2, x3) }\n";
    let generic = |t: &str| req_inst(t, ["A", "B", "C"], ["", "", ""]);
    let decl = if sh.method {
        let rest = sh.params.iter().enumerate().skip(1).map(|(i, t)| format!(", p{}: {}", i, generic(t))).collect::<String>();
        format!("impl[{}] Pr[A, B] {{ fn q(self: {}{}) -> {} {{ {} }} }}\n", sh.generics.join(", "), generic(sh.params[0]), rest, generic(sh.ret), generic(sh.body))
    } else {
        let ps = sh.params.iter().enumerate().map(|(i, t)| format!("p{}: {}", i, generic(t))).collect::<Vec<_>>().join(", ");
        format!("fn q[{}]({}) -> {} {{ {} }}\n", sh.generics.join(", "), ps, generic(sh.ret), generic(sh.body))
    };
    let mut tops = String::new();
    let mut body = String::new();
    let mut k = 0usize;
    let l = |i: usize| INST_LEAVES[leaves[i]];
    for (inst, order) in [(0usize, routes.to_vec()), (1usize, routes.iter().rev().copied().collect::<Vec<_>>())] {
        let ix: [usize; 3] = if inst == 0 { [0, 1, 2] } else { [1, 0, 2] };
        let tys = [l(ix[0]).0, l(ix[1]).0, l(ix[2]).0];
        let vals = [l(ix[0]).1, l(ix[1]).1, l(ix[2]).1];
        for route in order {
            let (t, b) = req_use(sh, route, k, tys, vals);
            tops.push_str(&t);
            body.push_str(&b);
            for (leaf, read) in sh.reads {
                let li = match *leaf { "A" => ix[0], "B" => ix[1], _ => ix[2] };
                let e = req_inst(read, tys, vals).replace("{r}", &format!("r{k}"));
                writeln!(body, "  let _ = string_println({});", l(li).2.replace("{}", &e)).unwrap();
            }
            k += 1;
        }
    }
    // only the library declarations the program refers to (directly or through another declaration), so that a
    // failing program is small
    let rest = format!("{}{}fn main() -> unit {{\n{}  string_println(\"end\")\n}}\n", decl, tops, body);
    let lib: Vec<(&str, &str)> = PRELUDE
        .lines()
        .chain(LIB.lines())
        .filter_map(|line| {
            let name = line.split_whitespace().nth(1)?.split(['[', '(']).next()?;
            Some((name, line))
        })
        .collect();
    let mut used = vec![false; lib.len()];
    loop {
        let text = format!("{}{}", lib.iter().zip(used.iter()).filter(|(_, u)| **u).map(|((_, l), _)| *l).collect::<Vec<_>>().join("\n"), rest);
        let mut changed = false;
        for (i, (name, line)) in lib.iter().enumerate() {
            if !used[i] && mentions(&text, name) {
                let _ = line;
                used[i] = true;
                changed = true;
            }
        }
        if !changed {
            break;
        }
    }
    let mut src = String::new();
    for ((_, line), u) in lib.iter().zip(used.iter()) {
        if *u {
            src.push_str(line);
            src.push('\n');
        }
    }
    src + &rest
}

/// does `text` contain the identifier `name` (not as part of a longer identifier)
fn mentions(text: &str, name: &str) -> bool {
    let b = text.as_bytes();
    text.match_indices(name).any(|(i, _)| {
        let before = i == 0 || !(b[i - 1].is_ascii_alphanumeric() || b[i - 1] == b'_');
        let j = i + name.len();
        let after = j >= b.len() || !(b[j].is_ascii_alphanumeric() || b[j] == b'_');
        before && after
    })
}

/// the catalogue: every shape x (one program with ALL routes, rotated by the seed) + programs with TWO routes
/// (quick: every fourth pair, rotating with the seed and the shape; thorough: every pair)
pub fn req_programs(seed: u64, thorough: bool) -> Vec<(String, String)> {
    let mut out = Vec::new();
    let mut n = 0usize;
    for (si, sh) in REQ_SHAPES.iter().enumerate() {
        let routes = if sh.method { METHOD_ROUTES } else { FN_ROUTES };
        let mut leaves = |n: usize| {
            let i1 = (seed as usize + n) % INST_LEAVES.len();
            let i2 = (i1 + 1 + (n / 5) % 4) % INST_LEAVES.len();
            let i3 = (0..INST_LEAVES.len()).filter(|i| *i != i1 && *i != i2).nth((n / 20) % 3).unwrap();
            [i1, i2, i3]
        };
        let rot = (seed as usize + si) % routes.len();
        let all: Vec<ReqRoute> = routes.iter().cycle().skip(rot).take(routes.len()).copied().collect();
        out.push((format!("{}:all-from-{}", sh.tag, all[0].tag()), req_program(sh, &all, leaves(n))));
        n += 1;
        let mut pi = 0usize;
        for i in 0..routes.len() {
            for j in i + 1..routes.len() {
                pi += 1;
                if !thorough && !sh.method && (pi + seed as usize + si) % 4 != 0 {
                    continue;
                }
                // which of the two asks first alternates with the seed
                let pair = if (pi + seed as usize) % 2 == 0 { [routes[i], routes[j]] } else { [routes[j], routes[i]] };
                out.push((format!("{}:{}+{}", sh.tag, pair[0].tag(), pair[1].tag()), req_program(sh, &pair, leaves(n))));
                n += 1;
            }
        }
    }
    out
}

/// number of Mono functions that are instances of the catalogue's `q`
pub fn req_q_instances(core: &compiler::core::File, mono: &compiler::mono::MonoFile) -> Option<(String, usize)> {
    let core_names: Vec<&str> = core.toplevels.iter().map(|f| f.name.as_str()).collect();
    let q = core_names.iter().find(|n| **n == "q" || n.ends_with("#q")).copied()?;
    Some((q.to_string(), mono.toplevels.iter().filter(|f| instance_origin(&core_names, &f.name) == Some(q)).count()))
}

pub fn gen_cfg(i: usize) -> crate::progen::Cfg {
    crate::progen::Cfg {
        closure_flows: i % 4 == 3,
        traits: i % 3 != 0,
        generics: true,
        go_stmt: false,
        max_depth: 1 + i % 2,
        effects: true,
        wildcard_arrays: false,
        rich_generics: true,
        vec_generics: i % 5 != 0,
        dyn_generics: i % 2 == 0,
        generic_fn_values: false,
        overlapping_impls: i % 3 != 1,
        result_only_generics: i % 4 != 3,
        cov_shapes: i % 4 == 2,
        finite_polyrec: i % 5 != 2,
        ..Default::default()
    }
}

pub fn stream_tag(cfg: &crate::progen::Cfg) -> String {
    format!("{}", if cfg.closure_flows { ":cf" } else { "" })
}

#[allow(dead_code)]
pub fn debug_traits(path: &str) {
    let src = std::fs::read_to_string(path).unwrap();
    let p = std::path::PathBuf::from(path);
    if let Ok(Ok((_, genv, _))) = guarded(|| pipeline::typecheck_with_packages(&p, &src)) {
        for (k, v) in genv.trait_env.trait_defs.iter() {
            println!("{} {:?}", k, v);
        }
        for (k, v) in genv.value_env.funcs.iter().take(0) {
            println!("{} {:?}", k, v);
        }
    }
}

/// forms next to the overlapping impls of the rich-generics library that goml does not have
const NEGATIVES: &[(&str, &str)] = &[
    ("generic-trait-impl-overlap", "struct Bx[T] { v: T }\ntrait Show { fn show(Self) -> string; }\nimpl[T] Show for Bx[T] { fn show(self: Bx[T]) -> string { \"bx\" } }\nimpl Show for Bx[int32] { fn show(self: Bx[int32]) -> string { \"bx-int\" } }\nfn main() -> unit { let a: Bx[int32] = Bx { v: 1 }; string_println(Show::show(a)) }\n"),
    ("generic-trait-impl", "struct Bx[T] { v: T }\ntrait Show { fn show(Self) -> string; }\nimpl[T] Show for Bx[T] { fn show(self: Bx[T]) -> string { \"bx\" } }\nfn main() -> unit { let a: Bx[int32] = Bx { v: 1 }; string_println(Show::show(a)) }\n"),
    ("method-value", "struct Bx[T] { v: T }\nimpl[T] Bx[T] { fn tag(self: Bx[T]) -> string { \"bx\" } }\nimpl Bx[int32] { fn tag(self: Bx[int32]) -> string { \"bx-int\" } }\nfn main() -> unit { let a: Bx[int32] = Bx { v: 1 }; let m = a.tag; string_println(m()) }\n"),
    ("path-with-type-arguments", "struct Bx[T] { v: T }\nimpl[T] Bx[T] { fn tag(self: Bx[T]) -> string { \"bx\" } }\nimpl Bx[int32] { fn tag(self: Bx[int32]) -> string { \"bx-int\" } }\nfn main() -> unit { let a: Bx[int32] = Bx { v: 1 }; string_println(Bx[int32]::tag(a)) }\n"),
    ("duplicate-exact-impl-method", "struct Bx[T] { v: T }\nimpl Bx[int32] { fn tag(self: Bx[int32]) -> string { \"a\" } }\nimpl Bx[int32] { fn tag(self: Bx[int32]) -> string { \"b\" } }\nfn main() -> unit { let a: Bx[int32] = Bx { v: 1 }; string_println(a.tag()) }\n"),
];
