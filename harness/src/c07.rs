//! C07 — generics: the REAL `mono::mono` run on the REAL Core of corpus / generated programs.
//!
//! The passes are run one by one (the same calls `pipeline::compile` makes, in the same order, with
//! one shared `Gensym`), each under `catch_unwind`, so that the Core and Mono of a program are
//! available even when a later pass panics.  Per program the harness prints
//!   `CORE`  input of mono: Core file + the enum/struct definitions of `genv`
//!   `MONO`  output of mono: Mono file + `monoenv.mono_enums/mono_structs/mono_funcs`
//!   `STAGE` core|mono|lift|anf programs for `Sem` and for the closedness oracle
//! Modes: `gv c07` (all streams), `gv c07 file <f.gom>` (one file, human readable),
//! `gv c07 one <f.gom>` (one file, used by the watchdog: prints `DONE` when mono returned).
use crate::c01;
use crate::dump;
use crate::sexp::{S, a, esc_line, l, tagged};
use crate::util;
use compiler::env::{EnumDef, Gensym, GlobalTypeEnv, StructDef};
use compiler::mono::GlobalMonoEnv;
use compiler::pipeline::pipeline;
use compiler::tast::TastIdent;
use indexmap::IndexMap;
use std::fmt::Write as _;
use std::panic::{AssertUnwindSafe, catch_unwind};
use std::path::Path;

pub struct Staged {
    pub genv: Option<GlobalTypeEnv>,
    pub core: Option<compiler::core::File>,
    pub mono: Option<(compiler::mono::MonoFile, GlobalMonoEnv)>,
    pub lift: Option<(compiler::lift::LiftFile, compiler::lift::GlobalLiftEnv)>,
    pub anf: Option<(compiler::anf::File, compiler::anf::GlobalAnfEnv)>,
    pub go_ok: bool,
    /// `None` = every pass returned; otherwise (kind, stage, message), kind ∈ reject | panic
    pub stop: Option<(&'static str, &'static str, String)>,
}

fn guarded<T>(f: impl FnOnce() -> T) -> Result<T, String> {
    catch_unwind(AssertUnwindSafe(f)).map_err(util::panic_message)
}

/// the passes of `pipeline::compile`, one by one; `upto_mono` stops after monomorphisation
pub fn run_stages(path: &Path, src: &str, upto_mono: bool) -> Staged {
    let mut st = Staged { genv: None, core: None, mono: None, lift: None, anf: None, go_ok: false, stop: None };
    let tc = guarded(|| pipeline::typecheck_with_packages(path, src));
    let (tast, genv) = match tc {
        Err(m) => {
            st.stop = Some(("panic", "typer", m));
            return st;
        }
        Ok(Err(e)) => {
            st.stop = Some(("reject", util::stage_of(&e), e.diagnostics().iter().map(|d| d.message().to_string()).collect::<Vec<_>>().join(" | ")));
            return st;
        }
        Ok(Ok((tast, genv, diags))) => {
            if diags.has_errors() {
                st.stop = Some(("reject", "typer", diags.iter().map(|d| d.message().to_string()).collect::<Vec<_>>().join(" | ")));
                return st;
            }
            (tast, genv)
        }
    };
    st.genv = Some(genv.clone());
    let gensym = Gensym::new();
    let mut diags = diagnostics::Diagnostics::new();
    let core = match guarded(|| compiler::compile_match::compile_file(&genv, &gensym, &mut diags, &tast)) {
        Ok(c) => c,
        Err(m) => {
            st.stop = Some(("panic", "core", m));
            return st;
        }
    };
    if diags.has_errors() {
        st.stop = Some(("reject", "compile", diags.iter().map(|d| d.message().to_string()).collect::<Vec<_>>().join(" | ")));
        return st;
    }
    st.core = Some(core.clone());
    let (mono, monoenv) = match guarded(|| compiler::mono::mono(genv.clone(), core.clone())) {
        Ok(r) => r,
        Err(m) => {
            st.stop = Some(("panic", "mono", m));
            return st;
        }
    };
    st.mono = Some((mono.clone(), monoenv.clone()));
    if upto_mono {
        return st;
    }
    let (lifted, liftenv) = match guarded(|| compiler::lift::lambda_lift(monoenv.clone(), &gensym, mono.clone())) {
        Ok(r) => r,
        Err(m) => {
            st.stop = Some(("panic", "lift", m));
            return st;
        }
    };
    st.lift = Some((lifted.clone(), liftenv.clone()));
    let (anf, anfenv) = match guarded(|| compiler::anf::anf_file(liftenv.clone(), &gensym, lifted.clone())) {
        Ok(r) => r,
        Err(m) => {
            st.stop = Some(("panic", "anf", m));
            return st;
        }
    };
    st.anf = Some((anf.clone(), anfenv.clone()));
    match guarded(|| compiler::go::compile::go_file(anfenv.clone(), &gensym, anf.clone())) {
        Ok(_) => st.go_ok = true,
        Err(m) => st.stop = Some(("panic", "go", m)),
    }
    st
}

pub fn enum_def(d: &EnumDef) -> S {
    let mut v = vec![a(&d.name.0), l(d.generics.iter().map(|g| a(&g.0)).collect())];
    for (vn, fs) in d.variants.iter() {
        let mut w = vec![a(&vn.0)];
        w.extend(fs.iter().map(dump::ty));
        v.push(l(w));
    }
    tagged("enum", v)
}

pub fn struct_def(d: &StructDef) -> S {
    let mut v = vec![a(&d.name.0), l(d.generics.iter().map(|g| a(&g.0)).collect())];
    for (fnm, ft) in d.fields.iter() {
        v.push(l(vec![a(&fnm.0), dump::ty(ft)]));
    }
    tagged("struct", v)
}

pub fn enums_s(m: &IndexMap<TastIdent, EnumDef>) -> S {
    tagged("enums", m.values().map(enum_def).collect())
}
pub fn structs_s(m: &IndexMap<TastIdent, StructDef>) -> S {
    tagged("structs", m.values().map(struct_def).collect())
}

pub fn core_case(genv: &GlobalTypeEnv, core: &compiler::core::File) -> S {
    tagged("case", vec![dump::core_file(core), enums_s(genv.enums()), structs_s(genv.structs())])
}

pub fn mono_case(mono: &compiler::mono::MonoFile, env: &GlobalMonoEnv) -> S {
    tagged(
        "mono",
        vec![
            dump::mono_file(mono),
            enums_s(&env.mono_enums),
            structs_s(&env.mono_structs),
            tagged("funcs", env.mono_funcs.iter().map(|(k, t)| l(vec![a(k), dump::ty(t)])).collect()),
        ],
    )
}

/// all definitions visible after mono / lift (for `wt`): genv + mono instances (+ closure structs)
pub fn all_defs_mono(env: &GlobalMonoEnv) -> (S, S) {
    let mut es: IndexMap<TastIdent, EnumDef> = env.genv.enums().clone();
    es.extend(env.mono_enums.clone());
    let mut ss: IndexMap<TastIdent, StructDef> = env.genv.structs().clone();
    ss.extend(env.mono_structs.clone());
    (enums_s(&es), structs_s(&ss))
}

pub fn emit(id: &str, src: Option<&str>, st: &Staged, out: &mut String) {
    if let Some(s) = src {
        writeln!(out, "{}\tSRC\t{}", id, esc_line(s)).unwrap();
    }
    if let (Some(genv), Some(core)) = (&st.genv, &st.core) {
        let impls = c01::impls_table(genv);
        writeln!(out, "{}\tCORE\t{}", id, core_case(genv, core).to_text()).unwrap();
        writeln!(out, "{}\tSTAGE\tcore\t{}", id, c01::prog(dump::core_file(core), &impls).to_text()).unwrap();
        if let Some((m, env)) = &st.mono {
            writeln!(out, "{}\tMONO\t{}", id, mono_case(m, env).to_text()).unwrap();
            writeln!(out, "{}\tSTAGE\tmono\t{}", id, c01::prog(dump::mono_file(m), &impls).to_text()).unwrap();
        }
        if let Some((f, _)) = &st.lift {
            writeln!(out, "{}\tSTAGE\tlift\t{}", id, c01::prog(dump::lift_file(f), &impls).to_text()).unwrap();
        }
        if let Some((f, _)) = &st.anf {
            writeln!(out, "{}\tSTAGE\tanf\t{}", id, c01::prog(dump::anf_file(f), &impls).to_text()).unwrap();
        }
    }
    match &st.stop {
        None => writeln!(out, "{}\tDONE", id).unwrap(),
        Some((kind, stage, msg)) => writeln!(out, "{}\t{}\t{}\t{}", id, kind.to_uppercase(), stage, esc_line(msg)).unwrap(),
    }
}

/// run `gv c07 one <file>` in a child process with a time and memory limit; the watchdog of the
/// termination part of the property.  Returns "done" | "hang" | "other:<text>"
pub fn watchdog(file: &Path, secs: u64) -> String {
    let exe = std::env::current_exe().unwrap();
    let cmd = format!(
        "ulimit -v 4000000; exec timeout -s KILL {} {} c07 one {}",
        secs,
        exe.to_string_lossy(),
        file.to_string_lossy()
    );
    match std::process::Command::new("bash").arg("-c").arg(&cmd).output() {
        Ok(o) => {
            let so = String::from_utf8_lossy(&o.stdout);
            if so.contains("MONO-RETURNED") {
                "done".into()
            } else if o.status.code() == Some(137) || o.status.code().is_none() {
                "hang".into()
            } else {
                let se = String::from_utf8_lossy(&o.stderr);
                if se.contains("memory allocation") || se.contains("out of memory") {
                    "hang".into() // unbounded growth stopped by the memory limit
                } else {
                    format!("other:{}:{}", o.status.code().unwrap_or(-1), so.lines().last().unwrap_or(""))
                }
            }
        }
        Err(e) => format!("other:spawn:{}", e),
    }
}

fn show_file(path: &str) {
    let src = std::fs::read_to_string(path).expect("read");
    let dir = util::scratch_dir("c07f");
    let p = dir.join("main.gom");
    std::fs::write(&p, &src).unwrap();
    let st = run_stages(&p, &src, false);
    if let Some(c) = &st.core {
        println!("--- core");
        for f in c.toplevels.iter() {
            println!("fn {} generics={:?} params={:?} ret={:?}", f.name, f.generics, f.params, f.ret_ty);
        }
    }
    if let Some((m, env)) = &st.mono {
        println!("--- mono");
        for f in m.toplevels.iter() {
            println!("fn {} params={:?} ret={:?}", f.name, f.params, f.ret_ty);
        }
        println!("mono_enums: {:?}", env.mono_enums.keys().map(|k| k.0.clone()).collect::<Vec<_>>());
        println!("mono_structs: {:?}", env.mono_structs.keys().map(|k| k.0.clone()).collect::<Vec<_>>());
    }
    if std::env::args().any(|x| x == "--dump") {
        let mut out = String::new();
        emit("file", None, &st, &mut out);
        println!("{}", out);
    }
    match &st.stop {
        None => println!("DONE"),
        Some((k, s, m)) => println!("{} {} {}", k.to_uppercase(), s, m),
    }
    let _ = std::fs::remove_dir_all(&dir);
}

pub fn main(args: &util::Args) {
    util::quiet_panics();
    if args.rest.first().map(|s| s.as_str()) == Some("file") {
        show_file(&args.rest[1]);
        return;
    }
    if args.rest.first().map(|s| s.as_str()) == Some("one") {
        let path = std::path::PathBuf::from(&args.rest[1]);
        let src = std::fs::read_to_string(&path).expect("read");
        let st = run_stages(&path, &src, true);
        match (&st.mono, &st.stop) {
            (Some(_), _) => println!("MONO-RETURNED"),
            (None, Some((k, s, m))) => println!("{} {} {}", k.to_uppercase(), s, m),
            _ => println!("?"),
        }
        return;
    }
    let mut out = String::new();
    // ---- stream 1: the repository's corpus
    for d in util::corpus_pipeline_dirs() {
        let path = d.join("main.gom");
        let Ok(src) = std::fs::read_to_string(&path) else { continue };
        let id = format!("repo:{}", d.file_name().unwrap().to_string_lossy());
        let st = run_stages(&path, &src, false);
        emit(&id, None, &st, &mut out);
    }
    let _ = std::fs::create_dir_all(&args.out);
    std::fs::write(args.out.join("c07.cases.tsv"), out).unwrap();
}
