//! C08 — closures keep their lexical meaning after lambda lifting.
//! For every accepted program: the REAL Mono file and pre-lift environment (input of
//! `lift::lambda_lift`), the REAL Lift file and post-lift environment (its output), and all
//! stage dumps for the behavioural oracle (`Sem` on Mono / Lift, `Go.Sem` on the Go AST).
use crate::c01;
use crate::dump;
use crate::sexp::{S, a, l, n, tagged};
use crate::util::{self, Outcome};
use compiler::env::{EnumDef, StructDef};
use compiler::mono::{MonoExpr, MonoFile};
use compiler::pipeline::pipeline::Compilation;
use compiler::tast::Ty;
use indexmap::IndexMap;
use std::fmt::Write as _;

fn struct_def(d: &StructDef) -> S {
    tagged("struct", vec![a(&d.name.0), l(d.generics.iter().map(|g| a(&g.0)).collect()), l(d.fields.iter().map(|(f, t)| l(vec![a(&f.0), dump::ty(t)])).collect())])
}
fn enum_def(d: &EnumDef) -> S {
    tagged(
        "enum",
        vec![
            a(&d.name.0),
            l(d.generics.iter().map(|g| a(&g.0)).collect()),
            l(d.variants.iter().map(|(v, ts)| l(vec![a(&v.0), l(ts.iter().map(dump::ty).collect())])).collect()),
        ],
    )
}
fn funcs(m: &IndexMap<String, Ty>) -> S {
    tagged("funcs", m.iter().map(|(k, t)| l(vec![a(k), dump::ty(t)])).collect())
}

/// what `GlobalLiftEnv::get_struct` / `struct_def_mut` / `get_enum` / `get_func` can see before lifting:
/// `mono_structs` shadow `genv.structs()`, `mono_enums` shadow `genv.enums()` (generic enums are
/// invisible to `get_enum`), `mono_funcs` only.
fn env_in(c: &Compilation) -> Vec<S> {
    let m = &c.monoenv;
    let mut structs: Vec<S> = m.mono_structs.values().map(struct_def).collect();
    structs.extend(m.genv.structs().iter().filter(|(k, _)| !m.mono_structs.contains_key(*k)).map(|(_, d)| struct_def(d)));
    let mut enums: Vec<S> = m.mono_enums.values().filter(|d| d.generics.is_empty()).map(enum_def).collect();
    enums.extend(m.genv.enums().iter().filter(|(k, d)| !m.mono_enums.contains_key(*k) && d.generics.is_empty()).map(|(_, d)| enum_def(d)));
    vec![funcs(&m.mono_funcs), tagged("structs", structs), tagged("enums", enums)]
}

/// the environment after lifting: closure env structs, user structs (field types may have been
/// rewritten), function types registered by the pass
fn env_out(c: &Compilation) -> Vec<S> {
    let e = &c.liftenv;
    let m = &e.monoenv;
    let mut structs: Vec<S> = m.mono_structs.values().map(struct_def).collect();
    structs.extend(m.genv.structs().iter().filter(|(k, _)| !m.mono_structs.contains_key(*k)).map(|(_, d)| struct_def(d)));
    vec![tagged("lifted_structs", e.lifted_structs.values().map(struct_def).collect()), tagged("structs", structs), funcs(&e.lifted_funcs)]
}

/// first number handed out by the shared `Gensym` inside the pass (`env<N>` of the first apply function)
fn gensym_start(c: &Compilation, n_user: usize) -> usize {
    c.lambda
        .toplevels
        .get(n_user)
        .and_then(|f| f.params.first())
        .and_then(|(p, _)| p.strip_prefix("env").and_then(|d| d.parse::<usize>().ok()))
        .unwrap_or(0)
}

/// `Lift.monoTy` of the Lean model: the type a Mono node reports, recomputed for the node kinds
/// whose stored type the dump omits.
fn model_ty(e: &MonoExpr) -> Ty {
    use MonoExpr as E;
    match e {
        E::ELet { body, .. } => model_ty(body),
        E::EIf { then_branch, .. } => model_ty(then_branch),
        E::EWhile { .. } | E::EGo { .. } => Ty::TUnit,
        E::EPrim { value, .. } => prim_ty(value),
        other => other.get_ty(),
    }
}

fn prim_ty(p: &compiler::common::Prim) -> Ty {
    use compiler::common::Prim as P;
    match p {
        P::Unit { .. } => Ty::TUnit,
        P::Bool { .. } => Ty::TBool,
        P::Int8 { .. } => Ty::TInt8,
        P::Int16 { .. } => Ty::TInt16,
        P::Int32 { .. } => Ty::TInt32,
        P::Int64 { .. } => Ty::TInt64,
        P::UInt8 { .. } => Ty::TUint8,
        P::UInt16 { .. } => Ty::TUint16,
        P::UInt32 { .. } => Ty::TUint32,
        P::UInt64 { .. } => Ty::TUint64,
        P::Float32 { .. } => Ty::TFloat32,
        P::Float64 { .. } => Ty::TFloat64,
        P::String { .. } => Ty::TString,
    }
}

/// The dump drops the type stored on `if`/`let`/`while`/`go`/literal nodes. The pass ignores the
/// one on `let`; the model recomputes the others from the children (`Lift.monoTy`). Check on the
/// real Mono tree that nothing is lost: `EIf.ty == monoTy(then)`, `EWhile.ty == EGo.ty == unit`,
/// `EPrim.ty` is the type of the literal. Returns the first node kind that breaks it.
fn types_recoverable(e: &MonoExpr) -> Option<&'static str> {
    use MonoExpr as E;
    let all = |es: &[MonoExpr]| es.iter().find_map(types_recoverable);
    match e {
        E::EVar { .. } => None,
        E::EPrim { value, ty } => {
            if *ty != prim_ty(value) {
                return Some("prim");
            }
            None
        }
        E::EConstr { args, .. } => all(args),
        E::ETuple { items, .. } | E::EArray { items, .. } => all(items),
        E::EClosure { body, .. } => types_recoverable(body),
        E::ELet { value, body, .. } => types_recoverable(value).or_else(|| types_recoverable(body)),
        E::EMatch { expr, arms, default, .. } => types_recoverable(expr)
            .or_else(|| arms.iter().find_map(|arm| types_recoverable(&arm.lhs).or_else(|| types_recoverable(&arm.body))))
            .or_else(|| default.as_ref().and_then(|d| types_recoverable(d))),
        E::EIf { cond, then_branch, else_branch, ty } => {
            if *ty != model_ty(then_branch) {
                return Some("if");
            }
            types_recoverable(cond).or_else(|| types_recoverable(then_branch)).or_else(|| types_recoverable(else_branch))
        }
        E::EWhile { cond, body, ty } => {
            if *ty != Ty::TUnit {
                return Some("while");
            }
            types_recoverable(cond).or_else(|| types_recoverable(body))
        }
        E::EGo { expr, ty } => {
            if *ty != Ty::TUnit {
                return Some("go");
            }
            types_recoverable(expr)
        }
        E::EConstrGet { expr, .. } | E::EUnary { expr, .. } | E::EToDyn { expr, .. } => types_recoverable(expr),
        E::EProj { tuple, .. } => types_recoverable(tuple),
        E::EBinary { lhs, rhs, .. } => types_recoverable(lhs).or_else(|| types_recoverable(rhs)),
        E::ECall { func, args, .. } => types_recoverable(func).or_else(|| all(args)),
        E::EDynCall { receiver, args, .. } => types_recoverable(receiver).or_else(|| all(args)),
    }
}

fn file_types_recoverable(f: &MonoFile) -> Option<&'static str> {
    f.toplevels.iter().find_map(|f| types_recoverable(&f.body))
}

/// Closedness of the REAL Lift output, independent of the model: a lifted function must not
/// mention a name that is bound (parameter or `let`) somewhere in the file unless it binds it itself.
fn lift_binders(e: &compiler::lift::LiftExpr, acc: &mut std::collections::BTreeSet<String>) {
    use compiler::lift::LiftExpr as E;
    match e {
        E::EVar { .. } | E::EPrim { .. } => {}
        E::EConstr { args: items, .. } | E::ETuple { items, .. } | E::EArray { items, .. } => items.iter().for_each(|x| lift_binders(x, acc)),
        E::ELet { name, value, body, .. } => {
            acc.insert(name.clone());
            lift_binders(value, acc);
            lift_binders(body, acc);
        }
        E::EMatch { expr, arms, default, .. } => {
            lift_binders(expr, acc);
            arms.iter().for_each(|a| lift_binders(&a.body, acc));
            if let Some(d) = default {
                lift_binders(d, acc);
            }
        }
        E::EIf { cond, then_branch, else_branch, .. } => {
            lift_binders(cond, acc);
            lift_binders(then_branch, acc);
            lift_binders(else_branch, acc);
        }
        E::EWhile { cond, body, .. } => {
            lift_binders(cond, acc);
            lift_binders(body, acc);
        }
        E::EGo { expr, .. } | E::EConstrGet { expr, .. } | E::EUnary { expr, .. } | E::EToDyn { expr, .. } | E::EProj { tuple: expr, .. } => lift_binders(expr, acc),
        E::EBinary { lhs, rhs, .. } => {
            lift_binders(lhs, acc);
            lift_binders(rhs, acc);
        }
        E::ECall { func, args, .. } | E::EDynCall { receiver: func, args, .. } => {
            lift_binders(func, acc);
            args.iter().for_each(|x| lift_binders(x, acc));
        }
    }
}

fn lift_unbound(e: &compiler::lift::LiftExpr, bound: &mut Vec<String>, locals: &std::collections::BTreeSet<String>, bad: &mut Vec<String>) {
    use compiler::lift::LiftExpr as E;
    match e {
        E::EVar { name, .. } => {
            if locals.contains(name) && !bound.iter().any(|b| b == name) && !bad.contains(name) {
                bad.push(name.clone());
            }
        }
        E::EPrim { .. } => {}
        E::EConstr { args: items, .. } | E::ETuple { items, .. } | E::EArray { items, .. } => items.iter().for_each(|x| lift_unbound(x, bound, locals, bad)),
        E::ELet { name, value, body, .. } => {
            lift_unbound(value, bound, locals, bad);
            bound.push(name.clone());
            lift_unbound(body, bound, locals, bad);
            bound.pop();
        }
        E::EMatch { expr, arms, default, .. } => {
            lift_unbound(expr, bound, locals, bad);
            // arm heads name the temporaries the arm body binds afterwards: not uses
            arms.iter().for_each(|a| lift_unbound(&a.body, bound, locals, bad));
            if let Some(d) = default {
                lift_unbound(d, bound, locals, bad);
            }
        }
        E::EIf { cond, then_branch, else_branch, .. } => {
            lift_unbound(cond, bound, locals, bad);
            lift_unbound(then_branch, bound, locals, bad);
            lift_unbound(else_branch, bound, locals, bad);
        }
        E::EWhile { cond, body, .. } => {
            lift_unbound(cond, bound, locals, bad);
            lift_unbound(body, bound, locals, bad);
        }
        E::EGo { expr, .. } | E::EConstrGet { expr, .. } | E::EUnary { expr, .. } | E::EToDyn { expr, .. } | E::EProj { tuple: expr, .. } => lift_unbound(expr, bound, locals, bad),
        E::EBinary { lhs, rhs, .. } => {
            lift_unbound(lhs, bound, locals, bad);
            lift_unbound(rhs, bound, locals, bad);
        }
        E::ECall { func, args, .. } | E::EDynCall { receiver: func, args, .. } => {
            lift_unbound(func, bound, locals, bad);
            args.iter().for_each(|x| lift_unbound(x, bound, locals, bad));
        }
    }
}

/// `(function, variable)` pairs: the function mentions a local of another function
pub fn lift_not_closed(f: &compiler::lift::LiftFile) -> Vec<(String, String)> {
    let mut locals = std::collections::BTreeSet::new();
    for t in &f.toplevels {
        for (p, _) in &t.params {
            locals.insert(p.clone());
        }
        lift_binders(&t.body, &mut locals);
    }
    // a local spelled like a top-level function is resolved as the function: not a dangling use
    for t in &f.toplevels {
        locals.remove(&t.name);
    }
    let mut out = Vec::new();
    for t in &f.toplevels {
        let mut bound: Vec<String> = t.params.iter().map(|(p, _)| p.clone()).collect();
        let mut bad = Vec::new();
        lift_unbound(&t.body, &mut bound, &locals, &mut bad);
        out.extend(bad.into_iter().map(|v| (t.name.clone(), v)));
    }
    out
}

pub fn lift_case(id: &str, c: &Compilation, out: &mut String) {
    let n_user = c.mono.toplevels.len();
    let mut input = vec![tagged("gensym", vec![n(gensym_start(c, n_user))]), dump::mono_file(&c.mono)];
    input.extend(env_in(c));
    let mut output = vec![dump::lift_file(&c.lambda)];
    output.extend(env_out(c));
    for (f, v) in lift_not_closed(&c.lambda) {
        writeln!(out, "{}\tUNBOUND\t{}\t{}", id, f, v).unwrap();
    }
    if let Some(k) = file_types_recoverable(&c.mono) {
        writeln!(out, "{}\tTYLOSS\t{}", id, k).unwrap();
    }
    writeln!(out, "{}\tCASE\t{}\t{}\t{}", id, tagged("liftin", input).to_text(), tagged("liftout", output).to_text(), c01::impls_table(&c.genv).to_text()).unwrap();
}

pub(crate) fn one(id: &str, outcome: Outcome, src: &str, expected: Option<&str>, out: &mut String) -> bool {
    match outcome {
        Outcome::Ok(c) => {
            writeln!(out, "{}\tEXPECT\t{}\t{}", id, if expected.is_some() { "out" } else { "none" }, crate::sexp::esc_line(expected.unwrap_or(""))).unwrap();
            writeln!(out, "{}\tSRC\t{}", id, crate::sexp::esc_line(src)).unwrap();
            c01::dump_case(id, &c, out);
            lift_case(id, &c, out);
            true
        }
        Outcome::Err(stage, msgs) => {
            writeln!(out, "{}\tREJECT\t{}\t{}\t{}", id, stage, crate::sexp::esc_line(&msgs.join(" | ")), crate::sexp::esc_line(src)).unwrap();
            false
        }
        Outcome::Panic(m) => {
            writeln!(out, "{}\tPANIC\t{}\t{}", id, crate::sexp::esc_line(&m), crate::sexp::esc_line(src)).unwrap();
            false
        }
    }
}

pub fn main(args: &util::Args) {
    util::quiet_panics();
    let mut out = String::new();
    // a single file given on the command line (replay / debugging)
    if let Some(pos) = args.rest.iter().position(|x| x == "--file") {
        let f = std::path::PathBuf::from(&args.rest[pos + 1]);
        let src = std::fs::read_to_string(&f).expect("read");
        let dir = util::scratch_dir("c08f");
        one(&format!("file:{}", f.file_name().unwrap().to_string_lossy()), util::compile_text(&dir, &src), &src, None, &mut out);
        let _ = std::fs::remove_dir_all(&dir);
        let _ = std::fs::create_dir_all(&args.out);
        std::fs::write(args.out.join("c08.cases.tsv"), out).unwrap();
        return;
    }
    for d in util::corpus_pipeline_dirs() {
        let path = d.join("main.gom");
        let Ok(src) = std::fs::read_to_string(&path) else { continue };
        let id = format!("repo:{}", d.file_name().unwrap().to_string_lossy());
        let expected = std::fs::read_to_string(d.join("main.gom.out")).ok();
        one(&id, util::compile_path(&path, &src), &src, expected.as_deref(), &mut out);
    }
    // (+ the coverage witnesses `corpus/C01/cov-*.gom`: shapes no generator produced, tools/coverage_audit.py)
    for sub in ["C02", "C08", "C01"] {
        let Ok(rd) = std::fs::read_dir(util::verif_root().join("corpus").join(sub)) else { continue };
        let mut files: Vec<_> = rd.filter_map(|e| e.ok().map(|e| e.path())).filter(|p| p.extension().is_some_and(|x| x == "gom")).filter(|p| sub != "C01" || p.file_name().is_some_and(|n| n.to_string_lossy().starts_with("cov-"))).collect();
        files.sort();
        let dir = util::scratch_dir("c08c");
        for f in files {
            let Ok(src) = std::fs::read_to_string(&f) else { continue };
            let id = format!("corpus:{}/{}", sub, f.file_name().unwrap().to_string_lossy());
            one(&id, util::compile_text(&dir, &src), &src, None, &mut out);
        }
        let _ = std::fs::remove_dir_all(&dir);
    }
    // capture sites: every context `collect_captured` has to walk × kind of outer variable × nesting depth
    {
        let dir = util::scratch_dir("c08s");
        let (mut n_site, mut n_rej) = (0usize, 0usize);
        for (ci, cx) in crate::progen::SITE_CTXS.iter().enumerate() {
            for (ki, kind) in crate::progen::SITE_KINDS.iter().enumerate() {
                for depth in 1..=3usize {
                    let mut root = crate::rng::Rng::new(args.seed);
                    let mut rng = root.fork(0x51_7E00 + (ci * 64 + ki * 4 + depth) as u64);
                    let Some(src) = crate::progen::capture_site_program(cx, kind, depth, &mut rng) else { continue };
                    let id = format!("site:{}:{}:d{}", cx, kind, depth);
                    if one(&id, util::compile_text(&dir, &src), &src, None, &mut out) {
                        n_site += 1;
                    } else {
                        n_rej += 1;
                    }
                }
            }
        }
        let _ = std::fs::remove_dir_all(&dir);
        writeln!(out, "#SITES\taccepted={} rejected={}", n_site, n_rej).unwrap();
    }
    // capture sites again, the captured variable spelled like a package-level name: each cell with its
    // alpha-twin and its in-place twin (c08spell.rs)
    crate::c08spell::stream(args, &mut out);
    // generated closure programs: main stream (flows the pass rewrites) and, every fourth
    // program, exactly one flow outside the rewriting
    let total = args.n.unwrap_or(if args.tier == "thorough" { 12000 } else { 1500 });
    let dir = util::scratch_dir("c08");
    let mut feats_total: std::collections::BTreeMap<&'static str, usize> = Default::default();
    let (mut accepted, mut rejected) = (0usize, 0usize);
    for i in 0..total {
        let mut root = crate::rng::Rng::new(args.seed);
        let mut rng = root.fork(i as u64);
        let mut flows = 0u32;
        for b in 0..6 {
            if rng.chance(2, 3) {
                flows |= 1 << b;
            }
        }
        let mut tag = String::new();
        if i % 4 == 3 {
            let (f, name) = crate::progen::flow::OTHER[(i / 4) % crate::progen::flow::OTHER.len()];
            flows |= f;
            tag = format!(":{}", name);
        }
        let cfg = crate::progen::CloCfg { flows, nest: 1 + i % 4, stmts: 1 + i % 3 };
        let (src, feats) = crate::progen::gen_closure_program(&mut rng, cfg);
        let id = format!("gen:{}:{}{}", args.seed, i, tag);
        if one(&id, util::compile_text(&dir, &src), &src, None, &mut out) {
            accepted += 1;
            for (k, v) in feats {
                *feats_total.entry(k).or_default() += v;
            }
        } else {
            rejected += 1;
        }
    }
    let _ = std::fs::remove_dir_all(&dir);
    writeln!(out, "#FEATS\t{} accepted={} rejected={}", feats_total.iter().map(|(k, v)| format!("{}={}", k, v)).collect::<Vec<_>>().join(" "), accepted, rejected).unwrap();
    let _ = std::fs::create_dir_all(&args.out);
    std::fs::write(args.out.join("c08.cases.tsv"), out).unwrap();
}
