//! C08 — the capture-site stream widened by the SPELLING of the captured variable.
//!
//! The `site:` stream (progen.rs: 33 syntactic contexts x kinds of outer variable x nesting depth)
//! always calls the captured variable `x` / `px`.  Lexical scoping says the spelling of a local
//! binder is irrelevant, and C08 says a closure "observes exactly the variables of its defining
//! scope ... with the same result as evaluating its body in place".  So here the variable the
//! innermost closure mentions is spelled like a package-level name (the catalogue of
//! `namecat::SPELLINGS`: enum variant with / without payload in upper and lower case, struct, enum
//! type, function, builtin), declared in the same file or in another file of the package, and is
//! bound by every kind of binder that can carry that spelling.  Every cell is THREE programs:
//!   * `:S`  the closure program with the variable spelled like the package-level name,
//!   * `:A`  its alpha-twin: the same text with the variable called by a fresh name of the same length,
//!   * `:I`  the spelled program with the closure's body evaluated IN PLACE (no closure is created
//!           for it; `a` is bound by `let` to the argument the call would pass).
//! Model-free oracles (tools/props/c08.py): the three are accepted alike, print the same at every
//! stage, and `:S` and `:A` capture the same set (environment structs of the real Lift output,
//! modulo the renaming).
use crate::namecat::{self, Site};
use crate::progen;
use crate::rng::Rng;
use crate::util;
use std::fmt::Write as _;

/// kinds of VALUE the outer variable holds (its use is int-typed in every case)
pub const VALS: [&str; 6] = ["val", "ref", "clo", "topfn", "enumval", "mkfn"];
/// how the outer variable is bound
pub const BINDERS: [&str; 6] = ["fn-param", "closure-param", "struct-shorthand", "let", "let-tuple", "match-arm"];

/// the builtin of the name catalogue is one the site templates call themselves (a local of that
/// name rightly shadows it there): take one that no template mentions
const BUILTIN: &str = "bool_to_string";

pub fn spellings() -> Vec<(&'static str, &'static str)> {
    namecat::SPELLINGS.iter().map(|(k, n)| if *k == "builtin" { (*k, BUILTIN) } else { (*k, *n) }).collect()
}

/// constructors of the file that declares them: in PATTERN position of that file the name is a
/// constructor pattern, not a binder (lower.rs; no property decides that)
fn ctor_like(kind: &str) -> bool {
    kind.starts_with("variant-") || kind == "struct"
}
fn is_bare_pattern(binder: &str) -> bool {
    matches!(binder, "let" | "let-tuple" | "match-arm")
}
pub fn admissible(site: Site, spell_kind: &str) -> Vec<&'static str> {
    BINDERS.iter().copied().filter(|b| !(site == Site::Same && ctor_like(spell_kind) && is_bare_pattern(b))).collect()
}

/// the package-level names (same file, or `types.gom` of the same package)
const DECLS: &str = "enum Shape { Circle(int32), Square(int32), square(int32), Dot, dot }\n\
enum Tone { Hi, Lo }\n\
struct Box { w: int32 }\n\
fn helper(r: int32) -> Shape { Shape::Square(r * 100) }\n";

/// always in main.gom; mentions none of the spellings as a bare name
const SUPPORT: &str = "struct BxS { s: Shape }\n\
struct BxM { m: (int32) -> Shape }\n\
fn area(s: Shape) -> int32 { match s { Shape::Circle(k) => k, Shape::Square(k) => 100 + k, Shape::square(k) => 200 + k, Shape::Dot => 300, Shape::dot => 400, } }\n\
fn make_circle(r: int32) -> Shape { Shape::Circle(r + 1) }\n";

#[derive(Clone)]
pub struct Cell {
    pub ctx: &'static str,
    pub val: &'static str,
    pub binder: &'static str,
    pub depth: usize,
    pub site: Site,
    pub spell_kind: &'static str,
    pub name: &'static str,
    pub rng_key: u64,
}

impl Cell {
    pub fn id(&self) -> String {
        format!("spell:{}:{}:{}:d{}:{}:{}", self.ctx, self.val, self.binder, self.depth, if self.site == Site::Same { "same" } else { "other" }, self.spell_kind)
    }
}

/// (main.gom, types.gom if the names live in another file)
pub fn program(c: &Cell, var: &str, in_place: bool, seed: u64) -> Option<(String, Option<String>)> {
    let mut root = Rng::new(seed);
    let mut rng = root.fork(0x5BE1_1000 + c.rng_key);
    let k = 2 + rng.below(7);
    let c1 = 1 + rng.below(3);
    let harg = 1 + rng.below(4);
    let (ty, value): (&str, String) = match c.val {
        "val" => ("int32", format!("{}", k)),
        "ref" => ("Ref[int32]", format!("ref({})", k)),
        "clo" => ("(int32) -> int32", format!("|z: int32| z + {}", k)),
        "topfn" => ("(int32) -> int32", "topf".to_string()),
        "enumval" => ("Shape", format!("Shape::Circle({})", k)),
        "mkfn" => ("(int32) -> Shape", "make_circle".to_string()),
        _ => return None,
    };
    let e = progen::site_use(c.val, var)?;
    let (bind, body) = progen::site_body(c.ctx, c.val, var, &e, c1)?;
    let mutate = if c.val == "ref" { format!("let _ = ref_set({v}, ref_get({v}) + 5); ", v = var) } else { String::new() };
    let core = progen::site_core(&bind, &body, c.depth, &mutate, in_place);
    let mut items = String::new();
    let host_body = match c.binder {
        "let" => format!("let {var} = {value}; {core}"),
        "let-tuple" => format!("let ({var}, y0) = ({value}, 1); {core}"),
        "match-arm" => {
            writeln!(items, "enum Wv {{ Wr({ty}), Wn }}").unwrap();
            format!("match Wv::Wr({value}) {{ Wv::Wr({var}) => {{ {core} }}, Wv::Wn => 0 }}")
        }
        "fn-param" => {
            writeln!(items, "fn inner({var}: {ty}, px: int32) -> int32 {{ {core} }}").unwrap();
            format!("inner({value}, px)")
        }
        "closure-param" => format!("let outer = |{var}: {ty}| {{ {core} }}; outer({value})"),
        "struct-shorthand" => {
            writeln!(items, "struct Hs {{ {var}: {ty}, q: int32 }}").unwrap();
            format!("match Hs {{ {var}: {value}, q: 0 }} {{ Hs {{ {var}, q: _ }} => {{ {core} }} }}")
        }
        _ => return None,
    };
    let main = format!(
        "{}{}{}fn host(px: int32) -> int32 {{ {} }}\nfn main() {{ let _ = string_println(int32_to_string(host({}))); () }}\n",
        progen::SITE_PRELUDE,
        SUPPORT,
        items,
        host_body,
        harg
    );
    Some(match c.site {
        Site::Same => (format!("{}{}", DECLS, main), None),
        Site::Other => (main, Some(DECLS.to_string())),
    })
}

/// the cells of one run.  Quick: every (context, value kind) once, spelling / binder / depth /
/// declaration site rotating with the seed on strides that are pairwise decorrelated (every context
/// meets 6 of the 8 spellings, every value kind all of them, all 16 (spelling, site) pairs and 44+ of the
/// 48 (spelling, binder) pairs occur); thorough: every (context, value kind, spelling, site),
/// binder and depth rotating.
pub fn cells(seed: u64, thorough: bool) -> Vec<Cell> {
    let sp = spellings();
    let s = seed as usize;
    let mut out = Vec::new();
    for (ci, ctx) in progen::SITE_CTXS.iter().enumerate() {
        for (vi, val) in VALS.iter().enumerate() {
            let picks: Vec<(usize, Site)> = if thorough {
                (0..sp.len()).flat_map(|si| [(si, Site::Same), (si, Site::Other)]).collect()
            } else {
                vec![((ci + vi + s) % sp.len(), if (ci / 2 + 2 * vi + s) % 3 == 0 { Site::Other } else { Site::Same })]
            };
            for (pi, (si, site)) in picks.into_iter().enumerate() {
                let (spell_kind, name) = sp[si];
                let adm = admissible(site, spell_kind);
                let binder = adm[(ci / 3 + vi + s + pi) % adm.len()];
                let depth = 1 + (ci / 4 + vi + s + pi / 2) % 3;
                out.push(Cell { ctx, val, binder, depth, site, spell_kind, name, rng_key: (ci * 64 + vi * 8 + si) as u64 });
            }
        }
    }
    out
}

/// env structs of the REAL Lift output: `closure_env_f1_0=x_0,k_1;closure_env_g_1=`
fn captures(c: &compiler::pipeline::pipeline::Compilation) -> String {
    c.liftenv.lifted_structs.values().map(|d| format!("{}={}", d.name.0, d.fields.iter().map(|(f, _)| f.0.clone()).collect::<Vec<_>>().join(","))).collect::<Vec<_>>().join(";")
}

pub fn stream(args: &util::Args, out: &mut String) {
    let dir = util::scratch_dir("c08p");
    let thorough = args.tier == "thorough";
    let (mut n_cell, mut n_none, mut n_prog, mut n_rej) = (0usize, 0usize, 0usize, 0usize);
    let mut by_spell: std::collections::BTreeMap<String, usize> = Default::default();
    let mut by_binder: std::collections::BTreeMap<&'static str, usize> = Default::default();
    for cell in cells(args.seed, thorough) {
        let fresh = namecat::fresh_for(cell.name);
        let variants = [("S", cell.name.to_string(), false), ("A", fresh.clone(), false), ("I", cell.name.to_string(), true)];
        let mut any = false;
        for (tag, var, in_place) in variants.iter() {
            let Some((main, types)) = program(&cell, var, *in_place, args.seed) else { continue };
            any = true;
            let id = format!("{}:{}", cell.id(), tag);
            let types_path = dir.join("types.gom");
            match &types {
                Some(t) => std::fs::write(&types_path, t).unwrap(),
                None => {
                    let _ = std::fs::remove_file(&types_path);
                }
            }
            let shown = match &types {
                Some(t) => format!("// ---- types.gom (package Main)\n{}// ---- main.gom\n{}", t, main),
                None => main.clone(),
            };
            let outcome = util::compile_text(&dir, &main);
            if let util::Outcome::Ok(c) = &outcome {
                writeln!(out, "{}\tCAPTURES\t{}", id, captures(c)).unwrap();
            }
            writeln!(out, "{}\tSPELL\t{}\t{}\t{}", id, cell.name, fresh, cell.spell_kind).unwrap();
            n_prog += 1;
            if !crate::c08::one(&id, outcome, &shown, None, out) {
                n_rej += 1;
            }
        }
        let _ = std::fs::remove_file(dir.join("types.gom"));
        if any {
            n_cell += 1;
            *by_spell.entry(format!("{}/{}", cell.spell_kind, if cell.site == Site::Same { "same" } else { "other" })).or_default() += 1;
            *by_binder.entry(cell.binder).or_default() += 1;
        } else {
            n_none += 1;
        }
    }
    let _ = std::fs::remove_dir_all(&dir);
    writeln!(
        out,
        "#SPELL\tcells={} nonexistent={} programs={} rejected={} by_spelling={} by_binder={}",
        n_cell,
        n_none,
        n_prog,
        n_rej,
        by_spell.iter().map(|(k, v)| format!("{}:{}", k, v)).collect::<Vec<_>>().join(","),
        by_binder.iter().map(|(k, v)| format!("{}:{}", k, v)).collect::<Vec<_>>().join(",")
    )
    .unwrap();
}
