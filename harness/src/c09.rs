//! C09 — evaluation order and effects.
//!
//! 1. L1 tie of the Lean model of `anf.rs`: for every program the REAL Lift dump
//!    (`compilation.lambda`), the REAL `anf::anf_file` output on a fresh `Gensym`, and the
//!    pipeline's own ANF are written on one `TIE` line; `gomlmodel c09` runs the model on the
//!    Lift dump and compares.
//! 2. Effect-placement generator (G-effects): every expression form with a printing call, a
//!    Ref update or a failing operation in every operand / argument / branch / condition /
//!    discarded-`let` / `go` position.  The generator also computes the trace the program must
//!    have (labels in evaluation order, final Ref value, failure point) — an expectation that
//!    does not go through any model.  All stage dumps are written as for C01, so the Python side
//!    evaluates Core, Mono, Lift, ANF under `Sem` and the Go AST under `Go.Sem`.
use crate::c01;
use crate::dump;
use crate::rng::Rng;
use crate::util::{self, Outcome};
use std::fmt::Write as _;

/// G-fields: named operands (struct literals / struct patterns) written in every order
mod fields;

// ------------------------------------------------------------------ tie

fn tie_line(id: &str, c: &compiler::pipeline::pipeline::Compilation, out: &mut String) {
    let impls = c01::impls_table(&c.genv);
    let fresh = compiler::env::Gensym::new();
    let r = std::panic::catch_unwind(std::panic::AssertUnwindSafe(|| {
        compiler::anf::anf_file(c.liftenv.clone(), &fresh, c.lambda.clone())
    }));
    match r {
        Ok((anf0, _)) => {
            let s = crate::sexp::tagged(
                "tie",
                vec![
                    c01::prog(dump::lift_file(&c.lambda), &impls),
                    c01::prog(dump::anf_file(&anf0), &impls),
                    c01::prog(dump::anf_file(&c.anf), &impls),
                ],
            );
            writeln!(out, "{}\tTIE\t{}", id, s.to_text()).unwrap();
        }
        Err(p) => writeln!(out, "{}\tTIEPANIC\t{}", id, crate::sexp::esc_line(&util::panic_message(p))).unwrap(),
    }
}

// ------------------------------------------------------------------ G-effects

#[derive(Clone, Copy, PartialEq, Debug)]
pub enum Ty {
    I,
    B,
    S,
    U,
}

#[derive(Clone, PartialEq, Debug)]
pub enum V {
    I(i32),
    B(bool),
    S(String),
    U,
}

#[derive(Clone, Copy, PartialEq, Debug)]
pub enum Eff {
    None,
    /// `p_T("h<i>", v)`: a printing call in the position
    Print,
    /// `(if z == 0 { let _ = string_println("h<i>"); v } else { v })`: a print inside a branch block
    PrintBlock,
    /// `u_T(r, d, v)`: `r := r * 10 + d` through a Ref
    RefUpd,
    /// `v / z` with `z = 0`
    FailDiv,
    /// `array_get(arr, big)` with `big` out of range
    FailIdx,
    /// a callee that prints and then divides by zero
    FailCall,
}

/// a "nearly trivial" shape put around the effectful core of a hole: the value is unchanged and
/// nothing else is observable, but the operand is no longer a plain call / variable — what a
/// shallow "is this operand trivial?" test in a pass may wrongly look through
#[derive(Clone, Copy, PartialEq, Debug)]
pub enum Wrap {
    None,
    /// `mk_wT(core).v`: field of a struct returned by a call
    FieldCall,
    /// `WT { v: core }.v`: field of a struct literal
    FieldLit,
    /// `(core, 0).0`
    Proj,
    /// `match OT::ST(core) { OT::ST(q) => q, OT::NT => dflt }`
    Payload,
    /// `-(-core)` / `!(!core)`
    Unary,
    /// `(true && core)` / `(false || core)`
    Logic,
    /// `array_get(arr1_T(core), 0)`
    ArrGet,
    /// `vec_get(vec1_T(core), 0)`
    VecGet,
    /// `int32_to_string(core)` for a string operand
    ToStr,
    /// `idc_T(core)`: call of a closure variable
    Closure,
}

pub const WRAPS: [Wrap; 10] = [
    Wrap::FieldCall,
    Wrap::FieldLit,
    Wrap::Proj,
    Wrap::Payload,
    Wrap::Unary,
    Wrap::Logic,
    Wrap::ArrGet,
    Wrap::VecGet,
    Wrap::ToStr,
    Wrap::Closure,
];

/// the syntactic class of an EFFECT-FREE hole (a hole whose plan entry is `Eff::None`) and of the
/// operands of a `FailDiv` hole: what a pass may classify as "plain / pure / trivial" and then treat
/// the NEIGHBOURING operand (or the whole call-free expression) differently — skip naming it, keep a
/// strict Go operator, hoist it, drop it.  The value of the hole is the same under every shape.
#[derive(Clone, Copy, PartialEq, Debug)]
pub enum Pure {
    /// a literal (the historical `Eff::None` filling)
    Lit,
    /// a `let`-bound variable declared at the start of the function
    Var,
    /// an operator tree over variables and literals: `(z + 3)`, `(z == 0)`, `(big > z)`, `("s" + "")`
    OpTree,
    /// a field of a struct variable: `pw3.v`
    Field,
    /// a unary operator on a variable: `(-pn3)` / `(!pn3)`
    Unary,
    /// a projection of a tuple variable: `pt3.0`
    Proj,
}

pub const PURES: [Pure; 5] = [Pure::Var, Pure::OpTree, Pure::Field, Pure::Unary, Pure::Proj];

#[derive(Clone, Debug, PartialEq)]
enum Ev {
    Print(String),
    Ref(i32),
    Fail(&'static str),
}

const EAGER: usize = 0;
const LAZY: usize = 1;

pub struct G<'a> {
    rng: &'a mut Rng,
    plan: Vec<Eff>,
    base: Eff,
    next: usize,
    uid: usize,
    /// expected events under the two schedules
    exp: [Vec<Ev>; 2],
    dead: [bool; 2],
    /// >0: inside the body of a `go` closure
    in_go: usize,
    /// false: inside a branch that is not selected
    live: bool,
    root: bool,
    top: String,
    pub positions: Vec<String>,
    pos_stack: Vec<String>,
    pub forms_used: Vec<&'static str>,
    /// shape put around every hole it applies to
    pub wrap: Wrap,
    /// how many holes were wrapped
    pub wrapped: usize,
    /// syntactic class of the effect-free holes (and of the operands of a `FailDiv` hole)
    pub pure: Pure,
    /// declarations of the variables the effect-free holes read (spliced at the start of the function)
    pub pre: String,
    /// how many holes were filled with an effect-free expression that is not a literal
    pub pure_placed: usize,
}

fn dflt(t: Ty) -> &'static str {
    match t {
        Ty::I => "0",
        Ty::B => "false",
        Ty::S => "\"\"",
        Ty::U => "()",
    }
}
fn sfx(t: Ty) -> &'static str {
    match t {
        Ty::I => "i",
        Ty::B => "b",
        Ty::S => "s",
        Ty::U => "u",
    }
}
fn lit(v: &V) -> String {
    match v {
        V::I(i) => {
            if *i < 0 {
                format!("(0 - {})", -(*i as i64))
            } else {
                format!("{}", i)
            }
        }
        V::B(b) => format!("{}", b),
        V::S(s) => format!("\"{}\"", s),
        V::U => "()".into(),
    }
}

pub const N_FORMS: usize = 58;

impl<'a> G<'a> {
    pub fn new(rng: &'a mut Rng, plan: Vec<Eff>, base: Eff) -> Self {
        G {
            rng,
            plan,
            base,
            next: 0,
            uid: 0,
            exp: [vec![], vec![]],
            dead: [false, false],
            in_go: 0,
            live: true,
            root: true,
            top: String::new(),
            positions: vec![],
            pos_stack: vec![],
            forms_used: vec![],
            wrap: Wrap::None,
            wrapped: 0,
            pure: Pure::Lit,
            pre: String::new(),
            pure_placed: 0,
        }
    }

    /// an effect-free expression of value `v` in the syntactic class `self.pure`
    fn pure_text(&mut self, t: Ty, v: &V, i: usize) -> String {
        let s = sfx(t);
        let vt = lit(v);
        // classes that do not exist for a type fall back to a variable
        let shape = match (self.pure, t) {
            (Pure::Lit, _) => Pure::Lit,
            (Pure::OpTree | Pure::Field | Pure::Proj, Ty::U) => Pure::Var,
            (Pure::Unary, Ty::S | Ty::U) => Pure::Var,
            (p, _) => p,
        };
        if shape != Pure::Lit {
            self.pure_placed += 1;
        }
        match shape {
            Pure::Lit => vt,
            Pure::Var => {
                write!(self.pre, "let pv{} = {}; ", i, vt).unwrap();
                format!("pv{}", i)
            }
            Pure::OpTree => match (t, v) {
                (Ty::I, _) => format!("(z + {})", vt),
                (Ty::B, V::B(true)) => (if i % 2 == 0 { "(z == 0)" } else { "(big > z)" }).to_string(),
                (Ty::B, _) => (if i % 2 == 0 { "(z != 0)" } else { "(big < z)" }).to_string(),
                _ => format!("({} + \"\")", vt),
            },
            Pure::Field => {
                write!(self.pre, "let pw{} = W{} {{ v: {} }}; ", i, s, vt).unwrap();
                format!("pw{}.v", i)
            }
            Pure::Unary => {
                let neg = match v {
                    V::I(x) => lit(&V::I(x.wrapping_neg())),
                    V::B(b) => lit(&V::B(!*b)),
                    _ => unreachable!(),
                };
                write!(self.pre, "let pn{} = {}; ", i, neg).unwrap();
                if t == Ty::I { format!("(-pn{})", i) } else { format!("(!pn{})", i) }
            }
            Pure::Proj => {
                write!(self.pre, "let pt{} = ({}, 0); ", i, vt).unwrap();
                format!("pt{}.0", i)
            }
        }
    }

    /// the zero divisor of a `FailDiv` hole, in the syntactic class `self.pure`
    fn zero_text(&mut self, i: usize) -> String {
        match self.pure {
            Pure::Lit | Pure::Var => "z".to_string(),
            Pure::OpTree => "(big - 7)".to_string(),
            Pure::Field => {
                write!(self.pre, "let pzw{} = Wi {{ v: z }}; ", i).unwrap();
                format!("pzw{}.v", i)
            }
            Pure::Unary => "(-z)".to_string(),
            Pure::Proj => {
                write!(self.pre, "let pzt{} = (z, 1); ", i).unwrap();
                format!("pzt{}.0", i)
            }
        }
    }
    fn fresh(&mut self, p: &str) -> String {
        self.uid += 1;
        format!("{}{}", p, self.uid)
    }
    fn ev(&mut self, e: Ev) {
        if !self.live {
            return;
        }
        for s in 0..2 {
            if self.dead[s] || (s == LAZY && self.in_go > 0) {
                continue;
            }
            if matches!(e, Ev::Fail(_)) {
                self.dead[s] = true;
            }
            self.exp[s].push(e.clone());
        }
    }
    fn value(&mut self, t: Ty, i: usize) -> V {
        match t {
            Ty::I => V::I(1 + (i as i32 % 7) + self.rng.below(3) as i32),
            Ty::B => V::B(self.rng.chance(1, 2)),
            Ty::S => V::S(format!("s{}", i)),
            Ty::U => V::U,
        }
    }

    /// an atomic hole, inside the wrapper shape of this case (if it applies to the type)
    fn atom(&mut self, t: Ty, want: Option<V>, pos: &str) -> (String, V) {
        let w = self.wrap;
        let i = self.next;
        let s = sfx(t);
        let data = matches!(t, Ty::I | Ty::B | Ty::S);
        if w == Wrap::ToStr && t == Ty::S && want.is_none() {
            // the core is an int32 hole; the operand is its decimal rendering
            let (core, v) = self.atom_core(Ty::I, None, pos, w);
            self.wrapped += 1;
            return (format!("int32_to_string({})", core), V::S(format!("{}", Self::ii(&v))));
        }
        let applies = match w {
            Wrap::None | Wrap::ToStr => false,
            Wrap::FieldCall | Wrap::FieldLit | Wrap::Payload | Wrap::ArrGet | Wrap::VecGet => data,
            Wrap::Proj | Wrap::Closure => true,
            Wrap::Unary => matches!(t, Ty::I | Ty::B),
            Wrap::Logic => t == Ty::B,
        };
        let (core, v) = self.atom_core(t, want, pos, if applies { w } else { Wrap::None });
        if !applies {
            return (core, v);
        }
        self.wrapped += 1;
        let txt = match w {
            Wrap::FieldCall => format!("mk_w{}({}).v", s, core),
            Wrap::FieldLit => format!("W{} {{ v: {} }}.v", s, core),
            Wrap::Proj => format!("({}, 0).0", core),
            Wrap::Payload => format!(
                "(match O{s}::S{s}({core}) {{ O{s}::S{s}(pq{i}) => pq{i}, O{s}::N{s} => {d}, }})",
                s = s,
                core = core,
                i = i,
                d = dflt(t)
            ),
            Wrap::Unary => {
                if t == Ty::I {
                    format!("(-(-{}))", core)
                } else {
                    format!("(!(!{}))", core)
                }
            }
            Wrap::Logic => {
                if i % 2 == 0 {
                    format!("(true && {})", core)
                } else {
                    format!("(false || {})", core)
                }
            }
            Wrap::ArrGet => format!("array_get(arr1_{}({}), 0)", s, core),
            Wrap::VecGet => format!("vec_get(vec1_{}({}), 0)", s, core),
            Wrap::Closure => format!("idc_{}({})", s, core),
            Wrap::None | Wrap::ToStr => core,
        };
        (txt, v)
    }

    /// the place where the plan puts an effect
    fn atom_core(&mut self, t: Ty, want: Option<V>, pos: &str, w: Wrap) -> (String, V) {
        let i = self.next;
        self.next += 1;
        let v = match want {
            Some(v) => v,
            None => self.value(t, i),
        };
        let eff = *self.plan.get(i).unwrap_or(&self.base);
        let path = format!("{}{}{}", self.pos_stack.join("/"), if self.pos_stack.is_empty() { "" } else { "/" }, pos);
        if self.pure != Pure::Lit && matches!(eff, Eff::None | Eff::FailDiv) && w == Wrap::None {
            self.positions.push(format!("{}@Pure{:?}:{:?}", path, self.pure, eff));
        } else {
            self.positions.push(format!("{}@{:?}:{:?}", path, w, eff));
        }
        let l = format!("h{}", i);
        let vt = lit(&v);
        let s = sfx(t);
        let txt = match eff {
            Eff::None => self.pure_text(t, &v, i),
            Eff::Print => {
                self.ev(Ev::Print(l.clone()));
                format!("p_{}(\"{}\", {})", s, l, vt)
            }
            Eff::PrintBlock => {
                self.ev(Ev::Print(l.clone()));
                format!("(if z == 0 {{ let _ = string_println(\"{}\"); {} }} else {{ {} }})", l, vt, vt)
            }
            Eff::RefUpd => {
                let d = (i % 9 + 1) as i32;
                self.ev(Ev::Ref(d));
                format!("u_{}(r, {}, {})", s, d, vt)
            }
            Eff::FailDiv => {
                self.ev(Ev::Fail("integer divide by zero"));
                if self.pure != Pure::Lit {
                    // dividend and divisor in the syntactic class of the case
                    let zt = self.zero_text(i);
                    let num = if t == Ty::I { self.pure_text(Ty::I, &v, i) } else { self.pure_text(Ty::I, &V::I(7), i) };
                    match t {
                        Ty::I => format!("({} / {})", num, zt),
                        Ty::B => format!("(({} / {}) == 1)", num, zt),
                        Ty::S => format!("int32_to_string({} / {})", num, zt),
                        Ty::U => format!("u_of({} / {})", num, zt),
                    }
                } else {
                    match t {
                        Ty::I => format!("({} / z)", vt),
                        Ty::B => "((7 / z) == 1)".to_string(),
                        Ty::S => "int32_to_string(7 / z)".to_string(),
                        Ty::U => "u_of(7 / z)".to_string(),
                    }
                }
            }
            Eff::FailIdx => {
                self.ev(Ev::Fail("index out of range"));
                match t {
                    Ty::I => "array_get(ai, big)".to_string(),
                    Ty::B => "array_get(ab, big)".to_string(),
                    Ty::S => "array_get(asr, big)".to_string(),
                    Ty::U => "u_of(array_get(ai, big))".to_string(),
                }
            }
            Eff::FailCall => {
                self.ev(Ev::Print(l.clone()));
                self.ev(Ev::Fail("integer divide by zero"));
                format!("boom_{}(\"{}\", {}, z)", s, l, vt)
            }
        };
        (txt, v)
    }

    /// a sub-expression of type `t`: an atom at depth 0, otherwise a random form
    fn sub(&mut self, t: Ty, d: usize, want: Option<V>, pos: &str) -> (String, V) {
        if d == 0 || want.is_some() || self.rng.chance(1, 3) {
            return self.atom(t, want, pos);
        }
        let cands = forms_of(t);
        let f = *self.rng.pick(&cands);
        self.pos_stack.push(pos.to_string());
        let was_root = self.root;
        self.root = false;
        let r = self.form(f, d - 1);
        self.root = was_root;
        self.pos_stack.pop();
        r
    }

    /// statements followed by an expression: spliced into the function body at the root,
    /// wrapped in an always-taken `if` branch block elsewhere (goml has no block expression)
    fn blk(&mut self, stmts: String, e: String, t: Ty) -> String {
        if self.root {
            self.top.push_str(&stmts);
            e
        } else {
            format!("(if z == 0 {{ {}{} }} else {{ {} }})", stmts, e, dflt(t))
        }
    }

    fn unselected<R>(&mut self, f: impl FnOnce(&mut Self) -> R) -> R {
        let was = self.live;
        self.live = false;
        let r = f(self);
        self.live = was;
        r
    }
    fn branch<R>(&mut self, selected: bool, f: impl FnOnce(&mut Self) -> R) -> R {
        if selected { f(self) } else { self.unselected(f) }
    }

    pub fn form(&mut self, f: usize, d: usize) -> (String, V) {
        let name = form_name(f);
        self.forms_used.push(name);
        let was_root = self.root;
        // operands of a form are never at the root
        let r = self.form_inner(f, d);
        self.root = was_root;
        r
    }

    fn ii(v: &V) -> i32 {
        if let V::I(i) = v { *i } else { 0 }
    }
    fn bb(v: &V) -> bool {
        if let V::B(b) = v { *b } else { false }
    }
    fn ss(v: &V) -> String {
        if let V::S(s) = v { s.clone() } else { String::new() }
    }

    fn form_inner(&mut self, f: usize, d: usize) -> (String, V) {
        let root = self.root;
        self.root = false;
        match f {
            // ---------------- int32
            0 => {
                let (a, va) = self.sub(Ty::I, d, None, "neg.operand");
                (format!("(-{})", a), V::I(Self::ii(&va).wrapping_neg()))
            }
            1..=3 => {
                let (op, nm) = [("+", "add"), ("-", "sub"), ("*", "mul")][f - 1];
                let (a, va) = self.sub(Ty::I, d, None, &format!("{}.lhs", nm));
                let (b, vb) = self.sub(Ty::I, d, None, &format!("{}.rhs", nm));
                let (x, y) = (Self::ii(&va), Self::ii(&vb));
                let v = match op {
                    "+" => x.wrapping_add(y),
                    "-" => x.wrapping_sub(y),
                    _ => x.wrapping_mul(y),
                };
                (format!("({} {} {})", a, op, b), V::I(v))
            }
            4 => {
                let (a, va) = self.sub(Ty::I, d, None, "div.lhs");
                let (b, vb) = self.atom(Ty::I, Some(V::I(2)), "div.rhs");
                (format!("({} / {})", a, b), V::I(Self::ii(&va).wrapping_div(Self::ii(&vb))))
            }
            5 => {
                let (a, va) = self.sub(Ty::I, d, None, "call.arg0");
                let (b, vb) = self.sub(Ty::I, d, None, "call.arg1");
                let (c, vc) = self.sub(Ty::I, d, None, "call.arg2");
                (format!("f3({}, {}, {})", a, b, c), V::I(Self::ii(&va).wrapping_mul(100).wrapping_add(Self::ii(&vb).wrapping_mul(10)).wrapping_add(Self::ii(&vc))))
            }
            6 => {
                // nested calls: inner call is an argument
                let (a, va) = self.sub(Ty::I, d, None, "call.arg0.call.arg0");
                let (b, vb) = self.sub(Ty::I, d, None, "call.arg0.call.arg1");
                let (c, vc) = self.sub(Ty::I, d, None, "call.arg1");
                (format!("f2(f2({}, {}), {})", a, b, c), V::I(Self::ii(&va).wrapping_sub(Self::ii(&vb)).wrapping_sub(Self::ii(&vc))))
            }
            7 => {
                let (a, va) = self.sub(Ty::I, d, None, "tuple.item0");
                let (b, _) = self.sub(Ty::B, d, None, "tuple.item1");
                let (c, _) = self.sub(Ty::S, d, None, "tuple.item2");
                (format!("({}, {}, {}).0", a, b, c), va)
            }
            8 => {
                let (a, _) = self.sub(Ty::S, d, None, "tuple.item0");
                let (b, vb) = self.sub(Ty::I, d, None, "tuple.item1");
                (format!("({}, {}).1", a, b), vb)
            }
            9 => {
                let (a, va) = self.sub(Ty::I, d, None, "array.item0");
                let (b, vb) = self.sub(Ty::I, d, None, "array.item1");
                let (c, vc) = self.sub(Ty::I, d, None, "array.item2");
                let k = self.rng.below(3);
                let (i, _) = self.atom(Ty::I, Some(V::I(k as i32)), "array_get.index");
                (format!("array_get([{}, {}, {}], {})", a, b, c, i), [va, vb, vc][k].clone())
            }
            10 => {
                let (a, _) = self.sub(Ty::I, d, None, "struct.field0");
                let (b, vb) = self.sub(Ty::I, d, None, "struct.field1");
                let s = self.fresh("st");
                let e = self.blk_at(root, format!("let {} = Sab {{ a: {}, b: {} }}; ", s, a, b), format!("{}.b", s), Ty::I);
                (e, vb)
            }
            11 => {
                let (a, va) = self.sub(Ty::I, d, None, "let.value");
                let (b, vb) = self.sub(Ty::I, d, None, "let.body");
                let x = self.fresh("x");
                let e = self.blk_at(root, format!("let {} = {}; ", x, a), format!("({} + {})", x, b), Ty::I);
                (e, V::I(Self::ii(&va).wrapping_add(Self::ii(&vb))))
            }
            12 => {
                // discarded let, then a value
                let t = [Ty::I, Ty::B, Ty::S, Ty::U][self.rng.below(4)];
                let (a, _) = self.sub(t, d, None, "let-discard.value");
                let (b, vb) = self.sub(Ty::I, d, None, "let-discard.body");
                let e = self.blk_at(root, format!("let _ = {}; ", a), b, Ty::I);
                (e, vb)
            }
            13 => {
                // bound to a name that is never used
                let t = [Ty::I, Ty::B, Ty::S][self.rng.below(3)];
                let (a, _) = self.sub(t, d, None, "let-unused.value");
                let (b, vb) = self.sub(Ty::I, d, None, "let-unused.body");
                let x = self.fresh("unused");
                let e = self.blk_at(root, format!("let {} = {}; ", x, a), b, Ty::I);
                (e, vb)
            }
            14 => {
                let cv = self.rng.chance(1, 2);
                let (c, _) = self.atom(Ty::B, Some(V::B(cv)), "if.cond");
                let (a, va) = self.branch(cv, |g| g.sub(Ty::I, d, None, "if.then"));
                let (b, vb) = self.branch(!cv, |g| g.sub(Ty::I, d, None, "if.else"));
                (format!("(if {} {{ {} }} else {{ {} }})", c, a, b), if cv { va } else { vb })
            }
            15 => {
                // an `if` as the left operand, then another operand
                let cv = self.rng.chance(1, 2);
                let (c, _) = self.atom(Ty::B, Some(V::B(cv)), "add.lhs.if.cond");
                let (a, va) = self.branch(cv, |g| g.sub(Ty::I, d, None, "add.lhs.if.then"));
                let (b, vb) = self.branch(!cv, |g| g.sub(Ty::I, d, None, "add.lhs.if.else"));
                let (e, ve) = self.sub(Ty::I, d, None, "add.rhs");
                let x = if cv { va } else { vb };
                (format!("((if {} {{ {} }} else {{ {} }}) + {})", c, a, b, e), V::I(Self::ii(&x).wrapping_add(Self::ii(&ve))))
            }
            16 => {
                // match on an enum value built in place; only the selected arm runs
                let which = self.rng.below(3);
                let (scrut, payload) = match which {
                    0 => ("Eabc::A".to_string(), 0),
                    1 => {
                        let (a, va) = self.sub(Ty::I, d, None, "match.scrutinee.ctor.arg0");
                        let (b, _) = self.sub(Ty::I, d, None, "match.scrutinee.ctor.arg1");
                        (format!("Eabc::B({}, {})", a, b), Self::ii(&va))
                    }
                    _ => {
                        let (a, va) = self.sub(Ty::I, d, None, "match.scrutinee.ctor.arg0");
                        (format!("Eabc::C({})", a), Self::ii(&va))
                    }
                };
                let (a0, v0) = self.branch(which == 0, |g| g.sub(Ty::I, d, None, "match.arm0"));
                let (a1, v1) = self.branch(which == 1, |g| g.sub(Ty::I, d, None, "match.arm1"));
                let (a2, v2) = self.branch(which == 2, |g| g.sub(Ty::I, d, None, "match.arm2"));
                let (x, y, w) = (self.fresh("mx"), self.fresh("my"), self.fresh("mw"));
                let v = match which {
                    0 => Self::ii(&v0),
                    1 => payload.wrapping_add(Self::ii(&v1)),
                    _ => payload.wrapping_mul(Self::ii(&v2)),
                };
                (
                    format!("(match {} {{ Eabc::A => {}, Eabc::B({}, {}) => ({} + {}), Eabc::C({}) => ({} * {}), }})", scrut, a0, x, y, x, a1, w, w, a2),
                    V::I(v),
                )
            }
            17 => {
                // match on an integer with literal arms and a default
                let k = self.rng.below(3) as i32;
                let (s, _) = self.atom(Ty::I, Some(V::I(k)), "match-int.scrutinee");
                let (a0, v0) = self.branch(k == 0, |g| g.sub(Ty::I, d, None, "match-int.arm0"));
                let (a1, v1) = self.branch(k == 1, |g| g.sub(Ty::I, d, None, "match-int.arm1"));
                let (a2, v2) = self.branch(k == 2, |g| g.sub(Ty::I, d, None, "match-int.default"));
                (format!("(match {} {{ 0 => {}, 1 => {}, _ => {}, }})", s, a0, a1, a2), [v0, v1, v2][k as usize].clone())
            }
            18 => {
                // match on a pair of booleans (decision tree over two columns)
                let (b1, b2) = (self.rng.chance(1, 2), self.rng.chance(1, 2));
                let (s1, _) = self.atom(Ty::B, Some(V::B(b1)), "match-tuple.scrutinee.item0");
                let (s2, _) = self.atom(Ty::B, Some(V::B(b2)), "match-tuple.scrutinee.item1");
                let sel = if b1 && !b2 { 0 } else if !b1 { 1 } else { 2 };
                let (a0, v0) = self.branch(sel == 0, |g| g.sub(Ty::I, d, None, "match-tuple.arm0"));
                let (a1, v1) = self.branch(sel == 1, |g| g.sub(Ty::I, d, None, "match-tuple.arm1"));
                let (a2, v2) = self.branch(sel == 2, |g| g.sub(Ty::I, d, None, "match-tuple.arm2"));
                (
                    format!("(match ({}, {}) {{ (true, false) => {}, (false, _) => {}, _ => {}, }})", s1, s2, a0, a1, a2),
                    [v0, v1, v2][sel].clone(),
                )
            }
            19 => {
                // closure bound, then called: argument first, then the body
                let f = self.fresh("cl");
                let p = self.fresh("cp");
                // the body is generated (text) before the argument but runs after it
                let mark: [usize; 2] = [self.exp[0].len(), self.exp[1].len()];
                let dead0 = self.dead;
                let (body, vb) = self.sub(Ty::I, d, None, "closure.body");
                let body_ev: [Vec<Ev>; 2] = [self.exp[0].split_off(mark[0]), self.exp[1].split_off(mark[1])];
                let dead_body = self.dead;
                self.dead = dead0;
                let (arg, va) = self.sub(Ty::I, d, None, "closure-call.arg");
                for s in 0..2 {
                    if !self.dead[s] {
                        self.exp[s].extend(body_ev[s].clone());
                        self.dead[s] = dead_body[s];
                    }
                }
                let e = self.blk_at(root, format!("let {} = |{}: int32| ({} + {}); ", f, p, p, body), format!("{}({})", f, arg), Ty::I);
                (e, V::I(Self::ii(&va).wrapping_add(Self::ii(&vb))))
            }
            20 => {
                let (a, va) = self.sub(Ty::I, d, None, "ref.arg");
                (format!("ref_get(ref({}))", a), va)
            }
            21 => {
                let (a, _) = self.sub(Ty::I, d, None, "ref.arg");
                let (b, vb) = self.sub(Ty::I, d, None, "ref_set.value");
                let c = self.fresh("cell");
                let e = self.blk_at(root, format!("let {} = ref({}); let _ = ref_set({}, {}); ", c, a, c, b), format!("ref_get({})", c), Ty::I);
                (e, vb)
            }
            22 => {
                // while: the condition is re-evaluated before every iteration
                let n = 1 + self.rng.below(3);
                let c = self.fresh("cnt");
                let acc = self.fresh("acc");
                let mark: [usize; 2] = [self.exp[0].len(), self.exp[1].len()];
                let dead0 = self.dead;
                let (cond, _) = self.atom(Ty::B, Some(V::B(true)), "while.cond");
                let cond_ev: [Vec<Ev>; 2] = [self.exp[0].split_off(mark[0]), self.exp[1].split_off(mark[1])];
                let dead_c = self.dead;
                self.dead = dead0;
                let (body, vb) = self.sub(Ty::I, d, None, "while.body");
                let body_ev: [Vec<Ev>; 2] = [self.exp[0].split_off(mark[0]), self.exp[1].split_off(mark[1])];
                let dead_b = self.dead;
                self.dead = dead0;
                for s in 0..2 {
                    // n iterations: cond, body; then the final cond
                    'it: for it in 0..=n {
                        if self.dead[s] {
                            break 'it;
                        }
                        self.exp[s].extend(cond_ev[s].clone());
                        if dead_c[s] {
                            self.dead[s] = true;
                            break 'it;
                        }
                        if it == n {
                            break 'it;
                        }
                        self.exp[s].extend(body_ev[s].clone());
                        if dead_b[s] {
                            self.dead[s] = true;
                        }
                    }
                }
                let stmts = format!(
                    "let {c} = ref(0); let {acc} = ref(0); let _ = while ({cond} && ref_get({c}) < {n}) {{ let _ = ref_set({acc}, ref_get({acc}) + {body}); let _ = ref_set({c}, ref_get({c}) + 1); () }}; ",
                    c = c,
                    acc = acc,
                    cond = cond,
                    n = n,
                    body = body
                );
                let e = self.blk_at(root, stmts, format!("ref_get({})", acc), Ty::I);
                (e, V::I(Self::ii(&vb).wrapping_mul(n as i32)))
            }
            23 => {
                let (a, va) = self.sub(Ty::S, d, None, "string_len.arg");
                (format!("string_len({})", a), V::I(Self::ss(&va).len() as i32))
            }
            // ---------------- bool
            24 => {
                let (a, va) = self.sub(Ty::B, d, None, "not.operand");
                (format!("(!{})", a), V::B(!Self::bb(&va)))
            }
            25 => {
                let ops = ["<", ">", "<=", ">=", "==", "!="];
                let k = self.rng.below(6);
                let (a, va) = self.sub(Ty::I, d, None, "cmp.lhs");
                let (b, vb) = self.sub(Ty::I, d, None, "cmp.rhs");
                let (x, y) = (Self::ii(&va), Self::ii(&vb));
                let v = [x < y, x > y, x <= y, x >= y, x == y, x != y][k];
                (format!("({} {} {})", a, ops[k], b), V::B(v))
            }
            26 | 27 => {
                // && : the right operand runs only when the left is true
                let lv = f == 26;
                let (a, _) = self.atom(Ty::B, Some(V::B(lv)), "and.lhs");
                let (b, vb) = self.branch(lv, |g| g.sub(Ty::B, d, None, "and.rhs"));
                (format!("({} && {})", a, b), V::B(lv && Self::bb(&vb)))
            }
            28 | 29 => {
                let lv = f == 28;
                let (a, _) = self.atom(Ty::B, Some(V::B(lv)), "or.lhs");
                let (b, vb) = self.branch(!lv, |g| g.sub(Ty::B, d, None, "or.rhs"));
                (format!("({} || {})", a, b), V::B(lv || Self::bb(&vb)))
            }
            30 => {
                // (a && b) || c
                let (x, y) = (self.rng.chance(1, 2), self.rng.chance(1, 2));
                let (a, _) = self.atom(Ty::B, Some(V::B(x)), "or.lhs.and.lhs");
                let (b, _) = self.branch(x, |g| g.atom(Ty::B, Some(V::B(y)), "or.lhs.and.rhs"));
                let l = x && y;
                let (c, vc) = self.branch(!l, |g| g.sub(Ty::B, d, None, "or.rhs"));
                (format!("(({} && {}) || {})", a, b, c), V::B(l || Self::bb(&vc)))
            }
            31 => {
                // a && (b || c) nested on the right
                let (x, y) = (self.rng.chance(1, 2), self.rng.chance(1, 2));
                let (a, _) = self.atom(Ty::B, Some(V::B(x)), "and.lhs");
                let (b, _) = self.branch(x, |g| g.atom(Ty::B, Some(V::B(y)), "and.rhs.or.lhs"));
                let (c, vc) = self.branch(x && !y, |g| g.sub(Ty::B, d, None, "and.rhs.or.rhs"));
                (format!("({} && ({} || {}))", a, b, c), V::B(x && (y || Self::bb(&vc))))
            }
            32 => {
                // && whose right operand is a variable (the branch of anf.rs that keeps EBinary)
                let (a, va) = self.sub(Ty::B, d, None, "and-var.lhs");
                let y = self.rng.chance(1, 2);
                let n = self.fresh("bv");
                let e = self.blk_at(root, format!("let {} = {}; ", n, y), format!("({} && {})", a, n), Ty::B);
                (e, V::B(Self::bb(&va) && y))
            }
            33 => {
                let (a, va) = self.sub(Ty::S, d, None, "str-eq.lhs");
                let (b, vb) = self.sub(Ty::S, d, None, "str-eq.rhs");
                (format!("({} == {})", a, b), V::B(va == vb))
            }
            34 => {
                // && as an `if` condition with effects in both branches
                let (x, y) = (self.rng.chance(1, 2), self.rng.chance(1, 2));
                let (a, _) = self.atom(Ty::B, Some(V::B(x)), "if.cond.and.lhs");
                let (b, _) = self.branch(x, |g| g.atom(Ty::B, Some(V::B(y)), "if.cond.and.rhs"));
                let cv = x && y;
                let (t, vt) = self.branch(cv, |g| g.sub(Ty::B, d, None, "if.then"));
                let (e, ve) = self.branch(!cv, |g| g.sub(Ty::B, d, None, "if.else"));
                (format!("(if {} && {} {{ {} }} else {{ {} }})", a, b, t, e), if cv { vt } else { ve })
            }
            // ---------------- string
            35 => {
                let (a, va) = self.sub(Ty::S, d, None, "concat.lhs");
                let (b, vb) = self.sub(Ty::S, d, None, "concat.rhs");
                (format!("({} + {})", a, b), V::S(Self::ss(&va) + &Self::ss(&vb)))
            }
            36 => {
                let (a, va) = self.sub(Ty::I, d, None, "to_string.arg");
                (format!("int32_to_string({})", a), V::S(format!("{}", Self::ii(&va))))
            }
            37 => {
                // enum constructor arguments, read back by a match
                let (a, va) = self.sub(Ty::S, d, None, "ctor.arg0");
                let (b, vb) = self.sub(Ty::S, d, None, "ctor.arg1");
                let (x, y) = (self.fresh("px"), self.fresh("py"));
                (format!("(match Ess::P({}, {}) {{ Ess::P({}, {}) => ({} + {}), Ess::Q => \"\", }})", a, b, x, y, y, x), V::S(Self::ss(&vb) + &Self::ss(&va)))
            }
            // ---------------- unit
            38 => {
                let (a, va) = self.sub(Ty::S, d, None, "println.arg");
                self.ev(Ev::Print(format!("out:{}", Self::ss(&va))));
                (format!("string_println(\"out:\" + {})", a), V::U)
            }
            39 => {
                // go: one activation, the spawner continues; the captured value is computed first
                let (cap, vc) = self.sub(Ty::S, d, None, "go.captured");
                let cv = self.fresh("cap");
                self.in_go += 1;
                let (body, _) = self.sub(Ty::U, d, None, "go.body");
                self.ev(Ev::Print(format!("spawned:{}", Self::ss(&vc))));
                self.in_go -= 1;
                let (after, _) = self.sub(Ty::U, d, None, "go.after");
                let e = self.blk_at(
                    root,
                    format!("let {cv} = {cap}; let _ = go || {{ let _ = {body}; string_println(\"spawned:\" + {cv}) }}; ", cv = cv, cap = cap, body = body),
                    after,
                    Ty::U,
                );
                (e, V::U)
            }
            40 => {
                let cv = self.rng.chance(1, 2);
                let (c, _) = self.atom(Ty::B, Some(V::B(cv)), "if-unit.cond");
                let (a, _) = self.branch(cv, |g| g.sub(Ty::U, d, None, "if-unit.then"));
                let (b, _) = self.branch(!cv, |g| g.sub(Ty::U, d, None, "if-unit.else"));
                (format!("(if {} {{ {} }} else {{ {} }})", c, a, b), V::U)
            }
            41 => {
                // sequence of discarded effects
                let (a, _) = self.sub(Ty::U, d, None, "seq.first");
                let (b, _) = self.sub(Ty::I, d, None, "seq.second");
                let (c, _) = self.sub(Ty::U, d, None, "seq.last");
                let e = self.blk_at(root, format!("let _ = {}; let _ = {}; ", a, b), c, Ty::U);
                (e, V::U)
            }
            42 => {
                // ref_set with effects in both arguments
                let (a, _) = self.sub(Ty::I, d, None, "ref_set.target.ref.arg");
                let (b, vb) = self.sub(Ty::I, d, None, "ref_set.value");
                let c = self.fresh("cell");
                self.ev(Ev::Print(format!("cell:{}", Self::ii(&vb))));
                let e = self.blk_at(
                    root,
                    format!("let {c} = ref({a}); let _ = ref_set({c}, {b}); ", c = c, a = a, b = b),
                    format!("string_println(\"cell:\" + int32_to_string(ref_get({})))", c),
                    Ty::U,
                );
                (e, V::U)
            }
            // ---------------- destructuring a LITERAL right-hand side: every component is an operand,
            // also the ones a `_` ignores
            44 | 45 | 46 | 47 | 48 | 49 => {
                let nm = form_name(f);
                let k = match f { 44 | 48 => 2 + self.rng.below(2), 45 => 3, _ => 2 };
                let m = self.mask(k);
                let mut pats: Vec<String> = vec![];
                let mut comps: Vec<String> = vec![];
                let mut named: Vec<String> = vec![];
                let mut sum: i32 = 0;
                for j in 0..k {
                    // a named component is an int32; an ignored one may have any type (struct / enum fields are int32)
                    let t = if m[j] || matches!(f, 46 | 47 | 49) { Ty::I } else { [Ty::I, Ty::B, Ty::S, Ty::U][self.rng.below(4)] };
                    let pos = format!("{}.comp{}{}", nm, j, if m[j] { "" } else { "(_)" });
                    let (c, v) = self.sub(t, d, None, &pos);
                    comps.push(c);
                    if m[j] {
                        let x = self.fresh("dp");
                        sum = sum.wrapping_add(Self::ii(&v));
                        named.push(x.clone());
                        pats.push(x);
                    } else {
                        pats.push("_".into());
                    }
                }
                let (tail, vt) = self.sub(Ty::I, d, None, &format!("{}.body", nm));
                named.push(tail);
                let body = format!("({})", named.join(" + "));
                let v = V::I(sum.wrapping_add(Self::ii(&vt)));
                let e = match f {
                    44 => self.blk_at(root, format!("let ({}) = ({}); ", pats.join(", "), comps.join(", ")), body, Ty::I),
                    45 => self.blk_at(
                        root,
                        format!("let (({}, {}), {}) = (({}, {}), {}); ", pats[0], pats[1], pats[2], comps[0], comps[1], comps[2]),
                        body,
                        Ty::I,
                    ),
                    46 => self.blk_at(
                        root,
                        format!("let Sab {{ a: {}, b: {} }} = Sab {{ a: {}, b: {} }}; ", pats[0], pats[1], comps[0], comps[1]),
                        body,
                        Ty::I,
                    ),
                    47 => self.blk_at(root, format!("let One::Mk({}, {}) = One::Mk({}, {}); ", pats[0], pats[1], comps[0], comps[1]), body, Ty::I),
                    48 => format!("(match ({}) {{ ({}) => {}, }})", comps.join(", "), pats.join(", "), body),
                    _ => format!("(match Eabc::B({}, {}) {{ Eabc::B({}, {}) => {}, _ => 0, }})", comps[0], comps[1], pats[0], pats[1], body),
                };
                (e, v)
            }
            50 => {
                // in a loop body, followed by the accumulator and counter updates
                let n = 1 + self.rng.below(3);
                let (cnt, acc) = (self.fresh("cnt"), self.fresh("acc"));
                let m = self.mask(2);
                let ((body, sum), evs, deadb) = self.capture(|g| {
                    let mut pats = vec![];
                    let mut comps = vec![];
                    let mut named = vec!["0".to_string()];
                    let mut sum = 0i32;
                    for j in 0..2 {
                        let pos = format!("destructure-in-loop.comp{}{}", j, if m[j] { "" } else { "(_)" });
                        let (c, v) = g.sub(Ty::I, d, None, &pos);
                        comps.push(c);
                        if m[j] {
                            let x = g.fresh("dp");
                            sum = sum.wrapping_add(Self::ii(&v));
                            named.push(x.clone());
                            pats.push(x);
                        } else {
                            pats.push("_".to_string());
                        }
                    }
                    (
                        format!(
                            "let ({}) = ({}); let _ = ref_set({acc}, ref_get({acc}) + {}); let _ = ref_set({cnt}, ref_get({cnt}) + 1); ",
                            pats.join(", "),
                            comps.join(", "),
                            named.join(" + "),
                            acc = acc,
                            cnt = cnt
                        ),
                        sum,
                    )
                });
                for _ in 0..n {
                    self.replay(&evs, deadb);
                }
                let stmts = format!("let {cnt} = ref(0); let {acc} = ref(0); let _ = while ref_get({cnt}) < {n} {{ {body} }}; ", cnt = cnt, acc = acc, n = n, body = body);
                let e = self.blk_at(root, stmts, format!("ref_get({})", acc), Ty::I);
                (e, V::I(sum.wrapping_mul(n as i32)))
            }
            51 => {
                // in a match arm block
                let (s0, v0) = self.sub(Ty::I, d, None, "destructure-in-arm.scrutinee.ctor.arg0");
                let m = self.mask(2);
                let w = self.fresh("aw");
                let mut pats = vec![];
                let mut comps = vec![];
                let mut named = vec![w.clone()];
                let mut sum = Self::ii(&v0);
                for j in 0..2 {
                    let pos = format!("destructure-in-arm.comp{}{}", j, if m[j] { "" } else { "(_)" });
                    let (c, v) = self.sub(Ty::I, d, None, &pos);
                    comps.push(c);
                    if m[j] {
                        let x = self.fresh("dp");
                        sum = sum.wrapping_add(Self::ii(&v));
                        named.push(x.clone());
                        pats.push(x);
                    } else {
                        pats.push("_".to_string());
                    }
                }
                (
                    format!(
                        "(match Eabc::C({}) {{ Eabc::C({}) => {{ let ({}) = ({}); ({}) }}, _ => 0, }})",
                        s0,
                        w,
                        pats.join(", "),
                        comps.join(", "),
                        named.join(" + ")
                    ),
                    V::I(sum),
                )
            }
            52 => {
                // the destructuring `let` is the last statement of a block
                let (a, _) = self.sub(Ty::U, d, None, "destructure-last-stmt.before");
                let m = self.mask(2);
                let mut pats = vec![];
                let mut comps = vec![];
                for j in 0..2 {
                    let t = [Ty::I, Ty::B, Ty::S, Ty::U][self.rng.below(4)];
                    let pos = format!("destructure-last-stmt.comp{}{}", j, if m[j] { "" } else { "(_)" });
                    let (c, _) = self.sub(t, d, None, &pos);
                    comps.push(c);
                    pats.push(if m[j] { self.fresh("dp") } else { "_".to_string() });
                }
                (format!("(if z == 0 {{ let _ = {}; let ({}) = ({}); }} else {{ () }})", a, pats.join(", "), comps.join(", ")), V::U)
            }
            // ---------------- `go` in every statement position: what follows it still runs
            53 | 54 | 56 => {
                let nm = form_name(f);
                let n = 1 + self.rng.below(3);
                let cnt = self.fresh("cnt");
                let variant = self.rng.below(if f == 53 { 4 } else { 3 });
                let (body, evs, deadb) = self.capture(|g| {
                    let bump = format!("let _ = ref_set({c}, ref_get({c}) + 1); ", c = cnt);
                    let mut go_stmt = |g: &mut Self, tag: &str, as_let: bool| {
                        g.in_go += 1;
                        let (gb, _) = g.sub(Ty::U, d, None, &format!("{}.go-body", nm));
                        g.ev(Ev::Print(format!("spawned:{}", tag)));
                        g.in_go -= 1;
                        format!("{}go || {{ let _ = {}; string_println(\"spawned:{}\") }}; ", if as_let { "let _ = " } else { "" }, gb, tag)
                    };
                    match (f, variant) {
                        // while body: go first / after the counter / last / bound by `let _`
                        (53, 0) => {
                            let g0 = go_stmt(g, "first", false);
                            let (a, _) = g.sub(Ty::U, d, None, "go-in-while.after-go");
                            format!("{}let _ = {}; {}", g0, a, bump)
                        }
                        (53, 1) => {
                            let g0 = go_stmt(g, "middle", false);
                            let (a, _) = g.sub(Ty::U, d, None, "go-in-while.after-go");
                            format!("{}{}let _ = {}; ", bump, g0, a)
                        }
                        (53, 2) => {
                            let (a, _) = g.sub(Ty::U, d, None, "go-in-while.before-go");
                            let g0 = go_stmt(g, "last", false);
                            format!("let _ = {}; {}{}", a, bump, g0)
                        }
                        (53, _) => {
                            let g0 = go_stmt(g, "let", true);
                            let (a, _) = g.sub(Ty::U, d, None, "go-in-while.after-go");
                            format!("{}let _ = {}; {}", g0, a, bump)
                        }
                        // a branch / arm that is a statement of the loop body
                        (54, 0) => {
                            let g0 = go_stmt(g, "if", false);
                            let (a, _) = g.sub(Ty::U, d, None, "go-in-branch-in-while.if.after-go");
                            format!("{}if ref_get({c}) > 0 {{ {}let _ = {}; () }} else {{ () }}; ", bump, g0, a, c = cnt)
                        }
                        (54, 1) => {
                            let g0 = go_stmt(g, "arm", false);
                            let (a, _) = g.sub(Ty::U, d, None, "go-in-branch-in-while.arm.after-go");
                            format!("{}let _ = match ref_get({c}) {{ 0 => (), _ => {{ {}{} }}, }}; ", bump, g0, a, c = cnt)
                        }
                        (54, _) => {
                            // the branch is the tail of the body; the counter moves before it
                            let g0 = go_stmt(g, "tail-if", false);
                            let (a, _) = g.sub(Ty::U, d, None, "go-in-branch-in-while.tail-if.after-go");
                            format!("{}if ref_get({c}) > 0 {{ {}{} }} else {{ () }}", bump, g0, a, c = cnt)
                        }
                        // nested loop: the inner loop's statements after `go`, then the outer ones
                        (_, v) => {
                            let inner = g.fresh("inn");
                            let (ib, ievs, ideadb) = g.capture(|g| {
                                let g0 = go_stmt(g, "inner", v == 2);
                                let (a, _) = g.sub(Ty::U, d, None, "go-in-nested-loop.inner.after-go");
                                format!("{}let _ = {}; let _ = ref_set({i}, ref_get({i}) + 1); ", g0, a, i = inner)
                            });
                            for _ in 0..2 {
                                g.replay(&ievs, ideadb);
                            }
                            let (o, _) = g.sub(Ty::U, d, None, "go-in-nested-loop.outer.after-inner");
                            if v == 0 {
                                format!("let {i} = ref(0); let _ = while ref_get({i}) < 2 {{ {} }}; let _ = {}; {}", ib, o, bump, i = inner)
                            } else {
                                format!("{}let {i} = ref(0); let _ = while ref_get({i}) < 2 {{ {} }}; let _ = {}; ", bump, ib, o, i = inner)
                            }
                        }
                    }
                });
                for _ in 0..n {
                    self.replay(&evs, deadb);
                }
                let (after, _) = self.sub(Ty::U, d, None, &format!("{}.after-loop", nm));
                let stmts = format!("let {c} = ref(0); let _ = while ref_get({c}) < {n} {{ {body} }}; ", c = cnt, n = n, body = body);
                let e = self.blk_at(root, stmts, after, Ty::U);
                (e, V::U)
            }
            55 => {
                // closure body: go, then more statements; the closure is called twice
                let cl = self.fresh("gcl");
                let (body, evs, deadb) = self.capture(|g| {
                    g.in_go += 1;
                    let (gb, _) = g.sub(Ty::U, d, None, "go-in-closure.go-body");
                    g.ev(Ev::Print("spawned:closure".into()));
                    g.in_go -= 1;
                    let (a, _) = g.sub(Ty::U, d, None, "go-in-closure.after-go");
                    format!("go || {{ let _ = {}; string_println(\"spawned:closure\") }}; let _ = {}; cu", gb, a)
                });
                self.replay(&evs, deadb);
                self.replay(&evs, deadb);
                let (after, _) = self.sub(Ty::U, d, None, "go-in-closure.after-calls");
                let e = self.blk_at(
                    root,
                    format!("let {cl} = |cu: int32| {{ {body} }}; let _ = {cl}(1); let _ = {cl}(2); ", cl = cl, body = body),
                    after,
                    Ty::U,
                );
                (e, V::U)
            }
            57 => {
                // function level: go as the first / a middle / the last statement
                let variant = self.rng.below(3);
                let mut go_stmt = |g: &mut Self, tag: &str| {
                    g.in_go += 1;
                    let (gb, _) = g.sub(Ty::U, d, None, "go-fn-level.go-body");
                    g.ev(Ev::Print(format!("spawned:{}", tag)));
                    g.in_go -= 1;
                    format!("go || {{ let _ = {}; string_println(\"spawned:{}\") }}", gb, tag)
                };
                match variant {
                    0 => {
                        let g0 = go_stmt(self, "first");
                        let (a, _) = self.sub(Ty::U, d, None, "go-fn-level.after-go");
                        let (b, _) = self.sub(Ty::U, d, None, "go-fn-level.last");
                        (self.blk_at(root, format!("{}; let _ = {}; ", g0, a), b, Ty::U), V::U)
                    }
                    1 => {
                        let (a, _) = self.sub(Ty::U, d, None, "go-fn-level.before-go");
                        let g0 = go_stmt(self, "middle");
                        let (b, _) = self.sub(Ty::U, d, None, "go-fn-level.last");
                        (self.blk_at(root, format!("let _ = {}; {}; ", a, g0), b, Ty::U), V::U)
                    }
                    _ => {
                        let (a, _) = self.sub(Ty::U, d, None, "go-fn-level.before-go");
                        let g0 = go_stmt(self, "last");
                        (self.blk_at(root, format!("let _ = {}; ", a), format!("({})", g0), Ty::U), V::U)
                    }
                }
            }
            _ => {
                // (form 43) match whose arms are unit effects, scrutinee a nullary constructor
                let which = self.rng.below(2);
                let (a0, _) = self.branch(which == 0, |g| g.sub(Ty::U, d, None, "match-unit.arm0"));
                let (a1, _) = self.branch(which == 1, |g| g.sub(Ty::U, d, None, "match-unit.default"));
                (format!("(match {} {{ Eabc::A => {}, _ => {}, }})", if which == 0 { "Eabc::A" } else { "Eabc::C(1)" }, a0, a1), V::U)
            }
        }
    }

    /// which components of a destructuring pattern are named (`true`) and which are `_`; at least
    /// one `_` three times out of four
    fn mask(&mut self, k: usize) -> Vec<bool> {
        let mut m: Vec<bool> = (0..k).map(|_| self.rng.chance(1, 2)).collect();
        if m.iter().all(|b| *b) && self.rng.chance(3, 4) {
            let j = self.rng.below(k);
            m[j] = false;
        }
        m
    }

    /// generate something whose events happen later / several times: the events are taken out of
    /// the trace and handed back, to be put where they belong with `replay`
    fn capture<R>(&mut self, f: impl FnOnce(&mut Self) -> R) -> (R, [Vec<Ev>; 2], [bool; 2]) {
        let mark: [usize; 2] = [self.exp[0].len(), self.exp[1].len()];
        let dead0 = self.dead;
        let r = f(self);
        let evs: [Vec<Ev>; 2] = [self.exp[0].split_off(mark[0]), self.exp[1].split_off(mark[1])];
        let deadb = self.dead;
        self.dead = dead0;
        (r, evs, deadb)
    }
    fn replay(&mut self, evs: &[Vec<Ev>; 2], deadb: [bool; 2]) {
        for s in 0..2 {
            if self.dead[s] {
                continue;
            }
            self.exp[s].extend(evs[s].clone());
            if deadb[s] {
                self.dead[s] = true;
            }
        }
    }

    fn blk_at(&mut self, root: bool, stmts: String, e: String, t: Ty) -> String {
        let was = self.root;
        self.root = root;
        let r = self.blk(stmts, e, t);
        self.root = was;
        r
    }
}

pub fn form_ty(f: usize) -> Ty {
    match f {
        0..=23 | 44..=51 => Ty::I,
        24..=34 => Ty::B,
        35..=37 => Ty::S,
        _ => Ty::U,
    }
}
fn forms_of(t: Ty) -> Vec<usize> {
    (0..N_FORMS).filter(|f| form_ty(*f) == t).collect()
}
pub fn form_name(f: usize) -> &'static str {
    [
        "neg", "add", "sub", "mul", "div", "call3", "call-nested", "tuple-proj0", "tuple-proj1", "array-get", "struct-field", "let", "let-discard",
        "let-unused", "if", "if-operand", "match-enum", "match-int", "match-tuple-bool", "closure-call", "ref-roundtrip", "ref-set", "while",
        "string_len", "not", "cmp", "and-true", "and-false", "or-true", "or-false", "and-or", "and-nested-or", "and-var-rhs", "str-eq",
        "if-and-cond", "concat", "to_string", "ctor-args", "println", "go", "if-unit", "seq", "ref_set-args", "match-unit",
        "let-tuple-lit", "let-tuple-lit-nested", "let-struct-lit", "let-enum-ctor", "match-tuple-lit", "match-ctor-lit", "destructure-in-loop",
        "destructure-in-arm", "destructure-last-stmt", "go-in-while", "go-in-branch-in-while", "go-in-closure", "go-in-nested-loop", "go-fn-level",
    ][f]
}

const PRELUDE: &str = r#"struct Sab { a: int32, b: int32 }
enum Eabc { A, B(int32, int32), C(int32) }
enum Ess { P(string, string), Q }
enum One { Mk(int32, int32) }
fn p_i(l: string, v: int32) -> int32 { let _ = string_println(l); v }
fn p_b(l: string, v: bool) -> bool { let _ = string_println(l); v }
fn p_s(l: string, v: string) -> string { let _ = string_println(l); v }
fn p_u(l: string, v: unit) -> unit { let _ = string_println(l); v }
fn u_i(r: Ref[int32], d: int32, v: int32) -> int32 { let _ = ref_set(r, ref_get(r) * 10 + d); v }
fn u_b(r: Ref[int32], d: int32, v: bool) -> bool { let _ = ref_set(r, ref_get(r) * 10 + d); v }
fn u_s(r: Ref[int32], d: int32, v: string) -> string { let _ = ref_set(r, ref_get(r) * 10 + d); v }
fn u_u(r: Ref[int32], d: int32, v: unit) -> unit { let _ = ref_set(r, ref_get(r) * 10 + d); v }
fn boom_i(l: string, v: int32, z: int32) -> int32 { let _ = string_println(l); v / z }
fn boom_b(l: string, v: bool, z: int32) -> bool { let _ = string_println(l); (1 / z) == 1 }
fn boom_s(l: string, v: string, z: int32) -> string { let _ = string_println(l); int32_to_string(1 / z) }
fn boom_u(l: string, v: unit, z: int32) -> unit { let _ = string_println(l); u_of(1 / z) }
fn u_of(x: int32) -> unit { () }
fn f2(a: int32, b: int32) -> int32 { a - b }
fn f3(a: int32, b: int32, c: int32) -> int32 { a * 100 + b * 10 + c }
"#;

const PRELUDE_WRAP: &str = r#"struct Wi { v: int32 }
struct Wb { v: bool }
struct Ws { v: string }
enum Oi { Si(int32), Ni }
enum Ob { Sb(bool), Nb }
enum Os { Ss(string), Ns }
fn mk_wi(v: int32) -> Wi { Wi { v: v } }
fn mk_wb(v: bool) -> Wb { Wb { v: v } }
fn mk_ws(v: string) -> Ws { Ws { v: v } }
fn arr1_i(v: int32) -> [int32; 1] { [v] }
fn arr1_b(v: bool) -> [bool; 1] { [v] }
fn arr1_s(v: string) -> [string; 1] { [v] }
fn vec1_i(v: int32) -> Vec[int32] { let a: Vec[int32] = vec_new(); vec_push(a, v) }
fn vec1_b(v: bool) -> Vec[bool] { let a: Vec[bool] = vec_new(); vec_push(a, v) }
fn vec1_s(v: string) -> Vec[string] { let a: Vec[string] = vec_new(); vec_push(a, v) }
"#;

pub struct Case {
    pub src: String,
    /// expected (stdout, status) under the eager and the lazy schedule
    pub expect: [(String, String); 2],
    pub positions: Vec<String>,
    pub forms: Vec<&'static str>,
    pub holes: usize,
    pub wrapped: usize,
    pub pure_placed: usize,
}

/// placement of the root form in the function
#[derive(Clone, Copy, Debug)]
pub enum Place {
    LetThenShow,
    Tail,
    Discarded,
}

pub fn gen_case(rng: &mut Rng, f: usize, depth: usize, plan: Vec<Eff>, base: Eff, place: Place, wrap: Wrap) -> Case {
    gen_case_pure(rng, f, depth, plan, base, place, wrap, Pure::Lit)
}

#[allow(clippy::too_many_arguments)]
pub fn gen_case_pure(rng: &mut Rng, f: usize, depth: usize, plan: Vec<Eff>, base: Eff, place: Place, wrap: Wrap, pure: Pure) -> Case {
    let mut g = G::new(rng, plan, base);
    g.wrap = wrap;
    g.pure = pure;
    let (e, v) = g.form(f, depth);
    let t = form_ty(f);
    let show = |x: &str| match t {
        Ty::I => format!("string_println(\"res:\" + int32_to_string({}))", x),
        Ty::B => format!("string_println(\"res:\" + bool_to_string({}))", x),
        Ty::S => format!("string_println(\"res:\" + {})", x),
        Ty::U => format!("string_println(\"res:\" + unit_to_string({}))", x),
    };
    let shown = match &v {
        V::I(i) => format!("res:{}", i),
        V::B(b) => format!("res:{}", b),
        V::S(s) => format!("res:{}", s),
        V::U => "res:()".to_string(),
    };
    let tyname = match t {
        Ty::I => "int32",
        Ty::B => "bool",
        Ty::S => "string",
        Ty::U => "unit",
    };
    let decls = if wrap == Wrap::Closure {
        "let ai = [1, 2]; let ab = [true, false]; let asr = [\"p\", \"q\"]; let idc_i = |q: int32| q; let idc_b = |q: bool| q; let idc_s = |q: string| q; let idc_u = |q: unit| q; "
    } else {
        "let ai = [1, 2]; let ab = [true, false]; let asr = [\"p\", \"q\"]; "
    };
    let mut src = String::from(PRELUDE);
    if wrap != Wrap::None || pure == Pure::Field {
        src.push_str(PRELUDE_WRAP);
    }
    let decls = format!("{}{}", decls, g.pre);
    let tail_ref = "string_println(\"ref:\" + int32_to_string(ref_get(r)))";
    match place {
        Place::LetThenShow => {
            writeln!(src, "fn run(z: int32, big: int32, r: Ref[int32]) -> unit {{ {}{}let res = {}; let _ = {}; {} }}", decls, g.top, e, show("res"), tail_ref).unwrap();
            writeln!(src, "fn main() {{ let r = ref(0); run(0, 7, r) }}").unwrap();
            g.ev(Ev::Print(shown));
        }
        Place::Tail => {
            writeln!(src, "fn run(z: int32, big: int32, r: Ref[int32]) -> {} {{ {}{}{} }}", tyname, decls, g.top, e).unwrap();
            writeln!(src, "fn main() {{ let r = ref(0); let res = run(0, 7, r); let _ = {}; {} }}", show("res"), tail_ref).unwrap();
            g.ev(Ev::Print(shown));
        }
        Place::Discarded => {
            writeln!(src, "fn run(z: int32, big: int32, r: Ref[int32]) -> unit {{ {}{}let _ = {}; {} }}", decls, g.top, e, tail_ref).unwrap();
            writeln!(src, "fn main() {{ let r = ref(0); run(0, 7, r) }}").unwrap();
        }
    }
    let mut expect: [(String, String); 2] = [(String::new(), String::new()), (String::new(), String::new())];
    for s in 0..2 {
        let mut out = String::new();
        let mut r: i32 = 0;
        let mut status = "ok".to_string();
        for e in &g.exp[s] {
            match e {
                Ev::Print(l) => {
                    out.push_str(l);
                    out.push('\n');
                }
                Ev::Ref(d) => r = r.wrapping_mul(10).wrapping_add(*d),
                Ev::Fail(k) => {
                    status = format!("panic:{}", k);
                    break;
                }
            }
        }
        if status == "ok" {
            out.push_str(&format!("ref:{}\n", r));
        }
        expect[s] = (out, status);
    }
    Case { src, expect, positions: g.positions.clone(), forms: g.forms_used.clone(), holes: g.next, wrapped: g.wrapped, pure_placed: g.pure_placed }
}

fn eff_tag(e: Eff) -> &'static str {
    match e {
        Eff::None => "none",
        Eff::Print => "print",
        Eff::PrintBlock => "printblock",
        Eff::RefUpd => "ref",
        Eff::FailDiv => "faildiv",
        Eff::FailIdx => "failidx",
        Eff::FailCall => "failcall",
    }
}

fn emit(id: &str, case: &Case, dir: &std::path::Path, out: &mut String, stats: &mut Stats) {
    stats.generated += 1;
    match util::compile_text(dir, &case.src) {
        Outcome::Ok(c) => {
            stats.accepted += 1;
            writeln!(out, "{}\tEXPECT\tnone\t", id).unwrap();
            writeln!(out, "{}\tSRC\t{}", id, crate::sexp::esc_line(&case.src)).unwrap();
            writeln!(
                out,
                "{}\tTRACE\t{}\t{}\t{}\t{}",
                id,
                case.expect[EAGER].1,
                crate::sexp::esc_line(&case.expect[EAGER].0),
                case.expect[LAZY].1,
                crate::sexp::esc_line(&case.expect[LAZY].0)
            )
            .unwrap();
            writeln!(out, "{}\tPOS\t{}\t{}", id, case.forms.join(","), case.positions.join(" ")).unwrap();
            c01::dump_case(id, &c, out);
            tie_line(id, &c, out);
        }
        Outcome::Err(stage, msgs) => {
            writeln!(out, "{}\tREJECT\t{}\t{}\t{}", id, stage, crate::sexp::esc_line(&msgs.join(" | ")), crate::sexp::esc_line(&case.src)).unwrap()
        }
        Outcome::Panic(m) => writeln!(out, "{}\tPANIC\t{}\t{}", id, crate::sexp::esc_line(&m), crate::sexp::esc_line(&case.src)).unwrap(),
    }
}

#[derive(Default)]
struct Stats {
    generated: usize,
    accepted: usize,
}

pub fn main(args: &util::Args) {
    util::quiet_panics();
    let mut out = String::new();
    let thorough = args.tier == "thorough";

    // ---- replay of one program
    if let Some(i) = args.rest.iter().position(|a| a == "--file") {
        let f = &args.rest[i + 1];
        let src = std::fs::read_to_string(f).expect("read replay file");
        let dir = util::scratch_dir("c09r");
        let id = "replay";
        match util::compile_text(&dir, &src) {
            Outcome::Ok(c) => {
                writeln!(out, "{}\tSRC\t{}", id, crate::sexp::esc_line(&src)).unwrap();
                c01::dump_case(id, &c, &mut out);
                tie_line(id, &c, &mut out);
            }
            Outcome::Err(stage, msgs) => writeln!(out, "{}\tREJECT\t{}\t{}\t{}", id, stage, crate::sexp::esc_line(&msgs.join(" | ")), crate::sexp::esc_line(&src)).unwrap(),
            Outcome::Panic(m) => writeln!(out, "{}\tPANIC\t{}\t{}", id, crate::sexp::esc_line(&m), crate::sexp::esc_line(&src)).unwrap(),
        }
        let _ = std::fs::remove_dir_all(&dir);
        let _ = std::fs::create_dir_all(&args.out);
        std::fs::write(args.out.join("c09.cases.tsv"), out).unwrap();
        return;
    }

    // ---- (1) tie on the corpus
    for d in util::corpus_pipeline_dirs() {
        let path = d.join("main.gom");
        let Ok(src) = std::fs::read_to_string(&path) else { continue };
        let id = format!("repo:{}", d.file_name().unwrap().to_string_lossy());
        if let Outcome::Ok(c) = util::compile_path(&path, &src) {
            tie_line(&id, &c, &mut out);
        }
    }
    // minimised past failures of this property
    // (+ the coverage witnesses `corpus/C01/cov-*.gom`: shapes no generator produced, tools/coverage_audit.py)
    for sub in ["C09", "C01"] {
        let Ok(rd) = std::fs::read_dir(util::verif_root().join("corpus").join(sub)) else { continue };
        let mut files: Vec<_> = rd.filter_map(|e| e.ok().map(|e| e.path())).filter(|p| p.extension().is_some_and(|x| x == "gom")).filter(|p| sub != "C01" || p.file_name().is_some_and(|n| n.to_string_lossy().starts_with("cov-"))).collect();
        files.sort();
        let dir = util::scratch_dir("c09c");
        for f in files {
            let Ok(src) = std::fs::read_to_string(&f) else { continue };
            // (calls of extern "go" functions are uninterpreted events: their effects are not comparable across stages)
            if sub == "C01" && src.contains("extern \"go\"") {
                continue;
            }
            let id = format!("corpus:{}/{}", sub, f.file_name().unwrap().to_string_lossy());
            match util::compile_text(&dir, &src) {
                Outcome::Ok(c) => {
                    writeln!(out, "{}\tEXPECT\tnone\t", id).unwrap();
                    writeln!(out, "{}\tSRC\t{}", id, crate::sexp::esc_line(&src)).unwrap();
                    c01::dump_case(&id, &c, &mut out);
                    tie_line(&id, &c, &mut out);
                }
                Outcome::Err(stage, msgs) => writeln!(out, "{}\tREJECT\t{}\t{}\t{}", id, stage, crate::sexp::esc_line(&msgs.join(" | ")), crate::sexp::esc_line(&src)).unwrap(),
                Outcome::Panic(m) => writeln!(out, "{}\tPANIC\t{}\t{}", id, crate::sexp::esc_line(&m), crate::sexp::esc_line(&src)).unwrap(),
            }
        }
        let _ = std::fs::remove_dir_all(&dir);
    }

    // ---- (2) tie on G-prog programs
    let dir = util::scratch_dir("c09");
    let n_prog = args.n.unwrap_or(if thorough { 1500 } else { 150 });
    for i in 0..n_prog {
        let mut root = Rng::new(args.seed);
        let mut rng = root.fork(i as u64);
        let cfg = crate::progen::Cfg {
            closure_flows: i % 10 == 9,
            traits: i % 3 != 0,
            generics: i % 2 == 0,
            go_stmt: i % 7 == 3,
            max_depth: 1 + i % 3,
            effects: true,
            wildcard_arrays: false,
            nested_patterns: i % 4 == 1,
            logic_rhs_shapes: i % 5 == 2,
            cov_shapes: i % 6 == 4,
            ..Default::default()
        };
        let (src, _) = crate::progen::gen_program(&mut rng, cfg);
        let id = format!("prog:{}:{}", args.seed, i);
        if let Outcome::Ok(c) = util::compile_text(&dir, &src) {
            tie_line(&id, &c, &mut out);
        }
    }

    // ---- (3) G-effects
    let mut stats = Stats::default();
    let places = [Place::LetThenShow, Place::Tail, Place::Discarded];
    for f in 0..N_FORMS {
        // the destructuring / go-position forms draw their shape (which components are `_`, where the
        // `go` stands) from the stream: more repetitions
        let reps = if thorough { if f >= 44 { 12 } else { 4 } } else if f >= 44 { 4 } else { 1 };
        for rep in 0..reps {
        // how many holes does the form have at depth 0
        let holes = {
            let mut r = Rng::new(args.seed).fork((f * 1000 + rep) as u64);
            gen_case(&mut r, f, 0, vec![], Eff::None, Place::LetThenShow, Wrap::None).holes
        };
        let mut variants: Vec<(String, Vec<Eff>, Eff)> = vec![
            ("print".into(), vec![], Eff::Print),
            ("printblock".into(), vec![], Eff::PrintBlock),
            ("ref".into(), vec![], Eff::RefUpd),
        ];
        for h in 0..holes {
            for e in [Eff::FailDiv, Eff::FailIdx, Eff::FailCall] {
                let mut plan = vec![Eff::Print; holes];
                plan[h] = e;
                variants.push((format!("{}@{}", eff_tag(e), h), plan, Eff::Print));
            }
            // a failing operation among Ref updates
            let mut plan = vec![Eff::RefUpd; holes];
            plan[h] = Eff::FailDiv;
            variants.push((format!("ref+faildiv@{}", h), plan, Eff::RefUpd));
        }
            for (vi, (tag, plan, base)) in variants.iter().enumerate() {
                // the same value choices for every variant of a form (only the effects differ)
                let mut r = Rng::new(args.seed).fork((f * 1000 + rep) as u64);
                let place = places[(vi + rep + f) % 3];
                let case = gen_case(&mut r, f, 0, plan.clone(), *base, place, Wrap::None);
                let id = format!("eff:{}:{}:{}:{}:{:?}", args.seed, form_name(f), rep, tag, place);
                emit(&id, &case, &dir, &mut out, &mut stats);
            }
        }
    }
    // ---- (3b) operands of binary / logical operators inside nearly-trivial wrapper shapes:
    // `lhs && mk(..).f`, `a < (eff(), 0).0`, `l || array_get(arr(eff()), 0)`, … with the left operand
    // deciding and not deciding (forms and-true/and-false/or-true/or-false and the random ones)
    let logical: [usize; 8] = [26, 27, 28, 29, 30, 31, 32, 34];
    let other_bin: [usize; 7] = [1, 2, 3, 4, 25, 33, 35];
    for (wi, w) in WRAPS.iter().enumerate() {
        for (fi, f) in logical.iter().chain(other_bin.iter()).enumerate() {
            let f = *f;
            let is_logical = fi < logical.len();
            let reps = if thorough { 3 } else { 1 };
            for rep in 0..reps {
                let stream = 0x7000_0000u64 + (f * 1000 + wi * 10 + rep) as u64;
                let probe = {
                    let mut r = Rng::new(args.seed).fork(stream);
                    gen_case(&mut r, f, 0, vec![], Eff::None, Place::LetThenShow, *w)
                };
                if probe.wrapped == 0 {
                    continue; // the shape does not apply to any operand type of this form
                }
                let holes = probe.holes;
                let kinds = [Eff::FailDiv, Eff::FailIdx, Eff::FailCall];
                let mut variants: Vec<(String, Vec<Eff>, Eff)> = vec![("print".into(), vec![], Eff::Print)];
                if is_logical || thorough {
                    variants.push(("ref".into(), vec![], Eff::RefUpd));
                }
                if thorough {
                    variants.push(("printblock".into(), vec![], Eff::PrintBlock));
                }
                for h in 0..holes {
                    for (ki, e) in kinds.iter().enumerate() {
                        let chosen = if thorough {
                            true
                        } else if is_logical {
                            ki == (h + wi + f) % 3
                        } else {
                            h == (wi + rep) % holes && ki == (wi + f) % 3
                        };
                        if chosen {
                            let mut plan = vec![Eff::Print; holes];
                            plan[h] = *e;
                            variants.push((format!("{}@{}", eff_tag(*e), h), plan, Eff::Print));
                        }
                    }
                }
                for (vi, (tag, plan, base)) in variants.iter().enumerate() {
                    let mut r = Rng::new(args.seed).fork(stream);
                    let place = places[(vi + wi + f) % 3];
                    let case = gen_case(&mut r, f, 0, plan.clone(), *base, place, *w);
                    let id = format!("wrap:{}:{}:{:?}:{}:{}:{:?}", args.seed, form_name(f), w, rep, tag, place);
                    emit(&id, &case, &dir, &mut out, &mut stats);
                }
            }
        }
    }
    // ---- (3c) effect-free neighbours: ONE hole carries the effect (a print, a Ref update, a failing
    // operation), every other hole is an effect-free expression of one syntactic class (variable,
    // operator tree over variables — the guard idiom `d != 0 && n / d > k` —, field of a struct
    // variable, unary on a variable, tuple projection); with `FailDiv` the whole expression is
    // call-free.  What a "this operand / this expression is plain, no branch / temporary / statement
    // needed" shortcut in any pass decides on, wherever it looks (the operand itself or its sibling).
    for f in 0..N_FORMS {
        let is_op = logical.contains(&f) || other_bin.contains(&f);
        let reps = if thorough { if f >= 44 { 3 } else { 1 } } else { 1 };
        for rep in 0..reps {
            let stream = 0x6000_0000u64 + (f * 1000 + rep) as u64;
            let holes = {
                let mut r = Rng::new(args.seed).fork(stream);
                gen_case(&mut r, f, 0, vec![], Eff::None, Place::LetThenShow, Wrap::None).holes
            };
            let mut vi = 0usize;
            for h in 0..holes {
                for (pi, pure) in PURES.iter().enumerate() {
                    // quick: every class for the operator forms, one rotating class per hole elsewhere
                    if !thorough && !is_op && pi != (f + h + rep) % PURES.len() {
                        continue;
                    }
                    let kinds: &[Eff] = if thorough {
                        &[Eff::Print, Eff::PrintBlock, Eff::RefUpd, Eff::FailDiv, Eff::FailIdx, Eff::FailCall]
                    } else if logical.contains(&f) {
                        &[Eff::Print, Eff::RefUpd, Eff::FailDiv]
                    } else {
                        &[Eff::Print, Eff::FailDiv]
                    };
                    for e in kinds {
                        let mut plan = vec![Eff::None; holes];
                        plan[h] = *e;
                        let mut r = Rng::new(args.seed).fork(stream);
                        let place = places[(vi + rep + f) % 3];
                        vi += 1;
                        let case = gen_case_pure(&mut r, f, 0, plan, Eff::None, place, Wrap::None, *pure);
                        if case.pure_placed == 0 {
                            continue; // no other hole: nothing the classes could change
                        }
                        let id = format!("pure:{}:{}:{:?}:{}:{}@{}:{:?}", args.seed, form_name(f), pure, rep, eff_tag(*e), h, place);
                        emit(&id, &case, &dir, &mut out, &mut stats);
                    }
                }
            }
        }
    }
    // nested compositions in which every hole is, at random, effectful or effect-free of one class
    let n_mix = if thorough { 1500 } else { 120 };
    for i in 0..n_mix {
        let mut r = Rng::new(args.seed).fork(0x5000_0000 + i as u64);
        let f = r.below(N_FORMS);
        let depth = 1 + r.below(2);
        let base = [Eff::Print, Eff::RefUpd, Eff::PrintBlock][r.below(3)];
        let mut plan: Vec<Eff> = (0..16).map(|_| if r.chance(1, 2) { Eff::None } else { base }).collect();
        if r.chance(1, 2) {
            let h = r.below(6);
            plan[h] = [Eff::FailDiv, Eff::FailDiv, Eff::FailIdx, Eff::FailCall][r.below(4)];
        }
        let place = places[r.below(3)];
        let pure = PURES[r.below(PURES.len())];
        let case = gen_case_pure(&mut r, f, depth, plan, base, place, Wrap::None, pure);
        let id = format!("mix:{}:{}:{}:d{}:{:?}:{:?}", args.seed, i, form_name(f), depth, place, pure);
        emit(&id, &case, &dir, &mut out, &mut stats);
    }
    // nested forms: random composition, random effect plan
    let n_nested = if thorough { 4000 } else { 400 };
    for i in 0..n_nested {
        let mut r = Rng::new(args.seed).fork(0x9000_0000 + i as u64);
        let f = r.below(N_FORMS);
        let depth = 1 + r.below(2);
        let base = [Eff::Print, Eff::Print, Eff::RefUpd, Eff::PrintBlock][r.below(4)];
        // at most one failing hole
        let mut plan = vec![];
        if r.chance(1, 2) {
            let h = r.below(8);
            plan = vec![base; h];
            plan.push([Eff::FailDiv, Eff::FailIdx, Eff::FailCall][r.below(3)]);
        }
        let place = places[r.below(3)];
        // every third composition also wraps its holes in one of the nearly-trivial shapes
        let wrap = if i % 3 == 2 { WRAPS[r.below(WRAPS.len())] } else { Wrap::None };
        let case = gen_case(&mut r, f, depth, plan, base, place, wrap);
        let id = format!("nest:{}:{}:{}:d{}:{:?}:{:?}", args.seed, i, form_name(f), depth, place, wrap);
        emit(&id, &case, &dir, &mut out, &mut stats);
    }
    // ---- (3d) named operands written in every order (struct literals, struct patterns): c09/fields.rs
    fields::run(args.seed, thorough, &dir, &mut out, &mut stats);
    writeln!(out, "#FEATS\tgenerated={} accepted={}", stats.generated, stats.accepted).unwrap();
    let _ = std::fs::remove_dir_all(&dir);
    let _ = std::fs::create_dir_all(&args.out);
    std::fs::write(args.out.join("c09.cases.tsv"), out).unwrap();
}
