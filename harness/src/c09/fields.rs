//! C09 — G-fields: operands that are NAMED, written in every order.
//!
//! A struct literal names its operands (`S { c: e0, a: e1, b: e2 }`); the constructor takes them in
//! DECLARATION order, the source evaluates them in WRITTEN order.  Every pass between the two has
//! to keep both orders apart, and any shortcut of the kind "this initialiser already sits in its
//! slot / is the last one / is the only displaced one" is decided by the PERMUTATION, not by the
//! expression.  So this catalogue is the product
//!
//!   every permutation of the 2, 3 and 4 fields of a struct (identity included: the other arm of
//!   the same code)  x  the place the literal stands in (let value, call argument between two
//!   effectful arguments, projected directly, generic struct, fields of four different types, an
//!   initialiser that is itself a permuted literal, two literals in one expression, closure body
//!   run twice, loop body, selected / unselected match arm, `if` condition, right-hand side of a
//!   destructuring `let` whose PATTERN is written in another permutation with `_` components,
//!   scrutinee of a `match` whose arms test / bind the fields in other permutations)  x  effect
//!   plans (a print / a print inside a branch block / a Ref update in every initialiser; a failing
//!   operation of each kind in each initialiser among prints and among Ref updates; one
//!   initialiser that READS the Ref the others update)
//!
//! plus the ten nearly-trivial operand wrappers of `Wrap` around every initialiser and a stream of
//! random compound initialisers.  The oracle is the trace the generator itself writes down while it
//! writes the program text: events in the order the initialisers are written, the value of every
//! field by NAME.  Nothing here is specific to one way of getting the order wrong.
//!
//! Goml has no other named-operand form: enum variants and calls are positional (`ast::EnumDef`
//! variants are `Vec<TypeExpr>`, `ECall.args` is `Vec<Expr>`), so struct literals and struct patterns
//! are the whole family.
use super::{c01, eff_tag, tie_line, Eff, Ev, Place, Stats, Ty, Wrap, EAGER, G, LAZY, PRELUDE, PRELUDE_WRAP, V, WRAPS};
use crate::rng::Rng;
use crate::util::{self, Outcome};
use std::fmt::Write as _;

const FIELD: [&str; 4] = ["a", "b", "c", "d"];

#[derive(Clone, Copy, PartialEq, Debug)]
pub enum Shape {
    LetLit,
    ArgLit,
    ProjLit,
    GenericLit,
    MixedLit,
    NestedLit,
    PairLit,
    ClosureLit,
    LoopLit,
    ArmLit,
    CondLit,
    LetPat,
    MatchPat,
}

pub const SHAPES: [Shape; 13] = [
    Shape::LetLit,
    Shape::ArgLit,
    Shape::ProjLit,
    Shape::GenericLit,
    Shape::MixedLit,
    Shape::NestedLit,
    Shape::PairLit,
    Shape::ClosureLit,
    Shape::LoopLit,
    Shape::ArmLit,
    Shape::CondLit,
    Shape::LetPat,
    Shape::MatchPat,
];

impl Shape {
    fn name(self) -> &'static str {
        match self {
            Shape::LetLit => "fields-let-lit",
            Shape::ArgLit => "fields-arg-lit",
            Shape::ProjLit => "fields-proj-lit",
            Shape::GenericLit => "fields-generic-lit",
            Shape::MixedLit => "fields-mixed-types-lit",
            Shape::NestedLit => "fields-nested-lit",
            Shape::PairLit => "fields-two-lits",
            Shape::ClosureLit => "fields-lit-in-closure",
            Shape::LoopLit => "fields-lit-in-loop",
            Shape::ArmLit => "fields-lit-in-arm",
            Shape::CondLit => "fields-lit-in-cond",
            Shape::LetPat => "fields-let-pattern-of-lit",
            Shape::MatchPat => "fields-match-patterns-of-lit",
        }
    }
    /// the initialisers run exactly once, in text order: the generator can say what a Ref read sees
    fn single_run(self) -> bool {
        !matches!(self, Shape::ClosureLit | Shape::LoopLit)
    }
}

/// all permutations of `0..n`, lexicographic (index 0 is the identity)
pub fn perms(n: usize) -> Vec<Vec<usize>> {
    fn go(rest: &mut Vec<usize>, cur: &mut Vec<usize>, out: &mut Vec<Vec<usize>>) {
        if rest.is_empty() {
            out.push(cur.clone());
            return;
        }
        for i in 0..rest.len() {
            let x = rest.remove(i);
            cur.push(x);
            go(rest, cur, out);
            cur.pop();
            rest.insert(i, x);
        }
    }
    let mut out = vec![];
    go(&mut (0..n).collect(), &mut vec![], &mut out);
    out
}

fn perm_name(p: &[usize]) -> String {
    p.iter().map(|j| FIELD[*j]).collect()
}

/// field types of the struct families
fn family_tys(shape: Shape, n: usize) -> Vec<Ty> {
    match shape {
        Shape::MixedLit => [Ty::S, Ty::I, Ty::B, Ty::U][..n].to_vec(),
        _ => vec![Ty::I; n],
    }
}
fn family_name(shape: Shape, n: usize) -> String {
    match shape {
        Shape::GenericLit => format!("FG{}", n),
        Shape::MixedLit => format!("FM{}", n),
        Shape::NestedLit => format!("FO{}", n),
        _ => format!("F{}", n),
    }
}

/// declarations a case needs (only these: every stage dump carries the whole program)
fn prelude_for(shape: Shape, n: usize) -> String {
    let mut s = String::new();
    let plain = |n: usize| {
        let fs: Vec<String> = (0..n).map(|j| format!("{}: int32", FIELD[j])).collect();
        let mut dg = "s.a".to_string();
        for j in 1..n {
            dg = format!("({} * 10 + s.{})", dg, FIELD[j]);
        }
        format!("struct F{n} {{ {} }}\nfn dg{n}(s: F{n}) -> int32 {{ {} }}\n", fs.join(", "), dg, n = n)
    };
    match shape {
        Shape::GenericLit => {
            let fs: Vec<String> = (0..n).map(|j| format!("{}: T", FIELD[j])).collect();
            writeln!(s, "struct FG{}[T] {{ {} }}", n, fs.join(", ")).unwrap();
        }
        Shape::MixedLit => {
            let tn = ["string", "int32", "bool", "unit"];
            let fs: Vec<String> = (0..n).map(|j| format!("{}: {}", FIELD[j], tn[j])).collect();
            writeln!(s, "struct FM{} {{ {} }}", n, fs.join(", ")).unwrap();
        }
        Shape::NestedLit => {
            s.push_str(&plain(2));
            let fs: Vec<String> = (0..n).map(|j| format!("{}: {}", FIELD[j], if j == 0 { "F2" } else { "int32" })).collect();
            writeln!(s, "struct FO{} {{ {} }}", n, fs.join(", ")).unwrap();
        }
        _ => s.push_str(&plain(n)),
    }
    s
}

/// per-case state next to `G`: which hole reads the Ref, how deep the initialisers are
struct Cx {
    read_at: Option<usize>,
    depth: usize,
    /// hole numbers of the initialisers of the (outer) literal, in written order
    inits: Vec<usize>,
}

impl Cx {
    fn hole(&mut self, g: &mut G, t: Ty, pos: &str, is_init: bool) -> (String, V) {
        let i = g.next;
        if is_init {
            self.inits.push(i);
        }
        if self.read_at == Some(i) && t == Ty::I {
            // an initialiser that OBSERVES what the initialisers written before it did
            g.next += 1;
            let cur = g.exp[EAGER].iter().fold(0i32, |r, e| if let Ev::Ref(d) = e { r.wrapping_mul(10).wrapping_add(*d) } else { r });
            let path = format!("{}{}{}", g.pos_stack.join("/"), if g.pos_stack.is_empty() { "" } else { "/" }, pos);
            g.positions.push(format!("{}@None:RefRead", path));
            return ("ref_get(r)".to_string(), V::I(cur));
        }
        g.sub(t, self.depth, None, pos)
    }

    /// `S { f_p0: hole, f_p1: hole, … }` in the written order `p`; values come back by FIELD
    fn lit(&mut self, g: &mut G, sname: &str, tys: &[Ty], p: &[usize], what: &str, outer: bool) -> (String, Vec<V>) {
        let mut vals = vec![V::U; p.len()];
        let mut parts = vec![];
        let pn = perm_name(p);
        for (i, &fj) in p.iter().enumerate() {
            let pos = format!("{}[{}].init{}({}{})", what, pn, i, FIELD[fj], if fj == i { "=in-declared-slot" } else { "=displaced" });
            let (e, v) = self.hole(g, tys[fj], &pos, outer);
            vals[fj] = v;
            parts.push(format!("{}: {}", FIELD[fj], e));
        }
        (format!("{} {{ {} }}", sname, parts.join(", ")), vals)
    }
}

fn digit(v: &V) -> i32 {
    match v {
        V::I(i) => *i,
        V::S(s) => s.len() as i32,
        V::B(b) => *b as i32,
        V::U => 0,
    }
}
fn horner(ds: impl Iterator<Item = i32>) -> i32 {
    ds.fold(0i32, |acc, d| acc.wrapping_mul(10).wrapping_add(d))
}
fn digit_text(x: &str, t: Ty) -> String {
    match t {
        Ty::I => x.to_string(),
        Ty::S => format!("string_len({})", x),
        Ty::B => format!("(if {} {{ 1 }} else {{ 0 }})", x),
        Ty::U => "0".to_string(),
    }
}
fn horner_text(ds: Vec<String>) -> String {
    let mut it = ds.into_iter();
    let mut acc = it.next().unwrap_or_else(|| "0".to_string());
    for d in it {
        acc = format!("({} * 10 + {})", acc, d);
    }
    acc
}

pub struct FCase {
    pub src: String,
    pub expect: [(String, String); 2],
    pub positions: Vec<String>,
    pub forms: Vec<&'static str>,
    pub holes: usize,
    pub inits: Vec<usize>,
    pub wrapped: usize,
}

#[allow(clippy::too_many_arguments)]
pub fn gen_fields(rng: &mut Rng, shape: Shape, n: usize, p: &[usize], pi: usize, plan: Vec<Eff>, base: Eff, read_at: Option<usize>, depth: usize, place: Place, wrap: Wrap) -> FCase {
    let mut g = G::new(rng, plan, base);
    g.wrap = wrap;
    g.forms_used.push(shape.name());
    let mut cx = Cx { read_at, depth, inits: vec![] };
    let tys = family_tys(shape, n);
    let sname = family_name(shape, n);
    let nm = shape.name();
    let all = perms(n);
    // operands of these shapes are never at the root: only what the shape itself hoists goes to `g.top`
    g.root = false;
    let (e, v): (String, i32) = match shape {
        Shape::LetLit | Shape::GenericLit | Shape::MixedLit => {
            let (l, vals) = cx.lit(&mut g, &sname, &tys, p, nm, true);
            let st = g.fresh("fs");
            let dg = horner_text((0..n).map(|j| digit_text(&format!("{}.{}", st, FIELD[j]), tys[j])).collect());
            (g.blk_at(true, format!("let {} = {}; ", st, l), dg, Ty::I), horner(vals.iter().map(digit)))
        }
        Shape::ArgLit => {
            let (a, va) = cx.hole(&mut g, Ty::I, "fields-arg-lit.arg-before", false);
            let (l, vals) = cx.lit(&mut g, &sname, &tys, p, nm, true);
            let (b, vb) = cx.hole(&mut g, Ty::I, "fields-arg-lit.arg-after", false);
            let d = horner(vals.iter().map(digit));
            (format!("f3({}, dg{}({}), {})", a, n, l, b), G::ii(&va).wrapping_mul(100).wrapping_add(d.wrapping_mul(10)).wrapping_add(G::ii(&vb)))
        }
        Shape::ProjLit => {
            let (l, vals) = cx.lit(&mut g, &sname, &tys, p, nm, true);
            let k = pi % n;
            (format!("{}.{}", l, FIELD[k]), digit(&vals[k]))
        }
        Shape::NestedLit => {
            // field `a` of the outer struct is an F2 whose literal is written in its own order
            let inner = &perms(2)[pi % 2];
            let mut parts = vec![];
            let mut digits = vec![0i32; n + 1];
            let pn = perm_name(p);
            for (i, &fj) in p.iter().enumerate() {
                if fj == 0 {
                    let (l, vals) = cx.lit(&mut g, "F2", &[Ty::I, Ty::I], inner, &format!("{}[{}].init{}(a).inner", nm, pn, i), true);
                    digits[0] = digit(&vals[0]);
                    digits[1] = digit(&vals[1]);
                    parts.push(format!("a: {}", l));
                } else {
                    let pos = format!("{}[{}].init{}({}{})", nm, pn, i, FIELD[fj], if fj == i { "=in-declared-slot" } else { "=displaced" });
                    let (e, v) = cx.hole(&mut g, Ty::I, &pos, true);
                    digits[fj + 1] = digit(&v);
                    parts.push(format!("{}: {}", FIELD[fj], e));
                }
            }
            let st = g.fresh("fs");
            let mut ds = vec![format!("{}.a.a", st), format!("{}.a.b", st)];
            ds.extend((1..n).map(|j| format!("{}.{}", st, FIELD[j])));
            (g.blk_at(true, format!("let {} = {} {{ {} }}; ", st, sname, parts.join(", ")), horner_text(ds), Ty::I), horner(digits.into_iter()))
        }
        Shape::PairLit => {
            // two literals of one struct in one expression: their temporaries must not meet
            let q = &all[(all.len() - 1 - pi) % all.len()];
            let (l1, v1) = cx.lit(&mut g, &sname, &tys, p, "fields-two-lits.first", true);
            let (l2, v2) = cx.lit(&mut g, &sname, &tys, q, "fields-two-lits.second", false);
            (format!("(dg{n}({}) - dg{n}({}))", l1, l2, n = n), horner(v1.iter().map(digit)).wrapping_sub(horner(v2.iter().map(digit))))
        }
        Shape::ClosureLit => {
            let cl = g.fresh("fcl");
            let st = g.fresh("fs");
            let ((body, d), evs, deadb) = g.capture(|g| {
                let (l, vals) = cx.lit(g, &sname, &tys, p, nm, true);
                (format!("let {st} = {l}; (dg{n}({st}) + cu)", st = st, l = l, n = n), horner(vals.iter().map(digit)))
            });
            g.replay(&evs, deadb);
            g.replay(&evs, deadb);
            (g.blk_at(true, format!("let {cl} = |cu: int32| {{ {body} }}; let _ = {cl}(1); ", cl = cl, body = body), format!("{}(2)", cl), Ty::I), d.wrapping_add(2))
        }
        Shape::LoopLit => {
            let (cnt, acc, st) = (g.fresh("cnt"), g.fresh("acc"), g.fresh("fs"));
            let ((body, d), evs, deadb) = g.capture(|g| {
                let (l, vals) = cx.lit(g, &sname, &tys, p, nm, true);
                (
                    format!(
                        "let {st} = {l}; let _ = ref_set({acc}, ref_get({acc}) + dg{n}({st})); let _ = ref_set({cnt}, ref_get({cnt}) + 1); ",
                        st = st,
                        l = l,
                        acc = acc,
                        cnt = cnt,
                        n = n
                    ),
                    horner(vals.iter().map(digit)),
                )
            });
            g.replay(&evs, deadb);
            g.replay(&evs, deadb);
            let stmts = format!("let {cnt} = ref(0); let {acc} = ref(0); let _ = while ref_get({cnt}) < 2 {{ {body} }}; ", cnt = cnt, acc = acc, body = body);
            (g.blk_at(true, stmts, format!("ref_get({})", acc), Ty::I), d.wrapping_mul(2))
        }
        Shape::ArmLit => {
            let (s0, v0) = cx.hole(&mut g, Ty::I, "fields-lit-in-arm.scrutinee.ctor.arg0", false);
            let w = g.fresh("aw");
            let (l1, vals) = cx.lit(&mut g, &sname, &tys, p, "fields-lit-in-arm.selected", true);
            let (l2, _) = g.unselected(|g| cx.lit(g, &sname, &tys, p, "fields-lit-in-arm.unselected", false));
            (
                format!("(match Eabc::C({}) {{ Eabc::C({w}) => ({w} + dg{n}({})), _ => dg{n}({}), }})", s0, l1, l2, w = w, n = n),
                G::ii(&v0).wrapping_add(horner(vals.iter().map(digit))),
            )
        }
        Shape::CondLit => {
            let (l, vals) = cx.lit(&mut g, &sname, &tys, p, nm, true);
            let d = horner(vals.iter().map(digit));
            let sel = d > 0;
            let (a, va) = g.branch(sel, |g| cx.hole(g, Ty::I, "fields-lit-in-cond.then", false));
            let (b, vb) = g.branch(!sel, |g| cx.hole(g, Ty::I, "fields-lit-in-cond.else", false));
            (format!("(if dg{}({}) > 0 {{ {} }} else {{ {} }})", n, l, a, b), if sel { G::ii(&va) } else { G::ii(&vb) })
        }
        Shape::LetPat => {
            // the pattern names the fields in ANOTHER order and ignores some of them: every
            // initialiser is still an operand, and every binder gets the field of its NAME
            let sigma = &all[(pi * 7 + 3) % all.len()];
            let (l, vals) = cx.lit(&mut g, &sname, &tys, p, nm, true);
            let mask: Vec<bool> = (0..n).map(|j| (pi + j) % 3 != 0).collect();
            let mut binder: Vec<Option<String>> = vec![None; n];
            let mut pats = vec![];
            for &fj in sigma.iter() {
                if mask[fj] {
                    let x = g.fresh("fp");
                    pats.push(format!("{}: {}", FIELD[fj], x));
                    binder[fj] = Some(x);
                } else {
                    pats.push(format!("{}: _", FIELD[fj]));
                }
            }
            let dg = horner_text(binder.iter().map(|b| b.clone().unwrap_or_else(|| "0".to_string())).collect());
            let d = horner((0..n).map(|j| if mask[j] { digit(&vals[j]) } else { 0 }));
            g.positions.push(format!("{}.pattern[{}]@None:None", nm, perm_name(sigma)));
            (g.blk_at(true, format!("let {} {{ {} }} = {}; ", sname, pats.join(", "), l), dg, Ty::I), d)
        }
        Shape::MatchPat => {
            // arm 1 tests field k against a value it does not have, arm 2 against the value it has
            // and binds the others, each in its own written order: first match, fields by NAME
            let s1 = &all[(pi * 5 + 1) % all.len()];
            let s2 = &all[(pi * 11 + all.len() - 1) % all.len()];
            let (l, vals) = cx.lit(&mut g, &sname, &tys, p, nm, true);
            // the tested field: the first one (from a rotating start) whose value can be written as a literal pattern
            let k = (0..n).map(|d| (pi + d) % n).find(|&j| (0..i32::MAX).contains(&digit(&vals[j])));
            let vk = k.map(|k| digit(&vals[k])).unwrap_or(0);
            let arm1: Vec<String> = s1.iter().map(|&fj| if Some(fj) == k { format!("{}: {}", FIELD[fj], vk + 1) } else { format!("{}: _", FIELD[fj]) }).collect();
            let mut binder: Vec<String> = vec![String::new(); n];
            let mut arm2 = vec![];
            for &fj in s2.iter() {
                if Some(fj) == k {
                    arm2.push(format!("{}: {}", FIELD[fj], vk));
                    binder[fj] = format!("{}", vk);
                } else {
                    let x = g.fresh("fp");
                    arm2.push(format!("{}: {}", FIELD[fj], x));
                    binder[fj] = x;
                }
            }
            // (no such field: arm 1 would test nothing and match; it is left out)
            let arm1 = if k.is_some() { format!("{} {{ {} }} => (0 - 1), ", sname, arm1.join(", ")) } else { String::new() };
            g.positions.push(format!("{}.arms[{},{}]@None:None", nm, perm_name(s1), perm_name(s2)));
            (
                format!("(match {} {{ {}{s} {{ {} }} => {}, {}}})", l, arm1, arm2.join(", "), horner_text(binder), if k.is_some() { "_ => (0 - 2), " } else { "" }, s = sname),
                horner(vals.iter().map(digit)),
            )
        }
    };
    finish(g, cx, shape, n, e, v, place, wrap)
}

/// the function around the expression and the trace it must have (as `gen_case` does for the forms)
#[allow(clippy::too_many_arguments)]
fn finish(mut g: G, cx: Cx, shape: Shape, n: usize, e: String, v: i32, place: Place, wrap: Wrap) -> FCase {
    let show = |x: &str| format!("string_println(\"res:\" + int32_to_string({}))", x);
    let shown = format!("res:{}", v);
    let decls = if wrap == Wrap::Closure {
        "let ai = [1, 2]; let ab = [true, false]; let asr = [\"p\", \"q\"]; let idc_i = |q: int32| q; let idc_b = |q: bool| q; let idc_s = |q: string| q; let idc_u = |q: unit| q; "
    } else {
        "let ai = [1, 2]; let ab = [true, false]; let asr = [\"p\", \"q\"]; "
    };
    let mut src = String::from(PRELUDE);
    src.push_str(&prelude_for(shape, n));
    if wrap != Wrap::None {
        src.push_str(PRELUDE_WRAP);
    }
    let tail_ref = "string_println(\"ref:\" + int32_to_string(ref_get(r)))";
    match place {
        Place::LetThenShow => {
            writeln!(src, "fn run(z: int32, big: int32, r: Ref[int32]) -> unit {{ {}{}let res = {}; let _ = {}; {} }}", decls, g.top, e, show("res"), tail_ref).unwrap();
            writeln!(src, "fn main() {{ let r = ref(0); run(0, 7, r) }}").unwrap();
            g.ev(Ev::Print(shown));
        }
        Place::Tail => {
            writeln!(src, "fn run(z: int32, big: int32, r: Ref[int32]) -> int32 {{ {}{}{} }}", decls, g.top, e).unwrap();
            writeln!(src, "fn main() {{ let r = ref(0); let res = run(0, 7, r); let _ = {}; {} }}", show("res"), tail_ref).unwrap();
            g.ev(Ev::Print(shown));
        }
        Place::Discarded => {
            writeln!(src, "fn run(z: int32, big: int32, r: Ref[int32]) -> unit {{ {}{}let _ = {}; {} }}", decls, g.top, e, tail_ref).unwrap();
            writeln!(src, "fn main() {{ let r = ref(0); run(0, 7, r) }}").unwrap();
        }
    }
    let mut expect: [(String, String); 2] = [(String::new(), String::new()), (String::new(), String::new())];
    for s in 0..2 {
        let mut out = String::new();
        let mut r: i32 = 0;
        let mut status = "ok".to_string();
        for e in &g.exp[s] {
            match e {
                Ev::Print(l) => {
                    out.push_str(l);
                    out.push('\n');
                }
                Ev::Ref(d) => r = r.wrapping_mul(10).wrapping_add(*d),
                Ev::Fail(k) => {
                    status = format!("panic:{}", k);
                    break;
                }
            }
        }
        if status == "ok" {
            out.push_str(&format!("ref:{}\n", r));
        }
        expect[s] = (out, status);
    }
    FCase { src, expect, positions: g.positions.clone(), forms: g.forms_used.clone(), holes: g.next, inits: cx.inits, wrapped: g.wrapped }
}

fn emit(id: &str, case: &FCase, dir: &std::path::Path, out: &mut String, stats: &mut Stats) {
    stats.generated += 1;
    match util::compile_text(dir, &case.src) {
        Outcome::Ok(c) => {
            stats.accepted += 1;
            writeln!(out, "{}\tEXPECT\tnone\t", id).unwrap();
            writeln!(out, "{}\tSRC\t{}", id, crate::sexp::esc_line(&case.src)).unwrap();
            writeln!(
                out,
                "{}\tTRACE\t{}\t{}\t{}\t{}",
                id,
                case.expect[EAGER].1,
                crate::sexp::esc_line(&case.expect[EAGER].0),
                case.expect[LAZY].1,
                crate::sexp::esc_line(&case.expect[LAZY].0)
            )
            .unwrap();
            writeln!(out, "{}\tPOS\t{}\t{}", id, case.forms.join(","), case.positions.join(" ")).unwrap();
            c01::dump_case(id, &c, out);
            tie_line(id, &c, out);
        }
        Outcome::Err(stage, msgs) => {
            writeln!(out, "{}\tREJECT\t{}\t{}\t{}", id, stage, crate::sexp::esc_line(&msgs.join(" | ")), crate::sexp::esc_line(&case.src)).unwrap()
        }
        Outcome::Panic(m) => writeln!(out, "{}\tPANIC\t{}\t{}", id, crate::sexp::esc_line(&m), crate::sexp::esc_line(&case.src)).unwrap(),
    }
}

struct PlanV {
    tag: String,
    plan: Vec<Eff>,
    base: Eff,
    read_at: Option<usize>,
}

/// effect plans of one (shape, permutation).
/// level 3: every kind of failing operation in every hole, a failing division among Ref updates in every hole, a Ref
///          read in every initialiser (thorough);
/// level 2: one kind per hole (rotating), one failing division among Ref updates, two reading initialisers;
/// level 1: print / Ref update everywhere, one failing hole among prints and one among Ref updates, one reading initialiser;
/// level 0: print everywhere, one failing hole, one reading initialiser (or Ref updates where the body runs twice).
fn plan_variants(holes: usize, inits: &[usize], level: usize, rot: usize, allow_read: bool) -> Vec<PlanV> {
    let pv = |tag: String, plan: Vec<Eff>, base: Eff, read_at: Option<usize>| PlanV { tag, plan, base, read_at };
    let kinds = [Eff::FailDiv, Eff::FailIdx, Eff::FailCall];
    let mut v = vec![pv("print".into(), vec![], Eff::Print, None)];
    if level >= 2 {
        v.push(pv("printblock".into(), vec![], Eff::PrintBlock, None));
    }
    if level >= 1 {
        v.push(pv("ref".into(), vec![], Eff::RefUpd, None));
    }
    for h in 0..holes {
        for (ki, e) in kinds.iter().enumerate() {
            let chosen = match level {
                3 => true,
                2 => ki == (h + rot) % 3,
                _ => h == rot % holes && ki == rot % 3,
            };
            if chosen {
                let mut plan = vec![Eff::Print; holes];
                plan[h] = *e;
                v.push(pv(format!("{}@{}", eff_tag(*e), h), plan, Eff::Print, None));
            }
        }
        if level == 3 || (level >= 1 && h == (rot + 1) % holes) {
            let mut plan = vec![Eff::RefUpd; holes];
            plan[h] = Eff::FailDiv;
            v.push(pv(format!("ref+faildiv@{}", h), plan, Eff::RefUpd, None));
        }
    }
    if allow_read {
        let m = inits.len().max(1);
        for (k, h) in inits.iter().enumerate() {
            if level == 3 || k == rot % m || (level == 2 && k == (rot + 1) % m) {
                v.push(pv(format!("ref+read@{}", h), vec![], Eff::RefUpd, Some(*h)));
            }
        }
    } else if level == 0 {
        v.push(pv("ref".into(), vec![], Eff::RefUpd, None));
    }
    v
}

pub fn run(seed: u64, thorough: bool, dir: &std::path::Path, out: &mut String, stats: &mut Stats) {
    let places = [Place::LetThenShow, Place::Tail, Place::Discarded];
    // ---- (a) shape x permutation x effect plan
    for (si, shape) in SHAPES.iter().enumerate() {
        for n in 2..=4usize {
            let all = perms(n);
            for (pi, p) in all.iter().enumerate() {
                // quick: all 24 orders of four fields for the plain literal, a rotating quarter of them elsewhere;
                // the rotation of holes / kinds moves with the seed
                let plain = *shape == Shape::LetLit;
                let level = if thorough { 3 } else if plain && n <= 3 { 2 } else if plain { 1 } else { 0 };
                if !thorough && !plain && n == 4 && pi % 4 != (si + seed as usize) % 4 {
                    continue;
                }
                let stream = 0x4000_0000u64 + (si * 100_000 + n * 10_000 + pi * 10) as u64;
                let probe = {
                    let mut r = Rng::new(seed).fork(stream);
                    gen_fields(&mut r, *shape, n, p, pi, vec![], Eff::None, None, 0, Place::LetThenShow, Wrap::None)
                };
                let variants = plan_variants(probe.holes, &probe.inits, level, pi + si + n + seed as usize, shape.single_run());
                for (vi, v) in variants.iter().enumerate() {
                    // the same values for every plan of a (shape, permutation): only the effects differ
                    let mut r = Rng::new(seed).fork(stream);
                    let place = places[(vi + pi + si) % 3];
                    let case = gen_fields(&mut r, *shape, n, p, pi, v.plan.clone(), v.base, v.read_at, 0, place, Wrap::None);
                    let id = format!("fld:{}:{}:{}:{}:{}:{:?}", seed, shape.name(), n, perm_name(p), v.tag, place);
                    emit(&id, &case, dir, out, stats);
                }
            }
        }
    }
    // ---- (b) every initialiser inside a nearly-trivial wrapper shape
    for (wi, w) in WRAPS.iter().enumerate() {
        for n in if thorough { 2..=4usize } else { 3..=3usize } {
            let all = perms(n);
            for (pi, p) in all.iter().enumerate() {
                // quick: the identity is the positional path the wrapper streams of the forms already take
                if !thorough && pi == 0 {
                    continue;
                }
                let shape = if (pi + wi) % 2 == 0 { Shape::LetLit } else { Shape::ArgLit };
                let stream = 0x4800_0000u64 + (wi * 100_000 + n * 10_000 + pi * 10) as u64;
                let probe = {
                    let mut r = Rng::new(seed).fork(stream);
                    gen_fields(&mut r, shape, n, p, pi, vec![], Eff::None, None, 0, Place::LetThenShow, *w)
                };
                if probe.wrapped == 0 {
                    continue;
                }
                let mut variants = vec![("print".to_string(), vec![], Eff::Print)];
                let h = (pi + wi) % probe.holes;
                let mut plan = vec![Eff::Print; probe.holes];
                plan[h] = [Eff::FailDiv, Eff::FailIdx, Eff::FailCall][(pi + wi) % 3];
                variants.push((format!("{}@{}", eff_tag(plan[h]), h), plan, Eff::Print));
                if thorough {
                    variants.push(("ref".to_string(), vec![], Eff::RefUpd));
                }
                for (vi, (tag, plan, base)) in variants.iter().enumerate() {
                    let mut r = Rng::new(seed).fork(stream);
                    let place = places[(vi + pi + wi) % 3];
                    let case = gen_fields(&mut r, shape, n, p, pi, plan.clone(), *base, None, 0, place, *w);
                    let id = format!("fldwrap:{}:{}:{:?}:{}:{}:{}:{:?}", seed, shape.name(), w, n, perm_name(p), tag, place);
                    emit(&id, &case, dir, out, stats);
                }
            }
        }
    }
    // ---- (c) compound initialisers: random forms of the effect generator in every slot
    let n_nested = if thorough { 800 } else { 80 };
    for i in 0..n_nested {
        let mut r = Rng::new(seed).fork(0x4c00_0000 + i as u64);
        let shape = SHAPES[r.below(SHAPES.len())];
        let n = 2 + r.below(3);
        let all = perms(n);
        let pi = r.below(all.len());
        let base = [Eff::Print, Eff::Print, Eff::RefUpd, Eff::PrintBlock][r.below(4)];
        let mut plan = vec![];
        if r.chance(1, 2) {
            let h = r.below(8);
            plan = vec![base; h];
            plan.push([Eff::FailDiv, Eff::FailIdx, Eff::FailCall][r.below(3)]);
        }
        let place = places[r.below(3)];
        let wrap = if i % 4 == 3 { WRAPS[r.below(WRAPS.len())] } else { Wrap::None };
        let case = gen_fields(&mut r, shape, n, &all[pi], pi, plan, base, None, 1, place, wrap);
        let id = format!("fldnest:{}:{}:{}:{}:{}:{:?}:{:?}", seed, i, shape.name(), n, perm_name(&all[pi]), place, wrap);
        emit(&id, &case, dir, out, stats);
    }
}
