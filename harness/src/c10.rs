//! C10 — numbers.  Drives the REAL pipeline on generated literal / operator programs and prints, per case,
//! what the real Core IR and the real goast contain.  Streams (second TSV column):
//!   LIT   `let x[: τ] = <digits><suffix>;`          Core `EPrim` + goast `VarDecl` value + printed text
//!   NEG   `let x = -<digits><suffix>;`               negation of a literal (the lexer has no negative literals)
//!   PAT   `match (x: τ) { <digits><suffix> => … }`  goast `switch` case literal
//!   OP    one operator × type × operand shape        goast operator node, operand kinds/types, printed symbol
//!   FLT   float literals (validation only)           Core bits vs Rust's correctly rounded parse
//!   FC    float operators on literal operands (lit op lit, chains, nested, with variables, conditions, call arguments):
//!         the real printed Go text with literal TEXTS kept + the real Core dump
//!   PARSE arbitrary strings through `str::parse::<iN/uN>` (the std function check.rs calls)
//!   EVAL  Rust wrapping arithmetic on operand pairs (third opinion for the Lean operator semantics)
//!   FMT   `iN::to_string` (what `go_literal_from_primitive` prints)
//!   TOSTR the `*_to_string` helpers as `runtime::make_runtime()` really builds them
use crate::rng::Rng;
use crate::sexp::{a, esc_line, l, S};
use crate::util::{self, Args, Outcome};
use compiler::go::goast::{self, Expr, Item, Stmt};
use compiler::go::goty::GoType;
use std::fmt::Write as _;
use std::io::Write as _;

const INT_TYS: [(&str, &str, bool, u32); 8] = [
    ("int8", "i8", true, 8),
    ("int16", "i16", true, 16),
    ("int32", "i32", true, 32),
    ("int64", "i64", true, 64),
    ("uint8", "u8", false, 8),
    ("uint16", "u16", false, 16),
    ("uint32", "u32", false, 32),
    ("uint64", "u64", false, 64),
];

fn go_ty_name(t: &GoType) -> String {
    match t {
        GoType::TBool => "bool".into(),
        GoType::TInt8 => "int8".into(),
        GoType::TInt16 => "int16".into(),
        GoType::TInt32 => "int32".into(),
        GoType::TInt64 => "int64".into(),
        GoType::TUint8 => "uint8".into(),
        GoType::TUint16 => "uint16".into(),
        GoType::TUint32 => "uint32".into(),
        GoType::TUint64 => "uint64".into(),
        GoType::TFloat32 => "float32".into(),
        GoType::TFloat64 => "float64".into(),
        GoType::TString => "string".into(),
        GoType::TUnit => "unit".into(),
        other => format!("{:?}", other).split_whitespace().next().unwrap_or("?").to_string(),
    }
}

fn go_ty_variant(t: &GoType) -> String {
    format!("{:?}", t).split(|c: char| !c.is_alphanumeric()).next().unwrap_or("?").to_string()
}

// ------------------------------------------------------------------ goast walking
fn walk_block<'a>(b: &'a goast::Block, f: &mut dyn FnMut(&'a Stmt), g: &mut dyn FnMut(&'a Expr)) {
    for s in &b.stmts {
        walk_stmt(s, f, g);
    }
}

fn walk_stmt<'a>(s: &'a Stmt, f: &mut dyn FnMut(&'a Stmt), g: &mut dyn FnMut(&'a Expr)) {
    f(s);
    match s {
        Stmt::Expr(e) => walk_expr(e, f, g),
        Stmt::Go { call } => walk_expr(call, f, g),
        Stmt::VarDecl { value, .. } => {
            if let Some(v) = value {
                walk_expr(v, f, g)
            }
        }
        Stmt::Assignment { value, .. } => walk_expr(value, f, g),
        Stmt::FieldAssign { target, value } => {
            walk_expr(target, f, g);
            walk_expr(value, f, g)
        }
        Stmt::PointerAssign { pointer, value } => {
            walk_expr(pointer, f, g);
            walk_expr(value, f, g)
        }
        Stmt::IndexAssign { array, index, value } => {
            walk_expr(array, f, g);
            walk_expr(index, f, g);
            walk_expr(value, f, g)
        }
        Stmt::Return { expr } => {
            if let Some(e) = expr {
                walk_expr(e, f, g)
            }
        }
        Stmt::If { cond, then, else_ } => {
            walk_expr(cond, f, g);
            walk_block(then, f, g);
            if let Some(b) = else_ {
                walk_block(b, f, g)
            }
        }
        Stmt::Loop { body } => walk_block(body, f, g),
        Stmt::Break => {}
        Stmt::SwitchExpr { expr, cases, default } => {
            walk_expr(expr, f, g);
            for (c, b) in cases {
                walk_expr(c, f, g);
                walk_block(b, f, g);
            }
            if let Some(b) = default {
                walk_block(b, f, g)
            }
        }
        Stmt::SwitchType { expr, cases, default, .. } => {
            walk_expr(expr, f, g);
            for (_, b) in cases {
                walk_block(b, f, g);
            }
            if let Some(b) = default {
                walk_block(b, f, g)
            }
        }
    }
}

fn walk_expr<'a>(e: &'a Expr, f: &mut dyn FnMut(&'a Stmt), g: &mut dyn FnMut(&'a Expr)) {
    g(e);
    match e {
        Expr::Call { func, args, .. } => {
            walk_expr(func, f, g);
            for x in args {
                walk_expr(x, f, g)
            }
        }
        Expr::UnaryOp { expr, .. } => walk_expr(expr, f, g),
        Expr::BinaryOp { lhs, rhs, .. } => {
            walk_expr(lhs, f, g);
            walk_expr(rhs, f, g)
        }
        Expr::FieldAccess { obj, .. } => walk_expr(obj, f, g),
        Expr::Index { array, index, .. } => {
            walk_expr(array, f, g);
            walk_expr(index, f, g)
        }
        Expr::Cast { expr, .. } => walk_expr(expr, f, g),
        Expr::StructLiteral { fields, .. } => {
            for (_, x) in fields {
                walk_expr(x, f, g)
            }
        }
        Expr::ArrayLiteral { elems, .. } => {
            for x in elems {
                walk_expr(x, f, g)
            }
        }
        Expr::Block { stmts, expr, .. } => {
            for s in stmts {
                walk_stmt(s, f, g)
            }
            if let Some(x) = expr {
                walk_expr(x, f, g)
            }
        }
        _ => {}
    }
}

fn go_fn<'a>(file: &'a goast::File, name: &str) -> Option<&'a goast::Fn> {
    file.toplevels.iter().find_map(|it| match it {
        Item::Fn(f) if f.name == name => Some(f),
        _ => None,
    })
}

fn render(e: &Expr, goenv: &compiler::go::compile::GlobalGoEnv) -> String {
    let mut w = Vec::new();
    let _ = e.to_doc(goenv).render(400, &mut w);
    String::from_utf8_lossy(&w).to_string()
}

/// operand description: `var:<gotype>` | `lit:<gotype>:<text>` | `other:<gotype>`
fn operand(e: &Expr) -> String {
    match e {
        Expr::Var { ty, .. } => format!("var:{}", go_ty_name(ty)),
        Expr::Int { value, ty } => format!("lit:{}:{}", go_ty_name(ty), value),
        Expr::Float { value, ty } => format!("lit:{}:{}", go_ty_name(ty), value),
        Expr::Bool { value, ty } => format!("lit:{}:{}", go_ty_name(ty), value),
        other => format!("other:{}", go_ty_name(other.get_ty())),
    }
}

// ------------------------------------------------------------------ Core walking (serde: every Core node is Serialize)
fn core_prims(v: &serde_json::Value, out: &mut Vec<(String, serde_json::Value, String)>) {
    match v {
        serde_json::Value::Object(m) => {
            if let Some(p) = m.get("EPrim") {
                if let (Some(val), Some(ty)) = (p.get("value"), p.get("ty")) {
                    if let Some(obj) = val.as_object() {
                        for (variant, inner) in obj {
                            if variant.starts_with("Int") || variant.starts_with("UInt") || variant.starts_with("Float") {
                                let ty_s = ty.as_str().map(|s| s.to_string()).unwrap_or_else(|| ty.to_string());
                                out.push((variant.clone(), inner.get("value").cloned().unwrap_or(serde_json::Value::Null), ty_s));
                            }
                        }
                    }
                }
            }
            for (_, x) in m {
                core_prims(x, out);
            }
        }
        serde_json::Value::Array(xs) => {
            for x in xs {
                core_prims(x, out)
            }
        }
        _ => {}
    }
}

fn classify(stage: &str, msgs: &[String]) -> String {
    let mut cls: Vec<String> = Vec::new();
    for m in msgs {
        let c = if let Some(i) = m.find("does not fit in ") {
            if m.starts_with("Integer literal") || m.starts_with("Float literal") {
                Some(format!("fit:{}", m[i + 16..].trim()))
            } else {
                None
            }
        } else if m.starts_with("Invalid integer literal") {
            Some("invalid".to_string())
        } else if m.starts_with("Invalid float literal") {
            Some("invalid-float".to_string())
        } else if m.starts_with("Types are not equal") {
            Some("mismatch".to_string())
        } else if m.starts_with("Float literal must be finite") {
            Some("finite".to_string())
        } else {
            None
        };
        if let Some(c) = c {
            if !cls.contains(&c) {
                cls.push(c);
            }
        }
    }
    cls.sort();
    if cls.is_empty() {
        format!("reject {} other:{}", stage, msgs.first().map(|s| s.replace(' ', "_")).unwrap_or_default())
    } else {
        format!("reject {} {}", stage, cls.join("+"))
    }
}

struct Out {
    f: std::io::BufWriter<std::fs::File>,
    n: usize,
    dir: std::path::PathBuf,
}

impl Out {
    fn case(&mut self, kind: &str, input: S, outcome: &str, src: &str) {
        self.n += 1;
        let _ = writeln!(self.f, "{}\t{}\t{}\t{}\t{}", self.n, kind, input.to_text(), esc_line(outcome), esc_line(src));
    }
    fn case_x(&mut self, kind: &str, input: S, outcome: &str, src: &str, extra: &str) {
        self.n += 1;
        let _ = writeln!(self.f, "{}\t{}\t{}\t{}\t{}\t{}", self.n, kind, input.to_text(), esc_line(outcome), esc_line(src), extra);
    }
    fn compile(&mut self, src: &str) -> Outcome {
        let d = self.dir.join(format!("p{}", self.n % 64));
        util::compile_text(&d, src)
    }
}

fn ty_of_suffix(sfx: &str) -> &'static str {
    match sfx {
        "" | "i32" => "int32",
        "i8" => "int8",
        "i16" => "int16",
        "i64" => "int64",
        "u8" => "uint8",
        "u16" => "uint16",
        "u32" => "uint32",
        "u64" => "uint64",
        "f32" => "float32",
        "f64" => "float64",
        _ => "int32",
    }
}

// ------------------------------------------------------------------ LIT
fn lit_case(out: &mut Out, digits: &str, sfx: &str, annot: &str) {
    let ty = ty_of_suffix(sfx);
    let ann = if annot.is_empty() { String::new() } else { format!(": {}", annot) };
    let src = format!(
        "fn main() -> unit {{\n    let x{} = {}{};\n    let _ = string_println({}_to_string(x));\n    ()\n}}\n",
        ann, digits, sfx, ty
    );
    let res = match out.compile(&src) {
        Outcome::Ok(c) => {
            let mut prims = Vec::new();
            if let Ok(v) = serde_json::to_value(&c.core) {
                core_prims(&v, &mut prims);
            }
            let mut decls: Vec<(String, String, String)> = Vec::new(); // (decl type, literal type, literal text)
            if let Some(f) = go_fn(&c.go, "main0") {
                walk_block(
                    &f.body,
                    &mut |s| {
                        if let Stmt::VarDecl { name, ty, value: Some(Expr::Int { value, ty: lty }) } = s {
                            if name.starts_with("x__") {
                                decls.push((go_ty_name(ty), go_ty_name(lty), value.clone()));
                            }
                        }
                    },
                    &mut |_| {},
                );
            }
            let text = c.go.to_pretty(&c.goenv, 120);
            let txt = text
                .lines()
                .find_map(|ln| {
                    let t = ln.trim();
                    let rest = t.strip_prefix("var x__")?;
                    let (lhs, rhs) = rest.split_once(" = ")?;
                    let ty = lhs.split_whitespace().nth(1)?;
                    Some(format!("{}:{}", ty, rhs))
                })
                .unwrap_or_else(|| "?".to_string());
            if prims.len() == 1 && decls.len() == 1 {
                let (pv, val, tty) = &prims[0];
                let (dty, lty, ltxt) = &decls[0];
                format!("accept prim={} val={} tast={} goty={} golit={} declty={} txt={}", pv, val, tty, lty, ltxt, dty, txt)
            } else {
                format!("accept-unreadable prims={} decls={} txt={}", prims.len(), decls.len(), txt)
            }
        }
        Outcome::Err(stage, msgs) => classify(stage, &msgs),
        Outcome::Panic(m) => format!("panic {}", m.replace(['\n', '\t'], " ")),
    };
    out.case("LIT", l(vec![a("lit"), a(digits), a(if sfx.is_empty() { "-" } else { sfx }), a(if annot.is_empty() { "-" } else { annot })]), &res, &src);
}

// ------------------------------------------------------------------ NEG: `let x = -<digits><suffix>;` (the `-` is the negation operator)
fn neg_case(out: &mut Out, digits: &str, sfx: &str) {
    let ty = ty_of_suffix(sfx);
    let src = format!(
        "fn main() -> unit {{\n    let x = -{}{};\n    let _ = string_println({}_to_string(x));\n    ()\n}}\n",
        digits, sfx, ty
    );
    let res = match out.compile(&src) {
        Outcome::Ok(c) => {
            let mut prims = Vec::new();
            if let Ok(v) = serde_json::to_value(&c.core) {
                core_prims(&v, &mut prims);
            }
            let mut decls: Vec<String> = Vec::new();
            if let Some(f) = go_fn(&c.go, "main0") {
                walk_block(
                    &f.body,
                    &mut |s| {
                        if let Stmt::VarDecl { name, ty, value: Some(Expr::UnaryOp { op, expr, ty: uty }) } = s {
                            if name.starts_with("x__") {
                                decls.push(format!("goop={:?} arg={} goty={} declty={}", op, operand(expr), go_ty_name(uty), go_ty_name(ty)));
                            }
                        }
                    },
                    &mut |_| {},
                );
            }
            let text = c.go.to_pretty(&c.goenv, 120);
            let txt = text
                .lines()
                .find_map(|ln| {
                    let rest = ln.trim().strip_prefix("var x__")?;
                    let (lhs, rhs) = rest.split_once(" = ")?;
                    Some(format!("{}:{}", lhs.split_whitespace().nth(1)?, rhs))
                })
                .unwrap_or_else(|| "?".to_string());
            if prims.len() == 1 && decls.len() == 1 {
                format!("accept prim={} val={} tast={} {} txt={}", prims[0].0, prims[0].1, prims[0].2, decls[0], txt)
            } else {
                format!("accept-unreadable prims={} decls={} txt={}", prims.len(), decls.len(), txt)
            }
        }
        Outcome::Err(stage, msgs) => classify(stage, &msgs),
        Outcome::Panic(m) => format!("panic {}", m.replace(['\n', '\t'], " ")),
    };
    out.case("NEG", l(vec![a("neg"), a(digits), a(if sfx.is_empty() { "-" } else { sfx })]), &res, &src);
}

// ------------------------------------------------------------------ PAT
/// scrutinee shapes.  `param`, `letparam`, `neg`: the scrutinee's type is KNOWN when the pattern is checked.
/// `arith`, `let`, `closure`, `generic`, `ifexpr`: it is still a type variable then and is INFERRED only when the
/// function's constraints are solved (operator result, un-annotated let of one, closure parameter, generic call
/// result, if-expression result).
pub const PAT_SHAPES_KNOWN: [&str; 3] = ["param", "letparam", "neg"];
pub const PAT_SHAPES_INFERRED: [&str; 5] = ["arith", "let", "closure", "generic", "ifexpr"];

fn pat_case(out: &mut Out, digits: &str, sfx: &str, scrut: &str, shape: &str) {
    let arms = format!("{{\n        {}{} => \"hit\",\n        _ => \"miss\",\n    }}", digits, sfx);
    let (pre, body) = match shape {
        "param" => (String::new(), format!("match a {}", arms)),
        "letparam" => (String::new(), format!("let s = a;\n    match s {}", arms)),
        "neg" => (String::new(), format!("match -a {}", arms)),
        "arith" => (String::new(), format!("match a + b {}", arms)),
        "let" => (String::new(), format!("let s = a - b;\n    match s {}", arms)),
        "closure" => (String::new(), format!("let g = |x| match x {};\n    g(a)", arms)),
        "generic" => ("fn id[T](x: T) -> T {\n    x\n}\n".to_string(), format!("match id(a) {}", arms)),
        _ => (String::new(), format!("match (if c {{ a }} else {{ b }}) {}", arms)),
    };
    let sx = INT_TYS.iter().find(|r| r.0 == scrut).map(|r| r.1).unwrap_or("i32");
    let src = format!(
        "{pre}fn f(a: {t}, b: {t}, c: bool) -> string {{\n    {body}\n}}\nfn main() -> unit {{\n    let _ = string_println(f(1{sx}, 2{sx}, true));\n    ()\n}}\n",
        pre = pre,
        t = scrut,
        body = body,
        sx = sx
    );
    let res = match out.compile(&src) {
        Outcome::Ok(c) => {
            // the pattern key in Core: `f` contains no other numeric literal
            let mut prims = Vec::new();
            for func in c.core.toplevels.iter().filter(|func| func.name == "f") {
                if let Ok(v) = serde_json::to_value(func) {
                    core_prims(&v, &mut prims);
                }
            }
            let core = prims.iter().map(|(pv, val, ty)| format!("{}:{}:{}", pv, val, ty)).collect::<Vec<_>>().join(",");
            let runtime: Vec<String> = compiler::go::runtime::make_runtime()
                .into_iter()
                .filter_map(|it| if let Item::Fn(f) = it { Some(f.name) } else { None })
                .collect();
            let mut cases: Vec<String> = Vec::new();
            for it in &c.go.toplevels {
                if let Item::Fn(f) = it {
                    if runtime.contains(&f.name) {
                        continue;
                    }
                    walk_block(
                        &f.body,
                        &mut |s| {
                            if let Stmt::SwitchExpr { expr, cases: cs, .. } = s {
                                for (e, _) in cs {
                                    cases.push(format!("{}/{}", operand(expr), operand(e)));
                                }
                            }
                        },
                        &mut |_| {},
                    );
                }
            }
            let text = c.go.to_pretty(&c.goenv, 120);
            let txt: Vec<String> = text.lines().filter_map(|ln| ln.trim().strip_prefix("case ").map(|r| r.trim_end_matches(':').to_string())).filter(|t| !t.starts_with('"')).collect();
            format!("accept core={} cases={} txt={}", core, cases.join(","), txt.join(","))
        }
        Outcome::Err(stage, msgs) => classify(stage, &msgs),
        Outcome::Panic(m) => format!("panic {}", m.replace(['\n', '\t'], " ")),
    };
    out.case("PAT", l(vec![a("pat"), a(digits), a(if sfx.is_empty() { "-" } else { sfx }), a(scrut), a(shape)]), &res, &src);
}

// ------------------------------------------------------------------ FC: float operators whose operands are literals
/// a float expression over literals, the parameters `a`/`b`, `g(x) = x + 0.25`, comparisons and `if`
#[derive(Clone, Debug)]
pub enum FE {
    Lit(String),
    Var(&'static str),
    Bin(&'static str, Box<FE>, Box<FE>),
    Neg(Box<FE>),
    Call(Box<FE>),
    Cmp(&'static str, Box<FE>, Box<FE>),
    If(Box<FE>, Box<FE>, Box<FE>),
}

fn lit(t: &str) -> FE {
    FE::Lit(t.to_string())
}
fn bin(op: &'static str, x: FE, y: FE) -> FE {
    FE::Bin(op, Box::new(x), Box::new(y))
}
fn cmp(op: &'static str, x: FE, y: FE) -> FE {
    FE::Cmp(op, Box::new(x), Box::new(y))
}

impl FE {
    fn src(&self, sfx: &str) -> String {
        match self {
            FE::Lit(t) => format!("{}{}", t, sfx),
            FE::Var(v) => v.to_string(),
            FE::Bin(op, x, y) => format!("({} {} {})", x.src(sfx), op, y.src(sfx)),
            FE::Neg(x) => format!("-{}", x.src(sfx)),
            FE::Call(x) => format!("g({})", x.src(sfx)),
            FE::Cmp(op, x, y) => format!("{} {} {}", x.src(sfx), op, y.src(sfx)),
            FE::If(c, t, e) => format!("if {} {{ {} }} else {{ {} }}", c.src(sfx), t.src(sfx), e.src(sfx)),
        }
    }
    fn sexp(&self) -> S {
        match self {
            FE::Lit(t) => l(vec![a("lit"), a(t.clone())]),
            FE::Var(v) => l(vec![a("var"), a(*v)]),
            FE::Bin(op, x, y) => l(vec![a("bin"), a(*op), x.sexp(), y.sexp()]),
            FE::Neg(x) => l(vec![a("neg"), x.sexp()]),
            FE::Call(x) => l(vec![a("call"), x.sexp()]),
            FE::Cmp(op, x, y) => l(vec![a("cmp"), a(*op), x.sexp(), y.sexp()]),
            FE::If(c, t, e) => l(vec![a("if"), c.sexp(), t.sexp(), e.sexp()]),
        }
    }
    fn is_bool(&self) -> bool {
        matches!(self, FE::Cmp(..))
    }
    fn uses_call(&self) -> bool {
        match self {
            FE::Call(_) => true,
            FE::Bin(_, x, y) | FE::Cmp(_, x, y) => x.uses_call() || y.uses_call(),
            FE::Neg(x) => x.uses_call(),
            FE::If(c, t, e) => c.uses_call() || t.uses_call() || e.uses_call(),
            _ => false,
        }
    }
}

/// `fn f(a, b) { <expr> }` called with the literals `av`, `bv`; prints the result.  The outcome carries the REAL
/// printed Go text parsed with literal texts kept (`goparse::parse_go_raw`) restricted to `g`, `f`, `main0`, and the
/// real Core dump (for `Sem`).
fn fc_case(out: &mut Out, ty: &str, e: &FE, av: &str, bv: &str, tag: &str) {
    let sfx = if ty == "float32" { "f32" } else { "f64" };
    let ret = if e.is_bool() { "bool" } else { ty };
    let helper = if e.uses_call() { format!("fn g(x: {t}) -> {t} {{\n    x + 0.25{s}\n}}\n", t = ty, s = sfx) } else { String::new() };
    let src = format!(
        "{helper}fn f(a: {t}, b: {t}) -> {ret} {{\n    {body}\n}}\nfn main() -> unit {{\n    let _ = string_println({ret}_to_string(f({av}{s}, {bv}{s})));\n    ()\n}}\n",
        helper = helper,
        t = ty,
        ret = ret,
        body = e.src(sfx),
        av = av,
        bv = bv,
        s = sfx
    );
    let input = l(vec![a("fc"), a(ty), a(ret), a(av), a(bv), a(tag), e.sexp()]);
    match out.compile(&src) {
        Outcome::Ok(c) => {
            let text = c.go.to_pretty(&c.goenv, 120);
            let go = match crate::goparse::parse_go_raw(&text) {
                Ok(S::L(items)) => {
                    let keep: Vec<S> = items
                        .into_iter()
                        .filter(|it| match it {
                            S::L(v) => matches!((v.first(), v.get(1)), (Some(S::A(h)), Some(S::A(n))) if h == "func" && (n == "f" || n == "g" || n == "main0")),
                            _ => false,
                        })
                        .collect();
                    l(std::iter::once(a("gofile")).chain(keep).collect()).to_text()
                }
                Ok(other) => other.to_text(),
                Err(e) => format!("(parse-error \"{}\")", e.replace('"', "'")),
            };
            let core = crate::c01::prog(crate::dump::core_file(&c.core), &crate::c01::impls_table(&c.genv)).to_text();
            out.case_x("FC", input, &format!("ok {}", go), &src, &core);
        }
        Outcome::Err(stage, msgs) => {
            let o = format!("reject {} {}", stage, msgs.first().cloned().unwrap_or_default().replace(['\n', '\t'], " "));
            out.case("FC", input, &o, &src)
        }
        Outcome::Panic(m) => {
            let o = format!("panic {}", m.replace(['\n', '\t'], " "));
            out.case("FC", input, &o, &src)
        }
    }
}

fn fc_stream(out: &mut Out, rng: &mut Rng, thorough: bool) {
    let ops: [&'static str; 4] = ["+", "-", "*", "/"];
    let cmps: [&'static str; 6] = ["<", "<=", ">", ">=", "==", "!="];
    let one_dec: Vec<String> = (1..30).map(|k| format!("{}.{}", k / 10, k % 10)).collect();
    let core_vals = ["0.1", "0.2", "0.3", "0.6", "0.7", "0.8", "1.1", "2.5", "0.03125", "1.0"];
    for ty in ["float32", "float64"] {
        // literal op literal: a grid, the whole one-decimal grid in the thorough tier, seeded random pairs
        let grid: Vec<String> = if thorough { one_dec.clone() } else { core_vals.iter().map(|s| s.to_string()).collect() };
        for x in &grid {
            for y in &grid {
                for op in ops {
                    fc_case(out, ty, &bin(op, lit(x), lit(y)), "1.5", "0.7", "lit-op-lit");
                }
            }
        }
        for _ in 0..(if thorough { 600 } else { 80 }) {
            let pick = |rng: &mut Rng| -> String {
                match rng.below(4) {
                    0 => one_dec[rng.below(one_dec.len())].clone(),
                    1 => format!("{}.{:02}", rng.below(10), rng.below(100)),
                    2 => format!("{}.{:03}", rng.below(100), rng.below(1000)),
                    _ => format!("0.{:05}", 1 + rng.below(99999)),
                }
            };
            let (x, y) = (pick(rng), pick(rng));
            fc_case(out, ty, &bin(ops[rng.below(4)], lit(&x), lit(&y)), "1.5", "0.7", "lit-op-lit");
        }
        // exact ties with a non-dyadic operand (float32: 0.1 + 2^-5), dyadic operands (always faithful)
        for (x, y) in [("0.1", "0.03125"), ("0.03125", "0.1"), ("0.5", "0.25"), ("1.5", "2.25"), ("16777216.0", "1.0"), ("0.1", "0.0625"), ("0.3", "0.125")] {
            for op in ops {
                fc_case(out, ty, &bin(op, lit(x), lit(y)), "1.5", "0.7", "lit-op-lit");
            }
        }
        // comparisons of two literals, and of a constant expression with a literal
        for (x, y) in [("0.1", "0.2"), ("0.3", "0.3"), ("0.7", "0.6"), ("0.1", "0.10000000000000001"), ("1.0", "1.0")] {
            for op in cmps {
                fc_case(out, ty, &cmp(op, lit(x), lit(y)), "1.5", "0.7", "lit-cmp-lit");
            }
        }
        for (x, y, z) in [("0.1", "0.2", "0.3"), ("0.1", "0.6", "0.7"), ("0.5", "0.25", "0.75"), ("0.1", "0.7", "0.8")] {
            for op in cmps {
                fc_case(out, ty, &cmp(op, bin("+", lit(x), lit(y)), lit(z)), "1.5", "0.7", "litoplit-cmp-lit");
            }
        }
        // three literals (ANF names the intermediate result), both associations
        for (x, y, z) in [("16777216.0", "1.0", "1.0"), ("0.1", "0.2", "0.3"), ("0.1", "0.6", "0.7"), ("1.1", "2.5", "0.3"), ("9007199254740992.0", "1.0", "1.0")] {
            for (o1, o2) in [("+", "+"), ("+", "*"), ("*", "+"), ("-", "/"), ("/", "-")] {
                fc_case(out, ty, &bin(o2, bin(o1, lit(x), lit(y)), lit(z)), "1.5", "0.7", "three-literals");
                fc_case(out, ty, &bin(o1, lit(x), bin(o2, lit(y), lit(z))), "1.5", "0.7", "three-literals");
            }
        }
        // mixed with variables: var op lit is a typed run-time operation
        for (x, y) in [("0.1", "0.6"), ("0.3", "0.1"), ("2.5", "1.1")] {
            for op in ops {
                fc_case(out, ty, &bin(op, FE::Var("a"), lit(y)), x, "0.7", "var-op-lit");
                fc_case(out, ty, &bin(op, lit(x), FE::Var("b")), "1.5", y, "lit-op-var");
                fc_case(out, ty, &bin(op, FE::Var("a"), FE::Var("b")), x, y, "var-op-var");
                fc_case(out, ty, &bin(op, bin(op, FE::Var("a"), lit(x)), lit(y)), "1.5", "0.7", "var-lit-lit");
                fc_case(out, ty, &bin(op, FE::Var("a"), bin(op, lit(x), lit(y))), "1.5", "0.7", "var-litoplit");
            }
        }
        // unary minus; nested; call arguments; conditions
        for (x, y) in [("0.1", "0.6"), ("0.2", "0.3"), ("0.7", "0.1")] {
            fc_case(out, ty, &FE::Neg(Box::new(lit(x))), "1.5", "0.7", "neg-lit");
            fc_case(out, ty, &FE::Neg(Box::new(bin("+", lit(x), lit(y)))), "1.5", "0.7", "neg-litoplit");
            fc_case(out, ty, &bin("+", FE::Neg(Box::new(lit(x))), lit(y)), "1.5", "0.7", "neglit-op-lit");
            fc_case(out, ty, &bin("*", lit(x), FE::Neg(Box::new(lit(y)))), "1.5", "0.7", "lit-op-neglit");
            fc_case(out, ty, &FE::Call(Box::new(bin("+", lit(x), lit(y)))), "1.5", "0.7", "call-arg");
            fc_case(out, ty, &FE::Call(Box::new(lit(x))), "1.5", "0.7", "call-arg");
            fc_case(out, ty, &bin("+", FE::Call(Box::new(bin("*", lit(x), lit(y)))), FE::Neg(Box::new(lit("0.5")))), "1.5", "0.7", "nested");
            fc_case(out, ty, &bin("/", bin("*", lit(x), lit(y)), bin("-", lit("1.1"), lit(x))), "1.5", "0.7", "nested");
            for op in cmps {
                let c = cmp(op, bin("+", lit(x), lit(y)), FE::Var("a"));
                fc_case(out, ty, &FE::If(Box::new(c), Box::new(bin("*", lit(x), lit(x))), Box::new(bin("/", FE::Var("b"), lit(y)))), "0.7", "0.3", "condition");
            }
            let c = cmp("==", bin("+", lit(x), lit(y)), lit("0.7"));
            fc_case(out, ty, &FE::If(Box::new(c), Box::new(lit("1.0")), Box::new(lit("2.0"))), "0.7", "0.3", "condition");
        }
        // what Go refuses or reads differently as a CONSTANT: zero divisor, overflow, negative zero
        fc_case(out, ty, &bin("/", lit("1.0"), lit("0.0")), "1.5", "0.7", "const-div-zero");
        fc_case(out, ty, &FE::Neg(Box::new(lit("0.0"))), "1.5", "0.7", "neg-zero");
        let big = if ty == "float32" { "340282346638528859811704183484516925440.0".to_string() } else { format!("17976931348623157{}.0", "0".repeat(292)) };
        fc_case(out, ty, &bin("*", lit(&big), lit("10.0")), "1.5", "0.7", "const-overflow");
        fc_case(out, ty, &bin("+", lit(&big), lit(&big)), "1.5", "0.7", "const-overflow");
    }
    fc_kind_stream(out, &mut rng.fork(0x6b696e64), thorough);
}

/// The KIND of a printed constant.  Go reads a literal token without `.`/exponent as an INTEGER constant, and an
/// operator on two integer constants is integer arithmetic: `7 / 2` is 3 (truncated), `7.0 / 2.0` is 3.5.  A float
/// literal whose value is a whole number therefore only means the written number as an OPERAND when its spelling
/// keeps it of floating-point kind; standing alone (`var x float32 = 7`) either spelling is the same float.  These
/// cases put whole-number literals wherever the back end prints an operand: both operands whole (every operator; the
/// quotient whole or not), negated, beside a non-whole literal, beside a variable, nested, as call argument, in a
/// comparison and in a condition, at magnitudes on both sides of 2^24 / 2^32 / 2^53 / 2^64.
fn fc_kind_stream(out: &mut Out, rng: &mut Rng, thorough: bool) {
    let ops: [&'static str; 4] = ["+", "-", "*", "/"];
    let cmps: [&'static str; 6] = ["<", "<=", ">", ">=", "==", "!="];
    let small: Vec<String> = (if thorough { (1..=12).collect::<Vec<u32>>() } else { vec![1, 2, 3, 7, 10] }).iter().map(|k| format!("{}.0", k)).collect();
    for ty in ["float32", "float64"] {
        for x in &small {
            for y in &small {
                for op in ops {
                    fc_case(out, ty, &bin(op, lit(x), lit(y)), "1.5", "0.7", "whole-op-whole");
                }
            }
        }
        // seeded random whole operands of 1..7 digits, and large ones around the integer-precision ends
        for _ in 0..(if thorough { 300 } else { 30 }) {
            let d = |rng: &mut Rng| -> String { format!("{}.0", 1 + rng.next() % 10u64.pow(1 + rng.below(7) as u32)) };
            let (x, y) = (d(rng), d(rng));
            fc_case(out, ty, &bin(ops[rng.below(4)], lit(&x), lit(&y)), "1.5", "0.7", "whole-op-whole");
            fc_case(out, ty, &bin("/", lit(&x), lit(&y)), "1.5", "0.7", "whole-op-whole");
        }
        for (x, y) in [("16777217.0", "2.0"), ("16777215.0", "2.0"), ("4294967297.0", "3.0"), ("9007199254740993.0", "2.0"), ("9007199254740991.0", "2.0"),
                       ("18446744073709551616.0", "3.0"), ("100000000000000000000.0", "3.0"), ("1.0", "16777217.0"), ("1.0", "18446744073709551616.0")] {
            for op in ops {
                fc_case(out, ty, &bin(op, lit(x), lit(y)), "1.5", "0.7", "whole-op-whole");
            }
        }
        for (x, y) in [("7.0", "2.0"), ("1.0", "3.0"), ("10.0", "4.0")] {
            let n = |t: &str| FE::Neg(Box::new(lit(t)));
            for op in ops {
                // negated whole operands (integer division truncates toward zero: -7 / 2 is -3, not -3.5 and not -4)
                fc_case(out, ty, &bin(op, n(x), lit(y)), "1.5", "0.7", "whole-neg");
                fc_case(out, ty, &bin(op, lit(x), n(y)), "1.5", "0.7", "whole-neg");
                // beside a literal that is not whole: the expression is of floating-point kind whatever the whole one looks like
                fc_case(out, ty, &bin(op, lit(x), lit("0.5")), "1.5", "0.7", "whole-op-frac");
                fc_case(out, ty, &bin(op, lit("2.5"), lit(y)), "1.5", "0.7", "whole-op-frac");
                // beside a variable: a typed run-time operation
                fc_case(out, ty, &bin(op, FE::Var("a"), lit(y)), x, "0.7", "whole-op-var");
                fc_case(out, ty, &bin(op, lit(x), FE::Var("b")), "1.5", y, "whole-op-var");
                // nested: the intermediate result is named by ANF
                fc_case(out, ty, &bin(op, bin("/", lit(x), lit(y)), lit(y)), "1.5", "0.7", "whole-nested");
                fc_case(out, ty, &bin(op, lit(x), bin("/", lit(x), lit(y))), "1.5", "0.7", "whole-nested");
            }
            fc_case(out, ty, &FE::Neg(Box::new(bin("/", lit(x), lit(y)))), "1.5", "0.7", "whole-nested");
            fc_case(out, ty, &FE::Call(Box::new(bin("/", lit(x), lit(y)))), "1.5", "0.7", "whole-call-arg");
            fc_case(out, ty, &FE::Call(Box::new(lit(x))), "1.5", "0.7", "whole-call-arg");
            for op in cmps {
                fc_case(out, ty, &cmp(op, lit(x), lit(y)), "1.5", "0.7", "whole-cmp");
                fc_case(out, ty, &cmp(op, bin("/", lit(x), lit(y)), lit("3.0")), "1.5", "0.7", "whole-cmp");
                let c = cmp(op, bin("/", lit(x), lit(y)), FE::Var("a"));
                fc_case(out, ty, &FE::If(Box::new(c), Box::new(bin("/", lit(y), lit(x))), Box::new(bin("/", FE::Var("b"), lit(y)))), "3.0", "5.0", "whole-condition");
            }
        }
    }
}

// ------------------------------------------------------------------ GOLIT: how a numeric token of the Go text is read
/// One row per token text: Rust's own reading (`str::parse::<f32/f64>`, which accepts the decimal forms of Go's
/// floating-point literal grammar `digits . [digits] [exp] | digits exp | . digits [exp]`) as the reference for the
/// model's reading `Model/GoConst.ofGoFloatText` + `roundQ` (and python's).  The kind column is the rule of the Go
/// spec (and of `go_float_literal`): a `.` or an exponent makes the token a floating-point constant.
fn golit_case(out: &mut Out, text: &str) {
    let kind = if text.contains(['.', 'e', 'E']) { "float" } else { "int" };
    let octal = kind == "int" && text.len() > 1 && text.starts_with('0');
    let r32 = text.parse::<f32>().map(|v| if v.is_finite() { format!("{:x}", v.to_bits()) } else { "overflow".into() }).unwrap_or_else(|_| "err".into());
    let r64 = text.parse::<f64>().map(|v| if v.is_finite() { format!("{:x}", v.to_bits()) } else { "overflow".into() }).unwrap_or_else(|_| "err".into());
    let res = if octal { "octal-int".to_string() } else if r64 == "err" { "bad".to_string() } else { format!("{} f32={} f64={}", kind, r32, r64) };
    out.case("GOLIT", l(vec![a("golit"), a(text)]), &res, "");
}

fn golit_stream(out: &mut Out, rng: &mut Rng, thorough: bool) {
    for t in ["0", "7", "10", "16777217", "123456789012345678901234567890", "010", "017", "08", "0.0", "7.0", "7.", ".5", "0.5", "00.5", "09.5", "7e0", "7E0", "7e+0",
              "7e-0", "7e2", "7e+2", "7E-2", "7.5e3", "7.5E-3", ".5e1", "7.e1", "1e16", "1e-7", "1e38", "1e39", "1e308", "1e309", "1e-45", "1e-46", "1e-320", "1e-324", "1e-400",
              "0.1", "0.10000000149011612", "0.100000001490116119384765625", "3.4028235e38", "3.4028236e38", "1.7976931348623157e308", "4.9e-324", "1e", "e5", ".", "1.2.3",
              "1e+", "1e-", "7.e", "1e1.5"] {
        golit_case(out, t);
    }
    // what Rust's formatting traits can print for a float (a printer is free to use any of them): `{}`, `{:?}`, `{:e}`,
    // `{:E}` of seeded random finite f64 / f32 values (and of the f32 widened, as the back end carries it)
    for i in 0..(if thorough { 400 } else { 40 }) {
        let v64 = loop {
            let v = f64::from_bits(rng.next());
            if v.is_finite() { break v.abs(); }
        };
        let v32 = loop {
            let v = f32::from_bits(rng.next() as u32);
            if v.is_finite() { break v.abs(); }
        };
        let m64 = ((rng.next() % 2_000_000) as f64) / [1.0, 8.0, 1000.0][i % 3];
        for s in [format!("{}", v64), format!("{:?}", v64), format!("{:e}", v64), format!("{:E}", v64), format!("{}", v32), format!("{:?}", v32), format!("{:e}", v32),
                  format!("{}", v32 as f64), format!("{:?}", v32 as f64), format!("{}", m64), format!("{:?}", m64), format!("{:e}", m64)] {
            golit_case(out, &s);
        }
    }
}

// ------------------------------------------------------------------ OP
const BIN_OPS: [(&str, &str); 12] = [
    ("Add", "+"),
    ("Sub", "-"),
    ("Mul", "*"),
    ("Div", "/"),
    ("And", "&&"),
    ("Or", "||"),
    ("Less", "<"),
    ("Greater", ">"),
    ("LessEq", "<="),
    ("GreaterEq", ">="),
    ("Eq", "=="),
    ("NotEq", "!="),
];

fn lit_text(ty: &str, v: &str) -> String {
    match ty {
        "bool" => v.to_string(),
        "float32" => format!("{}f32", v),
        "float64" => format!("{}f64", v),
        _ => format!("{}{}", v, INT_TYS.iter().find(|r| r.0 == ty).map(|r| r.1).unwrap_or("")),
    }
}

/// one operator application `lhs OP rhs` inside `fn f`; operands are parameters (`v`) or literals (`l`)
fn op_case(out: &mut Out, op: &str, sym: &str, ty: &str, shape: &str, lv: &str, rv: &str) {
    let cmp = matches!(op, "Less" | "Greater" | "LessEq" | "GreaterEq" | "Eq" | "NotEq");
    let ret = if cmp { "bool" } else { ty };
    let unary = op == "Neg" || op == "Not";
    let (params, body, call) = if unary {
        match shape {
            "v" => (format!("a: {}", ty), format!("{}a", sym), format!("f({})", lit_text(ty, lv))),
            _ => (String::new(), format!("{}{}", sym, lit_text(ty, lv)), "f()".to_string()),
        }
    } else {
        match shape {
            "vv" => (format!("a: {t}, b: {t}", t = ty), format!("a {} b", sym), format!("f({}, {})", lit_text(ty, lv), lit_text(ty, rv))),
            "vl" => (format!("a: {}", ty), format!("a {} {}", sym, lit_text(ty, rv)), format!("f({})", lit_text(ty, lv))),
            "lv" => (format!("b: {}", ty), format!("{} {} b", lit_text(ty, lv), sym), format!("f({})", lit_text(ty, rv))),
            _ => (String::new(), format!("{} {} {}", lit_text(ty, lv), sym, lit_text(ty, rv)), "f()".to_string()),
        }
    };
    let src = format!(
        "fn f({}) -> {} {{\n    {}\n}}\nfn main() -> unit {{\n    let _ = string_println({}_to_string({}));\n    ()\n}}\n",
        params, ret, body, ret, call
    );
    let res = match out.compile(&src) {
        Outcome::Ok(c) => {
            let mut nodes: Vec<String> = Vec::new();
            if let Some(f) = go_fn(&c.go, "f") {
                let goenv = &c.goenv;
                walk_block(&f.body, &mut |_| {}, &mut |e| match e {
                    Expr::BinaryOp { op, lhs, rhs, ty } => {
                        let (t, lt, rt) = (render(e, goenv), render(lhs, goenv), render(rhs, goenv));
                        let sym = if t.starts_with(&lt) && t.ends_with(&rt) && t.len() >= lt.len() + rt.len() {
                            t[lt.len()..t.len() - rt.len()].trim().to_string()
                        } else {
                            format!("?{}", t)
                        };
                        nodes.push(format!("bin op={:?} sym={} lhs={} rhs={} ty={} text={}", op, sym, operand(lhs), operand(rhs), go_ty_name(ty), t.replace(' ', "_")));
                    }
                    Expr::UnaryOp { op, expr, ty } => {
                        let (t, xt) = (render(e, goenv), render(expr, goenv));
                        let sym = if t.ends_with(&xt) { t[..t.len() - xt.len()].trim().to_string() } else { format!("?{}", t) };
                        nodes.push(format!("un op={:?} sym={} arg={} ty={} text={}", op, sym, operand(expr), go_ty_name(ty), t.replace(' ', "_")));
                    }
                    _ => {}
                });
                let ps: Vec<String> = f.params.iter().map(|(n, t)| format!("{}:{}", n, go_ty_name(t))).collect();
                nodes.push(format!("sig=({})->{}", ps.join(","), f.ret_ty.as_ref().map(go_ty_name).unwrap_or_default()));
            }
            format!("ok {}", nodes.join(" | "))
        }
        Outcome::Err(stage, msgs) => format!("reject {} {}", stage, msgs.first().cloned().unwrap_or_default().replace(['\n', '\t'], " ")),
        Outcome::Panic(m) => format!("panic {}", m.replace(['\n', '\t'], " ")),
    };
    out.case("OP", l(vec![a(if unary { "unop" } else { "binop" }), a(op), a(ty), a(shape), a(lv), a(rv)]), &res, &src);
}

// ------------------------------------------------------------------ FLT
fn flt_case(out: &mut Out, text: &str, sfx: &str) {
    let ty = if sfx == "f32" { "float32" } else { "float64" };
    let src = format!(
        "fn main() -> unit {{\n    let x = {}{};\n    let _ = string_println({}_to_string(x));\n    ()\n}}\n",
        text, sfx, ty
    );
    let r32 = text.parse::<f32>().map(|v| format!("{:08x}", v.to_bits())).unwrap_or_else(|_| "err".into());
    let d32 = text.parse::<f64>().map(|v| format!("{:08x}", (v as f32).to_bits())).unwrap_or_else(|_| "err".into());
    let r64 = text.parse::<f64>().map(|v| format!("{:016x}", v.to_bits())).unwrap_or_else(|_| "err".into());
    let reference = format!("ref32={} dbl32={} ref64={}", r32, d32, r64);
    let res = match out.compile(&src) {
        Outcome::Ok(c) => {
            let mut prims = Vec::new();
            if let Ok(v) = serde_json::to_value(&c.core) {
                core_prims(&v, &mut prims);
            }
            let mut decls: Vec<(String, String, f64)> = Vec::new();
            if let Some(f) = go_fn(&c.go, "main0") {
                walk_block(
                    &f.body,
                    &mut |s| {
                        if let Stmt::VarDecl { name, ty, value: Some(Expr::Float { value, ty: lty }) } = s {
                            if name.starts_with("x__") {
                                decls.push((go_ty_name(ty), go_ty_name(lty), *value));
                            }
                        }
                    },
                    &mut |_| {},
                );
            }
            let gotext = c.go.to_pretty(&c.goenv, 100000);
            let txt = gotext
                .lines()
                .find_map(|ln| {
                    let t = ln.trim();
                    let rest = t.strip_prefix("var x__")?;
                    let (lhs, rhs) = rest.split_once(" = ")?;
                    Some(format!("{}:{}", lhs.split_whitespace().nth(1)?, rhs))
                })
                .unwrap_or_else(|| "?".into());
            if prims.len() == 1 && decls.len() == 1 {
                let (pv, val, tty) = &prims[0];
                let bits = match (pv.as_str(), val.as_f64()) {
                    ("Float32", Some(v)) => format!("{:08x}", (v as f32).to_bits()),
                    ("Float64", Some(v)) => format!("{:016x}", v.to_bits()),
                    _ => "?".into(),
                };
                format!("accept prim={} bits={} tast={} goty={} gobits={:016x} declty={} txt={} {}", pv, bits, tty, decls[0].1, decls[0].2.to_bits(), decls[0].0, txt, reference)
            } else {
                format!("accept-unreadable prims={} decls={} txt={} {}", prims.len(), decls.len(), txt, reference)
            }
        }
        Outcome::Err(stage, msgs) => format!("{} {}", classify(stage, &msgs), reference),
        Outcome::Panic(m) => format!("panic {}", m.replace(['\n', '\t'], " ")),
    };
    out.case("FLT", l(vec![a("flt"), a(text), a(if sfx.is_empty() { "-" } else { sfx })]), &res, &src);
}

/// exact decimal expansion of a finite f64 (dyadic rationals have finite expansions)
fn exact_decimal(v: f64) -> String {
    let s = format!("{:.1100}", v);
    let t = s.trim_end_matches('0');
    if t.ends_with('.') { format!("{}0", t) } else { t.to_string() }
}

// ------------------------------------------------------------------ PARSE / EVAL / FMT (Rust std as the reference)
fn parse_kind(e: &std::num::ParseIntError) -> &'static str {
    use std::num::IntErrorKind::*;
    match e.kind() {
        Empty => "empty",
        InvalidDigit => "invalidDigit",
        PosOverflow => "posOverflow",
        NegOverflow => "negOverflow",
        _ => "other",
    }
}

macro_rules! parse_as {
    ($t:ty, $s:expr) => {
        match $s.parse::<$t>() {
            Ok(v) => format!("ok {}", v),
            Err(e) => format!("err {}", parse_kind(&e)),
        }
    };
}

fn parse_case(out: &mut Out, rust: &str, s: &str) {
    let r = match rust {
        "i8" => parse_as!(i8, s),
        "i16" => parse_as!(i16, s),
        "i32" => parse_as!(i32, s),
        "i64" => parse_as!(i64, s),
        "u8" => parse_as!(u8, s),
        "u16" => parse_as!(u16, s),
        "u32" => parse_as!(u32, s),
        _ => parse_as!(u64, s),
    };
    out.case("PARSE", l(vec![a("parse"), a(rust), a(s)]), &r, "");
}

macro_rules! eval_as {
    ($t:ty, $op:expr, $a:expr, $b:expr) => {{
        let (x, y) = ($a as $t, $b as $t);
        match $op {
            "Add" => format!("int {}", x.wrapping_add(y)),
            "Sub" => format!("int {}", x.wrapping_sub(y)),
            "Mul" => format!("int {}", x.wrapping_mul(y)),
            "Div" => {
                if y == 0 {
                    "panic".to_string()
                } else {
                    format!("int {}", x.wrapping_div(y))
                }
            }
            "Neg" => format!("int {}", x.wrapping_neg()),
            "Less" => format!("bool {}", x < y),
            "Greater" => format!("bool {}", x > y),
            "LessEq" => format!("bool {}", x <= y),
            "GreaterEq" => format!("bool {}", x >= y),
            "Eq" => format!("bool {}", x == y),
            _ => format!("bool {}", x != y),
        }
    }};
}

/// operands are given as raw 64-bit patterns, truncated to the type (so every bit pattern is reachable)
fn eval_case(out: &mut Out, op: &str, rust: &str, x: u64, y: u64) {
    let r = match rust {
        "i8" => eval_as!(i8, op, x, y),
        "i16" => eval_as!(i16, op, x, y),
        "i32" => eval_as!(i32, op, x, y),
        "i64" => eval_as!(i64, op, x, y),
        "u8" => eval_as!(u8, op, x, y),
        "u16" => eval_as!(u16, op, x, y),
        "u32" => eval_as!(u32, op, x, y),
        _ => eval_as!(u64, op, x, y),
    };
    out.case("EVAL", l(vec![a("eval"), a(op), a(rust), a(x.to_string()), a(y.to_string())]), &r, "");
}

fn fmt_case(out: &mut Out, rust: &str, x: u64) {
    let r = match rust {
        "i8" => (x as i8).to_string(),
        "i16" => (x as i16).to_string(),
        "i32" => (x as i32).to_string(),
        "i64" => (x as i64).to_string(),
        "u8" => (x as u8).to_string(),
        "u16" => (x as u16).to_string(),
        "u32" => (x as u32).to_string(),
        _ => x.to_string(),
    };
    out.case("FMT", l(vec![a("fmt"), a(rust), a(x.to_string())]), &r, "");
}

// ------------------------------------------------------------------ TOSTR
fn tostr_cases(out: &mut Out) {
    for it in compiler::go::runtime::make_runtime() {
        if let Item::Fn(f) = it {
            if !f.name.ends_with("_to_string") || f.params.len() != 1 {
                continue;
            }
            let mut verbs: Vec<String> = Vec::new();
            walk_block(&f.body, &mut |_| {}, &mut |e| {
                if let Expr::Call { func, args, .. } = e {
                    if let Expr::Var { name, .. } = &**func {
                        if name == "fmt.Sprintf" {
                            if let Some(Expr::String { value, .. }) = args.first() {
                                let arg = args.get(1).map(operand).unwrap_or_default();
                                verbs.push(format!("{} {}", value, arg));
                            }
                        }
                    }
                }
            });
            if verbs.is_empty() {
                continue; // bool/unit helpers do not format
            }
            let pty = &f.params[0].1;
            let res = format!("helper {} {} {} ret={}", f.name, go_ty_variant(pty), verbs.join(";"), f.ret_ty.as_ref().map(go_ty_name).unwrap_or_default());
            out.case("TOSTR", l(vec![a("tostr"), a(f.name.clone())]), &res, "");
        }
    }
}

fn boundaries(signed: bool, bits: u32) -> Vec<u128> {
    let max: u128 = if signed { (1u128 << (bits - 1)) - 1 } else { (1u128 << bits) - 1 };
    let mut v = vec![0, 1, 2, 9, 10, 99, 100, max - 1, max, max + 1, max + 2, (1u128 << (bits - 1)) - 1, 1u128 << (bits - 1), (1u128 << (bits - 1)) + 1, (1u128 << bits) - 1, 1u128 << bits, (1u128 << bits) + 1];
    v.push(max * 10);
    v.push(max * 10 + 9);
    v.push(u64::MAX as u128);
    v.push(u64::MAX as u128 + 1);
    v.push(u128::MAX / 3);
    v.sort();
    v.dedup();
    v
}

pub fn main(args: &Args) {
    util::quiet_panics();
    let thorough = args.tier == "thorough";
    let _ = std::fs::create_dir_all(&args.out);
    let path = args.out.join("c10.cases.tsv");
    let dir = util::scratch_dir("c10");
    let mut out = Out { f: std::io::BufWriter::new(std::fs::File::create(&path).expect("create tsv")), n: 0, dir: dir.clone() };
    let mut rng = Rng::new(args.seed ^ 0xC10);

    // ---- TOSTR
    tostr_cases(&mut out);

    // ---- LIT: every 8-bit literal and a few beyond, suffixed and with matching / foreign annotation
    for v in 0..=(if thorough { 520u32 } else { 300 }) {
        lit_case(&mut out, &v.to_string(), "i8", "");
        lit_case(&mut out, &v.to_string(), "u8", "");
    }
    for v in [0u32, 5, 127, 128, 255, 256] {
        lit_case(&mut out, &v.to_string(), "i8", "int8");
        lit_case(&mut out, &v.to_string(), "u8", "uint8");
        lit_case(&mut out, &v.to_string(), "i8", "uint8");
        lit_case(&mut out, &v.to_string(), "", "int8");
        lit_case(&mut out, &v.to_string(), "", "uint8");
    }
    // boundaries of every type, every suffix form (and unsuffixed = int32), with and without annotation
    for (name, sfx, signed, bits) in INT_TYS {
        for b in boundaries(signed, bits) {
            lit_case(&mut out, &b.to_string(), sfx, "");
        }
        let max: u128 = if signed { (1u128 << (bits - 1)) - 1 } else { (1u128 << bits) - 1 };
        for b in [max, max + 1] {
            lit_case(&mut out, &b.to_string(), sfx, name);
            lit_case(&mut out, &b.to_string(), "", name);
        }
    }
    for b in boundaries(true, 32) {
        lit_case(&mut out, &b.to_string(), "", "");
        lit_case(&mut out, &b.to_string(), "", "int32");
    }
    // leading zeros (Go would read a leading 0 as octal), long zero runs, values that are not octal numerals
    for (d, s) in [("007", "i8"), ("010", ""), ("0128", "i8"), ("0127", "i8"), ("08", "u8"), ("0000000000000000000000255", "u8"), ("0000000000000000000000256", "u8"),
                   ("00", ""), ("0", "u64"), ("018446744073709551615", "u64"), ("0777", "i16"), ("09223372036854775807", "i64"), ("09223372036854775808", "i64")] {
        lit_case(&mut out, d, s, "");
    }
    // random 64-bit (and wider) values at every type
    let n_rand = if thorough { 400 } else { 40 };
    for (_, sfx, _, bits) in INT_TYS {
        for _ in 0..n_rand {
            let r = rng.next();
            let v: u128 = match rng.below(4) {
                0 => (r as u128) & ((1u128 << bits) - 1),
                1 => (r as u128) >> rng.below(64),
                2 => r as u128,
                _ => (r as u128) * (rng.below(1000) as u128 + 1),
            };
            lit_case(&mut out, &v.to_string(), sfx, "");
        }
    }
    for _ in 0..n_rand {
        let v = rng.next() >> rng.below(64);
        lit_case(&mut out, &v.to_string(), "", "");
    }

    // ---- NEG: negated literals around the negative end of every type
    for (_, sfx, signed, bits) in INT_TYS {
        let max: u128 = if signed { (1u128 << (bits - 1)) - 1 } else { (1u128 << bits) - 1 };
        for v in [0u128, 1, 7, max - 1, max, max + 1, max + 2] {
            neg_case(&mut out, &v.to_string(), sfx);
        }
    }
    for v in [0u128, 5, 2147483647, 2147483648] {
        neg_case(&mut out, &v.to_string(), "");
    }
    for v in 120..=130u32 {
        neg_case(&mut out, &v.to_string(), "i8");
    }

    // ---- PAT: literal patterns at every scrutinee type (suffixed matching, suffixed foreign, unsuffixed), on scrutinees of
    // known type and on scrutinees whose type is only inferred after the pattern was checked
    for (name, sfx, signed, bits) in INT_TYS {
        let max: u128 = if signed { (1u128 << (bits - 1)) - 1 } else { (1u128 << bits) - 1 };
        for shape in PAT_SHAPES_KNOWN {
            for v in [0u128, 7, max, max + 1] {
                pat_case(&mut out, &v.to_string(), sfx, name, shape);
                pat_case(&mut out, &v.to_string(), "", name, shape);
            }
            pat_case(&mut out, "010", sfx, name, shape);
        }
        // in range / at the boundary / just outside / far outside the scrutinee type but inside int32 / around int32's end
        let mut vals: Vec<u128> = vec![0, 7, max - 1, max, max + 1, max + 2, 1u128 << bits, 300, 1000, 40000, 70000, 2147483647, 2147483648, 4294967296];
        for _ in 0..(if thorough { 12 } else { 2 }) {
            vals.push((rng.next() >> (33 + rng.below(24))) as u128); // random value inside int32
        }
        vals.sort();
        vals.dedup();
        for shape in PAT_SHAPES_INFERRED {
            for v in &vals {
                pat_case(&mut out, &v.to_string(), "", name, shape);
            }
            for v in [7u128, max, max + 1] {
                pat_case(&mut out, &v.to_string(), sfx, name, shape);
            }
            pat_case(&mut out, "7", if sfx == "i16" { "i8" } else { "i16" }, name, shape);
        }
    }
    pat_case(&mut out, "5", "i8", "int16", "param");

    // ---- OP: operator × type × operand shape
    let arith = ["Add", "Sub", "Mul", "Div", "Less", "Greater", "LessEq", "GreaterEq", "Eq", "NotEq"];
    for (name, _, signed, bits) in INT_TYS {
        let max: u128 = if signed { (1u128 << (bits - 1)) - 1 } else { (1u128 << bits) - 1 };
        for op in arith {
            let sym = BIN_OPS.iter().find(|r| r.0 == op).unwrap().1;
            op_case(&mut out, op, sym, name, "vv", "7", "2");
            op_case(&mut out, op, sym, name, "vl", "7", "2");
            op_case(&mut out, op, sym, name, "lv", "7", "2");
            op_case(&mut out, op, sym, name, "ll", "7", "2");
            // literal-literal where the exact result leaves the type: must wrap (or, for `/ 0`, fail at run time)
            op_case(&mut out, op, sym, name, "ll", &max.to_string(), "1");
            op_case(&mut out, op, sym, name, "ll", "0", "1");
            op_case(&mut out, op, sym, name, "ll", &max.to_string(), "2");
        }
        op_case(&mut out, "Div", "/", name, "vl", "7", "0");
        op_case(&mut out, "Div", "/", name, "ll", "7", "0");
        op_case(&mut out, "Neg", "-", name, "v", "7", "");
        op_case(&mut out, "Neg", "-", name, "l", "7", "");
        op_case(&mut out, "Neg", "-", name, "l", &max.to_string(), "");
    }
    for op in ["And", "Or", "Eq", "NotEq"] {
        let sym = BIN_OPS.iter().find(|r| r.0 == op).unwrap().1;
        for shape in ["vv", "vl", "lv", "ll"] {
            op_case(&mut out, op, sym, "bool", shape, "true", "false");
        }
    }
    op_case(&mut out, "Not", "!", "bool", "v", "true", "");
    op_case(&mut out, "Not", "!", "bool", "l", "true", "");
    for fty in ["float32", "float64"] {
        for op in arith {
            let sym = BIN_OPS.iter().find(|r| r.0 == op).unwrap().1;
            for shape in ["vv", "vl", "lv", "ll"] {
                op_case(&mut out, op, sym, fty, shape, "1.5", "0.25");
            }
        }
        op_case(&mut out, "Neg", "-", fty, "v", "1.5", "");
        op_case(&mut out, "Neg", "-", fty, "l", "1.5", "");
    }

    // ---- FLT (validation only): simple decimals, f32 rounding midpoints ± a hair, range ends, long expansions
    for t in ["0.0", "0.1", "0.5", "1.0", "1.5", "3.14159", "2.718281828459045", "16777217.0", "16777216.0", "0.30000000000000004", "123456789.123456789",
              "340282346638528859811704183484516925440.0", "340282356779733661637539395458142568447.9", "340282356779733661637539395458142568448.0",
              "340282346638528859811704183484516925441.0", "0.000000000000000000000000000000000000000000001", "0.00000000000000000000000000000000000001175494350822287507968736537222245677818665556",
              "179769313486231570814527423731704356798070567525844996598917476803157260780028538760589558632766878171540458953514382464234321326889464182768467546703537516986049910576551282076245490090389328944075868508455133942304583236903222948165808559332123348274797826204144723168738177180919299881250404026184124858368.0"] {
        for sfx in ["f32", "f64", ""] {
            flt_case(&mut out, t, sfx);
        }
    }
    // magnitude ladder (deterministic): whole-number floats and their neighbours around every boundary an
    // integer conversion / fixed-width formatting shortcut in the printer could have (2^24, 2^31, 2^32, 2^53,
    // 2^63, 2^64, 2^127, 2^128, ...) and powers of ten up to the top of each type. The lexer has no exponent
    // syntax, so these are written with all their digits.
    {
        let mut ladder: Vec<String> = Vec::new();
        for k in [24u32, 31, 32, 53, 62, 63, 64, 65, 100, 126, 127] {
            let p = 1u128 << k;
            for v in [p - 1, p, p + 1] {
                ladder.push(format!("{}.0", v));
            }
            ladder.push(format!("{}.5", p));
        }
        ladder.push(format!("{}.0", u128::MAX)); // 2^128 - 1
        ladder.push("340282366920938463463374607431768211456.0".to_string()); // 2^128
        ladder.push("340282366920938463463374607431768211457.0".to_string());
        for k in [9usize, 10, 15, 16, 18, 19, 20, 22, 23, 30, 38, 39, 100, 200, 300, 308] {
            ladder.push(format!("1{}.0", "0".repeat(k)));
            ladder.push(format!("9{}.0", "9".repeat(k.min(25))));
        }
        ladder.sort();
        ladder.dedup();
        for t in &ladder {
            for sfx in ["f32", "f64", ""] {
                flt_case(&mut out, t, sfx);
            }
        }
    }
    let n_mid = if thorough { 600 } else { 60 };
    for i in 0..n_mid {
        // x: a random positive normal f32 of moderate exponent; m: the exact midpoint between x and its successor
        let mant = (rng.next() & 0x7f_ffff) as u32;
        let exp = 100 + (rng.next() % 56) as u32; // 2^-27 .. 2^28
        let x = f32::from_bits((exp << 23) | mant);
        let y = f32::from_bits(((exp << 23) | mant) + 1);
        let m = (x as f64 + y as f64) / 2.0; // exact in f64
        let md = exact_decimal(m);
        let above = format!("{}{}1", md, "0".repeat(1 + (i % 7) * 5)); // midpoint + a hair: must round UP to y
        flt_case(&mut out, &above, "f32");
        if i % 3 == 0 {
            flt_case(&mut out, &md, "f32"); // exact tie: to even
            flt_case(&mut out, &above, "f64");
        }
        if i % 3 == 1 {
            // midpoint − a hair: decrement the last digit of the exact expansion and append 9s: must round DOWN to x
            let mut b = md.clone().into_bytes();
            if let Some(p) = b.iter().rposition(|c| (b'1'..=b'9').contains(c)) {
                b[p] -= 1;
                let below = format!("{}{}", String::from_utf8_lossy(&b), "9".repeat(20));
                flt_case(&mut out, &below, "f32");
            }
        }
    }

    // ---- PARSE: the std parser on digit strings, signs, garbage (ties Model.Num.parseInt)
    let strs = ["", "+", "-", "0", "-0", "+0", "00", "+5", "-5", "--5", "+-5", "5-", "5+", " 5", "5 ", "1_0", "0x10", "१", "٣", "5a", "a5", "127", "128", "-128", "-129", "+127", "+128",
                "255", "256", "-1", "32767", "32768", "-32768", "-32769", "65535", "65536", "2147483647", "2147483648", "-2147483648", "-2147483649", "4294967295", "4294967296",
                "9223372036854775807", "9223372036854775808", "-9223372036854775808", "-9223372036854775809", "18446744073709551615", "18446744073709551616",
                "99999999999999999999999999", "-99999999999999999999999999", "999x", "9x99", "-999x", "0000000000000000000000000000127", "-0000000000000000000000128", "1.0", "1e3"];
    for (_, rust, _, _) in INT_TYS {
        for s in strs {
            parse_case(&mut out, rust, s);
        }
        for _ in 0..(if thorough { 2000 } else { 150 }) {
            let mut s = String::new();
            match rng.below(6) {
                0 => s.push('-'),
                1 => s.push('+'),
                _ => {}
            }
            let len = 1 + rng.below(22);
            for _ in 0..len {
                let c = if rng.chance(1, 40) { *rng.pick(&['x', '-', '+', ' ', '.', '_']) } else { (b'0' + rng.below(10) as u8) as char };
                s.push(c);
            }
            parse_case(&mut out, rust, &s);
        }
        for _ in 0..(if thorough { 1000 } else { 100 }) {
            let v = rng.next() >> rng.below(64);
            let s = if rng.chance(1, 3) { format!("-{}", v) } else { v.to_string() };
            parse_case(&mut out, rust, &s);
        }
    }

    // ---- EVAL: all int8/uint8 operand pairs for every operator (65536 × 11 × 2 is cheap in Rust, but the model
    // side reads every line: sample the pairs in the quick tier), boundary and random pairs for wider types
    let ops = ["Add", "Sub", "Mul", "Div", "Less", "Greater", "LessEq", "GreaterEq", "Eq", "NotEq", "Neg"];
    for rust in ["i8", "u8"] {
        for op in ops {
            for x in 0..256u64 {
                let step = if thorough { 1 } else { 13 };
                let mut y = (x * 7) % step;
                while y < 256 {
                    eval_case(&mut out, op, rust, x, y);
                    y += step;
                }
                eval_case(&mut out, op, rust, x, 0);
                eval_case(&mut out, op, rust, x, 255);
                eval_case(&mut out, op, rust, x, 128);
            }
        }
    }
    for (_, rust, _, bits) in INT_TYS {
        if bits == 8 {
            continue;
        }
        let m = if bits == 64 { u64::MAX } else { (1u64 << bits) - 1 };
        let edge = [0u64, 1, 2, 3, 7, m, m - 1, m >> 1, (m >> 1) + 1, (m >> 1) + 2, (m >> 1) - 1, m - 6];
        for op in ops {
            for x in edge {
                for y in edge {
                    eval_case(&mut out, op, rust, x, y);
                }
            }
            for _ in 0..(if thorough { 2000 } else { 120 }) {
                let x = rng.next() >> rng.below(64);
                let y = if rng.chance(1, 2) { rng.next() >> rng.below(64) } else { rng.next() % 17 };
                eval_case(&mut out, op, rust, x, y);
            }
        }
    }

    // ---- FC: float constant expressions
    fc_stream(&mut out, &mut rng, thorough);

    // ---- GOLIT: the reading of numeric tokens (ties Model.GoConst.litValL / ofGoFloatText to Rust's parser)
    golit_stream(&mut out, &mut rng.fork(0x676f6c6974), thorough);

    // ---- FMT
    for (_, rust, _, bits) in INT_TYS {
        let m = if bits == 64 { u64::MAX } else { (1u64 << bits) - 1 };
        for x in [0u64, 1, 9, 10, 11, 99, 100, 101, m, m - 1, m >> 1, (m >> 1) + 1, 1000, 1009, 10000] {
            fmt_case(&mut out, rust, x);
        }
        for _ in 0..(if thorough { 1000 } else { 80 }) {
            fmt_case(&mut out, rust, rng.next() >> rng.below(64));
        }
    }

    let _ = out.f.flush();
    let _ = std::fs::remove_dir_all(&dir);
    let mut summary = String::new();
    let _ = write!(summary, "cases={}", out.n);
    println!("{}", summary);
}
