//! C11 — precedence, associativity, literal fidelity.
//!
//! `gv c11 gen`              operator trees (exhaustive pairs/triples, random, redundant parentheses)
//! `gv c11 parse --file F`   parse the model's renderings (+ trivia / tight variants) with the real
//!                           `parse_ast_file`, dump the real `ast::Expr` back to the tree S-expression
//! `gv c11 lits`             literal spellings through the whole pipeline; the value that reaches Core
//! `gv c11 goldens`          re-derive every stage dump of the 74 corpus programs and diff with the
//!                           golden files `test_cases` compares (that test needs Go, so it cannot run here)
use crate::rng::Rng;
use crate::sexp::{S, a, esc_line, n, tagged};
use crate::util::{self, Outcome};
use ast::ast;
use compiler::pipeline::pipeline;
use std::fmt::Write as _;
use std::panic::{AssertUnwindSafe, catch_unwind};
use std::path::Path;

// ------------------------------------------------------------------ trees

#[derive(Clone, Debug, PartialEq)]
pub enum T {
    V(String),
    I(String),
    U(&'static str, Box<T>),
    B(&'static str, Box<T>, Box<T>),
    C(Box<T>, Vec<T>),
    F(Box<T>, String),
    P(Box<T>, usize),
}

pub const BIN: [&str; 12] =
    ["or", "and", "eq", "ne", "lt", "gt", "le", "ge", "add", "sub", "mul", "div"];
pub const UN: [&str; 2] = ["neg", "not"];

fn bin_sym(o: &str) -> &'static str {
    match o {
        "or" => "||",
        "and" => "&&",
        "eq" => "==",
        "ne" => "!=",
        "lt" => "<",
        "gt" => ">",
        "le" => "<=",
        "ge" => ">=",
        "add" => "+",
        "sub" => "-",
        "mul" => "*",
        _ => "/",
    }
}
fn bin_level(o: &str) -> u32 {
    match o {
        "or" => 1,
        "and" => 2,
        "eq" | "ne" => 3,
        "lt" | "gt" | "le" | "ge" => 4,
        "add" | "sub" => 5,
        _ => 6,
    }
}

impl T {
    pub fn sexp(&self) -> S {
        match self {
            T::V(x) => tagged("v", vec![a(x)]),
            T::I(s) => tagged("i", vec![a(s)]),
            T::U(o, e) => tagged("u", vec![a(*o), e.sexp()]),
            T::B(o, l, r) => tagged("b", vec![a(*o), l.sexp(), r.sexp()]),
            T::C(f, args) => {
                let mut v = vec![f.sexp()];
                v.extend(args.iter().map(|x| x.sexp()));
                tagged("c", v)
            }
            T::F(e, x) => tagged("f", vec![e.sexp(), a(x)]),
            T::P(e, i) => tagged("p", vec![e.sexp(), n(i)]),
        }
    }
    fn size(&self) -> usize {
        match self {
            T::V(_) | T::I(_) => 1,
            T::U(_, e) | T::F(e, _) | T::P(e, _) => 1 + e.size(),
            T::B(_, l, r) => 1 + l.size() + r.size(),
            T::C(f, args) => 1 + f.size() + args.iter().map(|x| x.size()).sum::<usize>(),
        }
    }
    fn is_lit(&self) -> bool {
        matches!(self, T::I(_))
    }
    /// the model's `wf`: a literal is never called directly (it may be the receiver of `.f` / `.0`)
    fn wf(&self) -> bool {
        match self {
            T::V(_) | T::I(_) => true,
            T::U(_, e) => e.wf(),
            T::B(_, l, r) => l.wf() && r.wf(),
            T::C(f, args) => !f.is_lit() && f.wf() && args.iter().all(|x| x.wf()),
            T::F(e, _) | T::P(e, _) => e.wf(),
        }
    }
    fn kind(&self) -> &'static str {
        match self {
            T::V(_) => "var",
            T::I(_) => "lit",
            T::U(..) => "prefix",
            T::B(..) => "binary",
            T::C(_, args) => match args.len() {
                0 => "call0",
                1 => "call1",
                _ => "call2+",
            },
            T::F(..) => "field",
            T::P(..) => "proj",
        }
    }
}

/// an operator form with `slots` operand positions (the exhaustive streams nest forms in slots)
#[derive(Clone, Copy, Debug)]
enum Form {
    Bin(&'static str),
    Un(&'static str),
    Call(usize),
    Field,
    Proj,
}

fn forms() -> Vec<Form> {
    let mut v: Vec<Form> = BIN.iter().map(|o| Form::Bin(o)).collect();
    v.extend(UN.iter().map(|o| Form::Un(o)));
    v.extend([Form::Call(0), Form::Call(1), Form::Call(2), Form::Field, Form::Proj]);
    v
}

fn slots(f: Form) -> usize {
    match f {
        Form::Bin(_) => 2,
        Form::Un(_) | Form::Field | Form::Proj => 1,
        Form::Call(k) => 1 + k,
    }
}

struct Names(usize);
impl Names {
    fn var(&mut self) -> T {
        const POOL: [&str; 12] = ["a", "b", "c", "d", "e", "f", "g", "h", "x", "y", "z", "w"];
        let v = T::V(POOL[self.0 % POOL.len()].to_string());
        self.0 += 1;
        v
    }
}

/// build `form` with `inner` at operand position `slot` and fresh variables elsewhere
fn build(form: Form, slot: usize, inner: T, names: &mut Names) -> T {
    let mut ops: Vec<T> = Vec::new();
    let mut inner = Some(inner);
    for i in 0..slots(form) {
        if i == slot {
            ops.push(inner.take().unwrap());
        } else {
            ops.push(names.var());
        }
    }
    match form {
        Form::Bin(o) => {
            let r = ops.pop().unwrap();
            let l = ops.pop().unwrap();
            T::B(o, Box::new(l), Box::new(r))
        }
        Form::Un(o) => T::U(o, Box::new(ops.pop().unwrap())),
        Form::Call(_) => {
            let f = ops.remove(0);
            T::C(Box::new(f), ops)
        }
        Form::Field => T::F(Box::new(ops.pop().unwrap()), "fld".to_string()),
        Form::Proj => T::P(Box::new(ops.pop().unwrap()), 0),
    }
}

fn leaf_form(form: Form, names: &mut Names) -> T {
    // slot index past the end: every operand is a fresh variable
    build(form, usize::MAX, T::V("unused".into()), names)
}

fn random_tree(rng: &mut Rng, depth: u32) -> T {
    const POOL: [&str; 9] = ["a", "b", "c", "f", "g", "x", "y", "foo", "bar_1"];
    if depth == 0 || rng.chance(1, 6) {
        return if rng.chance(1, 4) {
            T::I(["0", "1", "7", "42", "007", "1234567"][rng.below(6)].to_string())
        } else {
            T::V(POOL[rng.below(POOL.len())].to_string())
        };
    }
    let d = depth - 1;
    // a literal is never called directly (model `wf`)
    let recv = |rng: &mut Rng| loop {
        let t = random_tree(rng, d);
        if !t.is_lit() {
            return t;
        }
    };
    match rng.below(10) {
        0..=3 => T::B(BIN[rng.below(12)], Box::new(random_tree(rng, d)), Box::new(random_tree(rng, d))),
        4 | 5 => T::U(UN[rng.below(2)], Box::new(random_tree(rng, d))),
        6 | 7 => {
            let f = recv(rng);
            let k = rng.below(4);
            T::C(Box::new(f), (0..k).map(|_| random_tree(rng, d)).collect())
        }
        // a literal may be the receiver of `.field` / `.index` (only calling it is a diagnostic)
        8 => T::F(Box::new(random_tree(rng, d)), POOL[rng.below(POOL.len())].to_string()),
        _ => T::P(Box::new(random_tree(rng, d)), [0usize, 1, 2, 10][rng.below(4)]),
    }
}

/// harness-side printer for the redundant-parentheses stream: minimal parentheses by the
/// documented levels, plus a redundant pair around any sub-expression with probability 1/3
fn print_redundant(t: &T, p: u32, rng: &mut Rng, out: &mut Vec<String>, redundant: &mut usize) {
    let (lvl, body): (u32, Box<dyn Fn(&mut Rng, &mut Vec<String>, &mut usize)>) = match t {
        T::V(x) => {
            let x = x.clone();
            (9, Box::new(move |_, out, _| out.push(x.clone())))
        }
        T::I(s) => {
            let s = s.clone();
            (9, Box::new(move |_, out, _| out.push(s.clone())))
        }
        T::U(o, e) => {
            let (o, e) = (*o, e.clone());
            (7, Box::new(move |rng, out, red| {
                out.push(if o == "neg" { "-" } else { "!" }.to_string());
                print_redundant(&e, 7, rng, out, red);
            }))
        }
        T::B(o, l, r) => {
            let (o, l, r) = (*o, l.clone(), r.clone());
            let lv = bin_level(o);
            (lv, Box::new(move |rng, out, red| {
                print_redundant(&l, lv, rng, out, red);
                out.push(bin_sym(o).to_string());
                print_redundant(&r, lv + 1, rng, out, red);
            }))
        }
        T::C(f, args) => {
            let (f, args) = (f.clone(), args.clone());
            (8, Box::new(move |rng, out, red| {
                print_redundant(&f, 8, rng, out, red);
                out.push("(".into());
                for (i, x) in args.iter().enumerate() {
                    if i > 0 {
                        out.push(",".into());
                    }
                    print_redundant(x, 0, rng, out, red);
                }
                out.push(")".into());
            }))
        }
        T::F(e, x) => {
            let (e, x) = (e.clone(), x.clone());
            (8, Box::new(move |rng, out, red| {
                print_redundant(&e, 8, rng, out, red);
                out.push(".".into());
                out.push(x.clone());
            }))
        }
        T::P(e, i) => {
            let (e, i) = (e.clone(), *i);
            (8, Box::new(move |rng, out, red| {
                print_redundant(&e, 8, rng, out, red);
                out.push(".".into());
                out.push(i.to_string());
            }))
        }
    };
    let needed = lvl < p;
    let extra = rng.chance(1, 3);
    if extra {
        *redundant += 1;
    }
    let pairs = needed as usize + extra as usize;
    for _ in 0..pairs {
        out.push("(".into());
    }
    body(rng, out, redundant);
    for _ in 0..pairs {
        out.push(")".into());
    }
}

fn gen_trees(args: &util::Args) {
    let thorough = args.tier == "thorough";
    let mut out = String::new();
    let mut id = 0usize;
    let mut sizes: std::collections::BTreeMap<usize, usize> = Default::default();
    let mut emit = |stream: &str, t: &T, extra: Option<String>, out: &mut String| {
        *sizes.entry(t.size().min(40)).or_insert(0) += 1;
        let _ = write!(out, "t{}\tTREE\t{}\t{}\t{}", id, stream, t.kind(), t.sexp().to_text());
        if let Some(x) = extra {
            let _ = write!(out, "\t{}", x);
        }
        out.push('\n');
        id += 1;
    };
    let fs = forms();
    // singles
    for &f in &fs {
        let mut names = Names(0);
        emit("single", &leaf_form(f, &mut names), None, &mut out);
    }
    // exhaustive pairs: outer form × operand position × inner form
    for &o in &fs {
        for s in 0..slots(o) {
            for &i in &fs {
                let mut names = Names(0);
                let inner = leaf_form(i, &mut names);
                let t = build(o, s, inner, &mut names);
                emit("pairs", &t, None, &mut out);
            }
        }
    }
    // exhaustive triples: outer × position × middle × position × inner
    for &o in &fs {
        for s in 0..slots(o) {
            for &m in &fs {
                for s2 in 0..slots(m) {
                    for &i in &fs {
                        let mut names = Names(0);
                        let inner = leaf_form(i, &mut names);
                        let mid = build(m, s2, inner, &mut names);
                        let t = build(o, s, mid, &mut names);
                        emit("triples", &t, None, &mut out);
                    }
                }
            }
        }
    }
    // literals as operands of every form (the only place the `wf` side condition matters)
    for &o in &fs {
        for s in 0..slots(o) {
            let mut names = Names(0);
            let t = build(o, s, T::I("7".into()), &mut names);
            if t.wf() {
                emit("lit-operand", &t, None, &mut out);
            }
        }
    }
    // literals as receivers of postfix operations: outside the model's `wf` (only the tie is checked:
    // `7(x)` must be rejected by both, `7 . f` accepted by both)
    for &o in &fs {
        let mut names = Names(0);
        let t = build(o, 0, T::I("7".into()), &mut names);
        if !t.wf() {
            emit("lit-receiver", &t, None, &mut out);
            let mut names = Names(3);
            let t2 = build(Form::Un("neg"), 0, t.clone(), &mut names);
            emit("lit-receiver", &t2, None, &mut out);
        }
    }
    // random larger trees
    let mut rng = Rng::new(args.seed ^ 0xC11);
    let n_random = args.n.unwrap_or(if thorough { 200000 } else { 4000 });
    for _ in 0..n_random {
        let d = 2 + rng.below(5) as u32;
        let t = random_tree(&mut rng, d);
        emit("random", &t, None, &mut out);
    }
    // redundant parentheses (text made here; the model only parses it)
    let n_par = if thorough { 100000 } else { 3000 };
    for _ in 0..n_par {
        let d = 1 + rng.below(4) as u32;
        let t = random_tree(&mut rng, d);
        let mut toks = Vec::new();
        let mut red = 0usize;
        print_redundant(&t, 0, &mut rng, &mut toks, &mut red);
        if red == 0 {
            continue;
        }
        emit("parens", &t, Some(toks.join(" ")), &mut out);
    }
    let hist = sizes.iter().map(|(k, v)| format!("{}:{}", k, v)).collect::<Vec<_>>().join(" ");
    let _ = writeln!(out, "#SIZES\t{}", hist);
    let _ = std::fs::create_dir_all(&args.out);
    std::fs::write(args.out.join("c11.trees.tsv"), out).expect("write trees");
    println!("trees={}", id);
}

// ------------------------------------------------------------------ real parser

fn dump_expr(e: &ast::Expr) -> S {
    use ast::Expr::*;
    match e {
        EPath { path, .. } if path.segments.len() == 1 => tagged("v", vec![a(&path.segments[0].ident.0)]),
        EInt { value, .. } => tagged("i", vec![a(value)]),
        EUnary { op, expr, .. } => {
            let o = match op {
                common_defs::UnaryOp::Neg => "neg",
                common_defs::UnaryOp::Not => "not",
            };
            tagged("u", vec![a(o), dump_expr(expr)])
        }
        EBinary { op, lhs, rhs, .. } => {
            use common_defs::BinaryOp::*;
            let o = match op {
                Add => "add",
                Sub => "sub",
                Mul => "mul",
                Div => "div",
                And => "and",
                Or => "or",
                Less => "lt",
                Greater => "gt",
                LessEq => "le",
                GreaterEq => "ge",
                Eq => "eq",
                NotEq => "ne",
            };
            tagged("b", vec![a(o), dump_expr(lhs), dump_expr(rhs)])
        }
        ECall { func, args, .. } => {
            let mut v = vec![dump_expr(func)];
            v.extend(args.iter().map(dump_expr));
            tagged("c", v)
        }
        EField { expr, field, .. } => tagged("f", vec![dump_expr(expr), a(&field.0)]),
        EProj { tuple, index, .. } => tagged("p", vec![dump_expr(tuple), n(index)]),
        other => {
            // every other expression form (literals of each kind, tuples, arrays, struct literals,
            // constructor applications, if / match / while / closures, …): its `Debug` text without
            // the source positions, so that two spellings of the same tree dump identically
            let dbg = strip_astptr(&format!("{:?}", other));
            tagged("other", vec![a(dbg)])
        }
    }
}

/// remove every `astptr: … { … }` (balanced braces) and `astptr: None` from a `Debug` rendering
fn strip_astptr(dbg: &str) -> String {
    let b = dbg.as_bytes();
    let mut out = String::new();
    let mut i = 0usize;
    while i < b.len() {
        if dbg[i..].starts_with("astptr: ") {
            let mut j = i + 8;
            // up to the first `{` or `,`/`}` (for `None`)
            while j < b.len() && b[j] != b'{' && b[j] != b',' && b[j] != b'}' {
                j += 1;
            }
            if j < b.len() && b[j] == b'{' {
                let mut depth = 0i32;
                while j < b.len() {
                    if b[j] == b'{' {
                        depth += 1;
                    } else if b[j] == b'}' {
                        depth -= 1;
                        if depth == 0 {
                            j += 1;
                            break;
                        }
                    }
                    j += 1;
                }
                // `Some(MySyntaxNodePtr { … })`: swallow the closing parenthesis of `Some(`
                if j < b.len() && b[j] == b')' {
                    j += 1;
                }
            }
            out.push_str("@");
            i = j;
        } else {
            let ch = dbg[i..].chars().next().unwrap();
            out.push(ch);
            i += ch.len_utf8();
        }
    }
    out
}

const WRAP_PRE: &str = "enum Ctor { Foo(int32), Bar }\nfn t() -> unit {\n    let r =\n";
const WRAP_POST: &str = "\n;\n    ()\n}\n";

/// parse `expr_text` in a function body with the real parser + lowering; the tree of the
/// `let` initialiser, or `ERR:<stage>:<first message>`
fn real_parse(path: &Path, expr_text: &str) -> (String, String) {
    let src = format!("{}{}{}", WRAP_PRE, expr_text, WRAP_POST);
    let r = catch_unwind(AssertUnwindSafe(|| pipeline::parse_ast_file(path, &src)));
    let res = match r {
        Err(p) => format!("PANIC:{}", util::panic_message(p)),
        Ok(Err(e)) => {
            let msg = e.diagnostics().iter().next().map(|d| d.message().to_string()).unwrap_or_default();
            format!("ERR:{}:{}", util::stage_of(&e), msg.chars().take(80).collect::<String>())
        }
        Ok(Ok(file)) => {
            let mut found = None;
            for item in &file.toplevels {
                if let ast::Item::Fn(f) = item {
                    if let ast::Expr::EBlock { exprs, .. } = &f.body {
                        if let Some(ast::Expr::ELet { value, .. }) = exprs.first() {
                            found = Some(dump_expr(value).to_text());
                        }
                    }
                }
            }
            found.unwrap_or_else(|| "ERR:shape:no let initialiser in the parsed function".to_string())
        }
    };
    (res, src)
}

fn significant(text: &str) -> Vec<String> {
    lexer::lex(text).into_iter().filter(|t| !t.kind.is_trivia()).map(|t| t.text.to_string()).collect()
}

/// glue the tokens without blanks wherever the real lexer still reads the same token sequence
fn tight(tokens: &[&str], needed: &mut usize) -> String {
    let mut s = String::new();
    for (i, t) in tokens.iter().enumerate() {
        let cand = format!("{}{}", s, t);
        let ok = {
            let got = significant(&cand);
            got.len() == i + 1 && got.iter().zip(tokens.iter()).all(|(g, w)| g == w)
        };
        if ok || i == 0 {
            s = cand;
        } else {
            *needed += 1;
            s.push(' ');
            s.push_str(t);
        }
    }
    s
}

fn with_trivia(tokens: &[&str], rng: &mut Rng) -> String {
    const TRIVIA: [&str; 9] =
        [" ", "  ", "\t", "\n", "\n\n    ", " // c + (d\n", " //\n  ", "\r\n", " \t \n"];
    let mut s = String::new();
    s.push_str(TRIVIA[rng.below(TRIVIA.len())]);
    for t in tokens {
        s.push_str(t);
        s.push_str(TRIVIA[rng.below(TRIVIA.len())]);
    }
    s
}

fn parse_cmd(args: &util::Args) {
    util::quiet_panics();
    let file = args.rest.iter().position(|x| x == "--file").map(|i| args.rest[i + 1].clone()).expect("--file");
    let text = std::fs::read_to_string(&file).expect("read texts");
    let dir = util::scratch_dir("c11");
    let path = dir.join("main.gom");
    let mut rng = Rng::new(args.seed ^ 0x7121);
    let mut out = String::new();
    let mut needed_spaces = 0usize;
    let mut n = 0usize;
    for line in text.lines() {
        let mut it = line.splitn(2, '\t');
        let (Some(id), Some(txt)) = (it.next(), it.next()) else { continue };
        let tokens: Vec<&str> = txt.split(' ').filter(|x| !x.is_empty()).collect();
        let variants = [
            ("canon", tokens.join(" ")),
            ("trivia", with_trivia(&tokens, &mut rng)),
            ("tight", tight(&tokens, &mut needed_spaces)),
        ];
        for (name, v) in variants.iter() {
            let (res, src) = real_parse(&path, v);
            let _ = writeln!(out, "{}\tPARSED\t{}\t{}\t{}", id, name, res, esc_line(&src));
            n += 1;
        }
    }
    let _ = writeln!(out, "#TIGHT\tblanks-the-lexer-needed={}", needed_spaces);
    std::fs::write(args.out.join("c11.parsed.tsv"), out).expect("write parsed");
    let _ = std::fs::remove_dir_all(&dir);
    println!("parsed={}", n);
}

// ------------------------------------------------------------------ literals

fn hex_of(s: &str) -> String {
    s.chars().map(|c| (c as u32).to_string()).collect::<Vec<_>>().join(" ")
}

/// every `EPrim` (except unit) of the Core IR of function `main`, as `Kind:value`
fn core_prims(c: &pipeline::Compilation) -> Vec<String> {
    fn walk(v: &serde_json::Value, out: &mut Vec<String>) {
        match v {
            serde_json::Value::Object(m) => {
                if let Some(p) = m.get("EPrim") {
                    if let Some(val) = p.get("value").and_then(|x| x.as_object()) {
                        for (kind, body) in val {
                            if kind == "Unit" {
                                continue;
                            }
                            let inner = body.get("value").cloned().unwrap_or(serde_json::Value::Null);
                            let s = match &inner {
                                serde_json::Value::String(s) => hex_of(s),
                                other => other.to_string(),
                            };
                            out.push(format!("{}:{}", kind, s));
                        }
                    }
                }
                for (_, x) in m {
                    walk(x, out);
                }
            }
            serde_json::Value::Array(xs) => xs.iter().for_each(|x| walk(x, out)),
            _ => {}
        }
    }
    let mut out = Vec::new();
    for f in &c.core.toplevels {
        if f.name == "main" {
            if let Ok(v) = serde_json::to_value(&f.body) {
                walk(&v, &mut out);
            }
        }
    }
    out
}

fn float_prim_bits(c: &pipeline::Compilation) -> Vec<String> {
    // floats are compared by bits, read from the typed Core tree (serde_json would round-trip them too,
    // but bits make NaN/-0.0 comparisons exact)
    fn walk(e: &compiler::core::Expr, out: &mut Vec<String>) {
        use compiler::common::Prim;
        use compiler::core::Expr::*;
        match e {
            EPrim { value, .. } => match value {
                Prim::Float32 { value } => out.push(format!("Float32:bits{}", value.to_bits())),
                Prim::Float64 { value } => out.push(format!("Float64:bits{}", value.to_bits())),
                _ => {}
            },
            ELet { value, body, .. } => {
                walk(value, out);
                walk(body, out);
            }
            _ => {}
        }
    }
    let mut out = Vec::new();
    for f in &c.core.toplevels {
        if f.name == "main" {
            walk(&f.body, &mut out);
        }
    }
    out
}

struct Lit {
    class: String,
    /// the literal as written in the source
    spelling: String,
    /// optional `let` annotation
    annot: Option<&'static str>,
    /// `Kind:value` expected in Core (strings as code points)
    expected: String,
    /// for strings: the characters between the quotes (code points), sent to the model
    body: Option<String>,
}

fn literal_cases(args: &util::Args) -> Vec<Lit> {
    let mut v = Vec::new();
    let mut rng = Rng::new(args.seed ^ 0x11C);
    // integers: every suffix, boundaries and a few random values
    let ints: [(&str, &str, u128); 8] = [
        ("i8", "Int8", i8::MAX as u128),
        ("i16", "Int16", i16::MAX as u128),
        ("i32", "Int32", i32::MAX as u128),
        ("i64", "Int64", i64::MAX as u128),
        ("u8", "UInt8", u8::MAX as u128),
        ("u16", "UInt16", u16::MAX as u128),
        ("u32", "UInt32", u32::MAX as u128),
        ("u64", "UInt64", u64::MAX as u128),
    ];
    for (suf, kind, max) in ints {
        let mut vals: Vec<u128> = vec![0, 1, 9, 10, max / 2, max - 1, max];
        for _ in 0..4 {
            vals.push((rng.next() as u128) % (max + 1));
        }
        for x in vals {
            v.push(Lit {
                class: format!("int-{}", suf),
                spelling: format!("{}{}", x, suf),
                annot: None,
                expected: format!("{}:{}", kind, x),
                body: None,
            });
        }
        // leading zeros denote the same value
        v.push(Lit {
            class: format!("int-{}-leading-zeros", suf),
            spelling: format!("007{}", suf),
            annot: None,
            expected: format!("{}:7", kind),
            body: None,
        });
    }
    for x in [0u128, 1, 42, 2147483646, 2147483647] {
        v.push(Lit {
            class: "int-unsuffixed".into(),
            spelling: x.to_string(),
            annot: None,
            expected: format!("Int32:{}", x),
            body: None,
        });
    }
    // floats: dyadic rationals m / 2^k have exact, short decimal expansions, so the denoted value
    // is known without calling a decimal parser
    for (suf, kind) in [("", "Float64"), ("f64", "Float64"), ("f32", "Float32")] {
        let mut cases: Vec<(u64, u32)> = vec![(0, 0), (1, 0), (1, 1), (3, 2), (5, 3), (1234567, 4), (255, 8)];
        for _ in 0..6 {
            cases.push((rng.next() % 100000, (rng.next() % 10) as u32));
        }
        for (m, k) in cases {
            // exact decimal text of m / 2^k: m * 5^k / 10^k
            let num = (m as u128) * 5u128.pow(k);
            let mut digits = num.to_string();
            let k = k as usize;
            if k == 0 {
                digits.push_str(".0");
            } else {
                while digits.len() <= k {
                    digits.insert(0, '0');
                }
                digits.insert(digits.len() - k, '.');
            }
            let expected = if kind == "Float32" {
                let val = (m as f32) / (2f32.powi(k as i32));
                if (m as f32) as u64 != m {
                    continue;
                }
                format!("Float32:bits{}", val.to_bits())
            } else {
                let val = (m as f64) / (2f64.powi(k as i32));
                format!("Float64:bits{}", val.to_bits())
            };
            v.push(Lit {
                class: format!("float{}", if suf.is_empty() { "-unsuffixed".to_string() } else { format!("-{}", suf) }),
                spelling: format!("{}{}", digits, suf),
                annot: None,
                expected,
                body: None,
            });
        }
    }
    // strings: pieces (spelling, denoted text)
    let esc: Vec<(&str, String, &str)> = vec![
        ("esc-n", "\n".into(), "\\n"),
        ("esc-t", "\t".into(), "\\t"),
        ("esc-quote", "\"".into(), "\\\""),
        ("esc-backslash", "\\".into(), "\\\\"),
        ("esc-slash", "/".into(), "\\/"),
        ("esc-b", "\u{8}".into(), "\\b"),
        ("esc-f", "\u{c}".into(), "\\f"),
        ("esc-r", "\r".into(), "\\r"),
        ("esc-u-ascii", "A".into(), "\\u0041"),
        ("esc-u-latin1", "\u{e9}".into(), "\\u00e9"),
        ("esc-u-upper-hex", "\u{20AC}".into(), "\\u20AC"),
        ("esc-u-control", "\u{1}".into(), "\\u0001"),
        ("esc-u-surrogate-pair", "\u{1F600}".into(), "\\ud83d\\ude00"),
    ];
    let plain: Vec<(&str, String, String)> = vec![
        ("plain-empty", "".into(), "".into()),
        ("plain-ascii", "hello, world".into(), "hello, world".into()),
        ("plain-unicode", "h\u{e9}llo \u{4e16}\u{754c} \u{1F600}".into(), "h\u{e9}llo \u{4e16}\u{754c} \u{1F600}".into()),
        ("plain-comment-like", "a // b".into(), "a // b".into()),
        ("plain-single-quote", "it's".into(), "it's".into()),
    ];
    for (class, val, sp) in &plain {
        v.push(Lit {
            class: format!("str-{}", class),
            spelling: format!("\"{}\"", sp),
            annot: None,
            expected: format!("String:{}", hex_of(val)),
            body: Some(hex_of(sp)),
        });
    }
    for (class, val, sp) in &esc {
        for (pre, post) in [("", ""), ("a", "b"), ("x ", "")] {
            let body = format!("{}{}{}", pre, sp, post);
            v.push(Lit {
                class: format!("str-{}", class),
                spelling: format!("\"{}\"", body),
                annot: None,
                expected: format!("String:{}", hex_of(&format!("{}{}{}", pre, val, post))),
                body: Some(hex_of(&body)),
            });
        }
    }
    // random mixtures of escapes and plain text
    for _ in 0..(if args.tier == "thorough" { 2000 } else { 200 }) {
        let k = 1 + rng.below(6);
        let mut sp = String::new();
        let mut val = String::new();
        for _ in 0..k {
            if rng.chance(1, 2) {
                let (_, d, s) = &esc[rng.below(esc.len())];
                sp.push_str(s);
                val.push_str(d);
            } else {
                let w = ["a", "Z", " ", "0", "n", "u0041", "\u{e9}", "'", "//"][rng.below(9)];
                sp.push_str(w);
                val.push_str(w);
            }
        }
        v.push(Lit {
            class: "str-mixed".into(),
            spelling: format!("\"{}\"", sp),
            annot: None,
            expected: format!("String:{}", hex_of(&val)),
            body: Some(hex_of(&sp)),
        });
    }
    // multi-line strings: every line starts with `\\`; the text is raw (no escapes)
    let ml: Vec<(&str, Vec<&str>)> = vec![
        ("two-lines", vec!["first", "second"]),
        ("three-lines", vec!["a", "", "c"]),
        ("raw-backslash-n", vec!["a\\nb", "c\\\\d"]),
        ("quotes-inside", vec!["say \"hi\"", "// not a comment"]),
        ("leading-blanks-kept", vec!["  indented", "\ttabbed"]),
    ];
    // lines with trailing / interior / only blanks, tabs, non-ASCII blanks, and random raw lines:
    // what is written after the `\\\\` marker is the value, character for character
    let mut ml: Vec<(String, Vec<String>)> = ml.into_iter().map(|(c, ls)| (c.to_string(), ls.into_iter().map(|l| l.to_string()).collect())).collect();
    ml.push(("trailing-space".into(), vec!["name:  ".into(), "value\t".into(), "   ".into(), "end".into()]));
    ml.push(("trailing-nbsp".into(), vec!["a\u{a0}".into(), "b\u{3000}".into()]));
    ml.push(("only-blank-lines".into(), vec![" ".into(), "\t ".into()]));
    ml.push(("interior-blanks".into(), vec!["a  b\tc".into(), " \t x \t ".into()]));
    {
        let alphabet = ["a", " ", "\t", "\\", "\"", "/", "é", "\u{a0}", "x", "  "];
        let mut r = crate::rng::Rng::new(args.seed ^ 0x11C);
        let n_random = if args.tier == "thorough" { 400 } else { 60 };
        for k in 0..n_random {
            let nl = 2 + r.below(3); // the lexer needs at least two `\\\\` lines
            let lines: Vec<String> = (0..nl).map(|_| (0..r.below(6)).map(|_| *r.pick(&alphabet)).collect::<String>()).collect();
            ml.push((format!("random-{}", k), lines));
        }
    }
    for (class, lines) in ml {
        let spelling = lines.iter().map(|l| format!("\\\\{}", l)).collect::<Vec<_>>().join("\n        ");
        v.push(Lit {
            class: format!("mstr-{}", class),
            spelling: format!("{}\n    ", spelling),
            annot: None,
            expected: format!("String:{}", hex_of(&lines.join("\n"))),
            body: Some(hex_of(&spelling)),
        });
    }
    v
}

fn lits(args: &util::Args) {
    util::quiet_panics();
    let dir = util::scratch_dir("c11lit");
    let mut out = String::new();
    let cases = literal_cases(args);
    for (i, c) in cases.iter().enumerate() {
        let annot = c.annot.map(|t| format!(": {}", t)).unwrap_or_default();
        let src = format!("fn main() -> unit {{\n    let x{} = {};\n    ()\n}}\n", annot, c.spelling);
        let observed = match util::compile_text(&dir.join(format!("l{}", i)), &src) {
            Outcome::Ok(comp) => {
                let mut prims = if c.class.starts_with("float") { float_prim_bits(&comp) } else { core_prims(&comp) };
                if prims.len() == 1 { prims.pop().unwrap() } else { format!("SHAPE:{}", prims.join("|")) }
            }
            Outcome::Err(stage, msgs) => format!("ERR:{}:{}", stage, msgs.first().cloned().unwrap_or_default()),
            Outcome::Panic(m) => format!("PANIC:{}", m),
        };
        let _ = writeln!(
            out,
            "l{}\tLIT\t{}\t{}\t{}\t{}\t{}",
            i,
            c.class,
            esc_line(&c.spelling),
            c.expected,
            esc_line(&observed),
            c.body.clone().unwrap_or_default()
        );
    }
    std::fs::write(args.out.join("c11.lits.tsv"), out).expect("write lits");
    let _ = std::fs::remove_dir_all(&dir);
    println!("lits={}", cases.len());
}

// ------------------------------------------------------------------ arbitrary programs: string constants of `main`

/// `gv c11 strs --file F`: each line `id<TAB>escaped source`; compiles the program with the whole
/// pipeline and prints the String `EPrim`s of Core `main` (code points, sorted) or the diagnostic.
/// Sources and expectations are made by tools/props/c11.py (the oracle is computed there, from the text).
fn strs(args: &util::Args) {
    util::quiet_panics();
    let file = args.rest.iter().position(|x| x == "--file").map(|i| args.rest[i + 1].clone()).expect("--file");
    let text = std::fs::read_to_string(&file).expect("read programs");
    let dir = util::scratch_dir("c11strs");
    let mut out = String::new();
    let mut n = 0usize;
    for line in text.lines() {
        let mut it = line.splitn(2, '\t');
        let (Some(id), Some(esc)) = (it.next(), it.next()) else { continue };
        let src = unesc_line(esc);
        let observed = match util::compile_text(&dir.join(id), &src) {
            Outcome::Ok(comp) => {
                let mut prims: Vec<String> =
                    core_prims(&comp).into_iter().filter_map(|p| p.strip_prefix("String:").map(|x| x.to_string())).collect();
                prims.sort();
                format!("OK\t{}", prims.join("|"))
            }
            Outcome::Err(stage, msgs) => format!("ERR\t{}:{}", stage, esc_line(&msgs.first().cloned().unwrap_or_default())),
            Outcome::Panic(m) => format!("PANIC\t{}", esc_line(&m)),
        };
        let _ = writeln!(out, "{}\tSTRS\t{}", id, observed);
        let _ = std::fs::remove_dir_all(dir.join(id));
        n += 1;
    }
    std::fs::write(args.out.join("c11.strs.tsv"), out).expect("write strs");
    let _ = std::fs::remove_dir_all(&dir);
    println!("strs={}", n);
}

fn unesc_line(s: &str) -> String {
    let mut out = String::new();
    let mut it = s.chars();
    while let Some(c) = it.next() {
        if c == '\\' {
            match it.next() {
                Some('n') => out.push('\n'),
                Some('t') => out.push('\t'),
                Some('r') => out.push('\r'),
                Some(o) => out.push(o),
                None => {}
            }
        } else {
            out.push(c);
        }
    }
    out
}

// ------------------------------------------------------------------ golden files of the corpus

fn goldens(args: &util::Args) {
    util::quiet_panics();
    let mut out = String::new();
    let mut total = 0usize;
    let mut diff = 0usize;
    for d in util::corpus_pipeline_dirs() {
        let p = d.join("main.gom");
        let src = std::fs::read_to_string(&p).unwrap_or_default();
        let name = d.file_name().unwrap().to_string_lossy().to_string();
        match util::compile_path(&p, &src) {
            Outcome::Ok(c) => {
                let hir_ctx = compiler::pprint::hir_pprint::HirPrintCtx::new(&c.hir_table);
                let dumps: Vec<(&str, String)> = vec![
                    ("cst", parser::debug_tree(&c.green_node)),
                    ("ast", c.ast.to_pretty(120)),
                    ("hir", c.hir.to_pretty(&hir_ctx, 120)),
                    ("tast", c.tast.to_pretty(&c.genv, 120)),
                    ("core", c.core.to_pretty(&c.genv, 120)),
                    ("mono", c.mono.to_pretty(&c.monoenv, 120)),
                    ("anf", c.anf.to_pretty(&c.anfenv, 120)),
                    ("go", c.go.to_pretty(&c.goenv, 120)),
                ];
                for (ext, text) in dumps {
                    let g = d.join(format!("main.gom.{}", ext));
                    if let Ok(want) = std::fs::read_to_string(&g) {
                        total += 1;
                        if want != text {
                            diff += 1;
                            let _ = writeln!(out, "{}\tGOLDEN-DIFF\t{}", name, ext);
                        }
                    }
                }
            }
            Outcome::Err(stage, msgs) => {
                diff += 1;
                let _ = writeln!(out, "{}\tGOLDEN-ERR\t{}\t{}", name, stage, esc_line(&msgs.join("; ")));
            }
            Outcome::Panic(m) => {
                diff += 1;
                let _ = writeln!(out, "{}\tGOLDEN-PANIC\t{}", name, esc_line(&m));
            }
        }
    }
    let _ = writeln!(out, "#GOLDENS\tcompared={}\tdiffering={}", total, diff);
    let _ = std::fs::create_dir_all(&args.out);
    std::fs::write(args.out.join("c11.goldens.tsv"), &out).expect("write goldens");
    print!("{}", out);
}

// ------------------------------------------------------------------ host positions

/// the real reading of one source text: the `Debug` text of the whole lowered `ast::File` without
/// source positions, or `ERR:<stage>:<message>` / `PANIC:…`; for the base host also the initialiser of
/// the first `let` of `fn t` (its `Debug` text and its tree dump)
fn read_file(path: &Path, src: &str) -> (String, Option<(String, String)>) {
    let r = catch_unwind(AssertUnwindSafe(|| pipeline::parse_ast_file(path, src)));
    match r {
        Err(p) => (format!("PANIC:{}", util::panic_message(p)), None),
        Ok(Err(e)) => {
            let msg = e.diagnostics().iter().next().map(|d| d.message().to_string()).unwrap_or_default();
            (format!("ERR:{}:{}", util::stage_of(&e), msg.chars().take(80).collect::<String>()), None)
        }
        Ok(Ok(file)) => {
            let mut found = None;
            for item in &file.toplevels {
                if let ast::Item::Fn(f) = item {
                    if f.name.0 != "t" {
                        continue;
                    }
                    if let ast::Expr::EBlock { exprs, .. } = &f.body {
                        if let Some(ast::Expr::ELet { value, .. }) = exprs.first() {
                            found = Some((strip_astptr(&format!("{:?}", value)), dump_expr(value).to_text()));
                        }
                    }
                }
            }
            (strip_astptr(&format!("{:?}", file)), found)
        }
    }
}

/// `gv c11 hosts --file F`: position independence of the reading of an expression text.
/// F holds `H<TAB>name<TAB>source with the word HOLE` lines (the first one is the base host and must be
/// of the form `… fn t() … { let … = HOLE ; … }`) and `T<TAB>id<TAB>expression text` lines. For every
/// host the file is read once with the identifier `hole__` in the hole; a text put into the hole must
/// then be read as exactly that file with the `hole__` expression replaced by what the text is read as
/// in the base host (and rejected in every host if it is rejected in the base host).
fn hosts(args: &util::Args) {
    util::quiet_panics();
    let file = args.rest.iter().position(|x| x == "--file").map(|i| args.rest[i + 1].clone()).expect("--file");
    let text = std::fs::read_to_string(&file).expect("read hosts");
    let dir = util::scratch_dir("c11h");
    let path = dir.join("main.gom");
    let mut out = String::new();
    let mut hosts: Vec<(String, String, String)> = Vec::new(); // name, template, reading with hole__
    let mut hole_dbg = String::new();
    let mut n = 0usize;
    for line in text.lines() {
        let cols: Vec<&str> = line.splitn(3, '\t').collect();
        if cols.len() < 3 {
            continue;
        }
        if cols[0] == "H" {
            let template = unesc_line(cols[2]);
            let (d, found) = read_file(&path, &template.replace("HOLE", "hole__"));
            if hosts.is_empty() {
                match found {
                    Some((dbg, _)) if d.matches(dbg.as_str()).count() == 1 => hole_dbg = dbg,
                    _ => {
                        let _ = writeln!(out, "{}\tHOSTBAD\tthe base host does not read as a let with the hole as initialiser: {}", cols[1], esc_line(&d.chars().take(300).collect::<String>()));
                        break;
                    }
                }
            }
            if d.starts_with("ERR:") || d.starts_with("PANIC:") || d.matches(hole_dbg.as_str()).count() != 1 {
                let _ = writeln!(out, "{}\tHOSTBAD\t{}", cols[1], esc_line(&d.chars().take(300).collect::<String>()));
                continue;
            }
            hosts.push((cols[1].to_string(), template, d));
        } else if cols[0] == "T" && !hosts.is_empty() {
            let id = cols[1];
            let expr_text = cols[2];
            let (base_d, base_found) = read_file(&path, &hosts[0].1.replace("HOLE", expr_text));
            let base_rejected = base_d.starts_with("ERR:") || base_d.starts_with("PANIC:");
            let (dbg, sexp) = match (&base_found, base_rejected) {
                (Some((dbg, sexp)), false) => (dbg.clone(), sexp.clone()),
                (_, true) => (String::new(), base_d.clone()),
                _ => (String::new(), "ERR:shape:no let initialiser in the base host".to_string()),
            };
            let mut ok = 0usize;
            let mut bad: Vec<String> = Vec::new();
            for (k, (name, template, with_hole)) in hosts.iter().enumerate() {
                let src = template.replace("HOLE", expr_text);
                let d = if k == 0 { base_d.clone() } else { read_file(&path, &src).0 };
                n += 1;
                let rejected = d.starts_with("ERR:") || d.starts_with("PANIC:");
                let good = if base_rejected || dbg.is_empty() {
                    rejected == base_rejected
                } else {
                    !rejected && d == with_hole.replace(hole_dbg.as_str(), dbg.as_str())
                };
                if good {
                    ok += 1;
                } else {
                    bad.push(name.clone());
                    // where the two readings part (a window of the observed and of the expected text)
                    let want = with_hole.replace(hole_dbg.as_str(), dbg.as_str());
                    let common = d.bytes().zip(want.bytes()).take_while(|(x, y)| x == y).count();
                    let mut from = common.saturating_sub(120);
                    while !d.is_char_boundary(from) {
                        from -= 1;
                    }
                    let win = |s: &str| s[from.min(s.len())..].chars().take(420).collect::<String>();
                    let _ = writeln!(out, "{}\tHOSTFAIL\t{}\t{}\t{}\t{}", id, name, esc_line(&src),
                        esc_line(&if rejected { d.clone() } else { win(&d) }),
                        esc_line(&if base_rejected { base_d.clone() } else { win(&want) }));
                }
            }
            let _ = writeln!(out, "{}\tHOSTS\t{}\t{}\t{}", id, sexp, ok, bad.join(","));
        }
    }
    let _ = writeln!(out, "#HOSTS\t{}", hosts.iter().map(|h| h.0.clone()).collect::<Vec<_>>().join(","));
    let _ = std::fs::create_dir_all(&args.out);
    std::fs::write(args.out.join("c11.hosts.tsv"), out).expect("write hosts");
    let _ = std::fs::remove_dir_all(&dir);
    println!("host-readings={}", n);
}

/// `gv c11 names`: CST->AST lowering commutes with renaming a local binder that is spelled like a
/// package-level name (the catalogue of harness/src/namecat.rs; every single cell in the thorough tier)
fn names(args: &util::Args) {
    util::quiet_panics();
    let dir = util::scratch_dir("c11n");
    let mut out = String::new();
    let mut cases = crate::namecat::catalogue(args.seed, args.tier == "thorough");
    if args.tier == "thorough" {
        cases.extend(crate::namecat::single_cells());
    }
    for c in &cases {
        let cells = c.cells.iter().map(|(u, b)| format!("{}/{}", u, b)).collect::<Vec<_>>().join(" ");
        let (verdict, detail) = match crate::namecat::lowering_alpha(c, &dir) {
            Ok(n) => ("ok", n.to_string()),
            Err(e) => ("diff", e),
        };
        let text: String = c.files.iter().map(|(r, t)| format!("//// file: {}\n{}", r, t)).collect();
        writeln!(out, "{}\tNAMES\t{}\t{}\t{}\t{}\t{}\t{}", c.id, verdict, crate::sexp::esc_line(&detail), c.name, c.fresh, cells, crate::sexp::esc_line(&text)).unwrap();
    }
    let _ = std::fs::remove_dir_all(&dir);
    let _ = std::fs::create_dir_all(&args.out);
    std::fs::write(args.out.join("c11.names.tsv"), out).unwrap();
}

pub fn main(args: &util::Args) {
    match args.rest.first().map(|s| s.as_str()) {
        Some("gen") => gen_trees(args),
        Some("parse") => parse_cmd(args),
        Some("lits") => lits(args),
        Some("strs") => strs(args),
        Some("goldens") => goldens(args),
        Some("names") => names(args),
        Some("hosts") => hosts(args),
        _ => {
            eprintln!("usage: gv c11 <gen|parse --file F|lits|strs --file F|goldens|names|hosts --file F>");
            std::process::exit(2);
        }
    }
}
