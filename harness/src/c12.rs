//! C12 — lossless syntax tree, exact positions.
//!
//! Runs the REAL `lexer::lex`, `parser::Parser` + `file::file` + `build_tree` and
//! `parser::parse` on exhaustive small strings, corpus files, mutants and random
//! strings. For every input it
//!  * evaluates the property directly on the implementation's outputs (tiling, char
//!    boundaries, tree text == input, parse twice, every range inside the text);
//!  * writes the real token stream (and, for `T` cases, the real event list, the real
//!    tree and the real diagnostic ranges) for the Lean model to be compared with.
use crate::rng::Rng;
use crate::util;
use parser::event::Event;
use rowan::NodeOrToken;
use std::collections::HashSet;
use std::fmt::Write as _;
use std::panic::{AssertUnwindSafe, catch_unwind};
use std::path::Path;
use std::sync::atomic::{AtomicBool, AtomicU64, AtomicUsize, Ordering};
use std::sync::{Arc, Mutex};
use std::time::{Duration, Instant};

const HANG_SECS: u64 = 20;

/// 34 symbols covering every token class: keyword-forming letters (fn if in), hex
/// letters, `u` (\u escapes, uN suffixes), digits with suffix digits, `_`, quote,
/// backslash, slash, newline, CR, blank, tab, punctuation that forms 2-char tokens,
/// a char no rule accepts (`$`), a control char, a 2-byte and a 4-byte scalar.
pub const ALPHA_FULL: &[char] = &[
    'a', 'f', 'n', 'i', 'u', 'A', '0', '1', '8', '_', '"', '\\', '/', '\n', '\r', ' ', '\t', '.', ':', '=',
    '>', '-', '<', '!', '&', '|', '(', '}', '#', '$', ';', '\u{1}', 'é', '😀',
];
/// denser on strings / comments / numbers
pub const ALPHA_MID: &[char] = &['a', 'n', 'i', 'u', '1', '8', '_', '"', '\\', '/', '\n', ' ', '.', ':', '=', 'é', '😀', '$'];
/// multi-line strings need `\\`, newline, indentation, content
pub const ALPHA_ML: &[char] = &['\\', '\n', ' ', 'a', 'é', '"', '/'];
pub const ALPHA_ML2: &[char] = &['\\', '\n', ' ', '😀'];
pub const ALPHA_ML3: &[char] = &['\\', '\n', 'é', 'a', ' '];
/// characters an editor, an OS or a "robustness" patch may treat specially (BOM and other Cf, Zs, Zl/Zp,
/// NUL, NEL, FF, VT, CR) next to one representative of the ordinary classes
pub const ALPHA_SPECIAL: &[char] = &[
    '\u{feff}', '\u{200b}', '\u{a0}', '\u{2028}', '\u{85}', '\0', '\r', '\n', '\u{c}', ' ', 'a', '1', '"', '/', '\\', '#', '!',
];

/// things put in front of / behind / inside other texts (the "special first/last character" family)
pub const SPECIALS: &[&str] = &[
    "\u{feff}", "\u{fffe}", "\0", "\u{200b}", "\u{2028}", "\u{2029}", "\u{a0}", "\u{85}", "\r", "\r\n", "\n", "\u{c}", "\u{b}",
    "#!/usr/bin/env goml\n", "#!\n", "\u{feff}\u{feff}", " \u{feff}", "\n\u{feff}", "\u{feff}\n", "\u{feff}#!/bin/goml\n",
    "\u{202e}", "\u{3000}", "\u{7f}", "\u{fffd}", "\u{10ffff}", "\u{1a}", "\t",
];

fn hex(bytes: &[u8], out: &mut String) {
    const H: &[u8; 16] = b"0123456789abcdef";
    for b in bytes {
        out.push(H[(b >> 4) as usize] as char);
        out.push(H[(b & 15) as usize] as char);
    }
}

fn hexs(s: &str) -> String {
    let mut o = String::with_capacity(s.len() * 2);
    hex(s.as_bytes(), &mut o);
    o
}

fn render_green(node: &rowan::GreenNodeData, out: &mut String) {
    let _ = write!(out, "({}", node.kind().0);
    for ch in node.children() {
        out.push(' ');
        match ch {
            NodeOrToken::Node(n) => render_green(n, out),
            NodeOrToken::Token(t) => {
                let _ = write!(out, "{}:", t.kind().0);
                hex(t.text().as_bytes(), out);
            }
        }
    }
    out.push(')');
}

fn range_str(r: Option<text_size::TextRange>) -> String {
    match r {
        None => "-".to_string(),
        Some(r) => format!("{}..{}", u32::from(r.start()), u32::from(r.end())),
    }
}

#[derive(Default)]
pub struct CaseOut {
    pub model_line: String,          // for the Lean driver (without id)
    pub real_line: String,           // real tree \t diag ranges \t n_error_events   (T cases)
    pub failures: Vec<(String, String)>, // (oracle kind, detail)
    pub n_tokens: usize,
    pub n_error_tokens: usize,
    pub n_events: usize,
    pub n_diags: usize,
    pub kinds: u128,                 // bitset of token kinds seen (kinds < 128)
    pub fwd_parents: usize,
    pub lower_panics: usize,
    pub n_lower_diags: usize,
    pub fuel_zero: bool,             // the parser ran out of fuel on this input ("parser did not consume input" reported)
}

/// direct oracles on the token stream
fn lex_oracle(input: &str, toks: &[lexer::Token], f: &mut Vec<(String, String)>) {
    let mut pos = 0u32;
    for (i, t) in toks.iter().enumerate() {
        let (s, e) = (u32::from(t.range.start()), u32::from(t.range.end()));
        if s != pos {
            f.push(("lex-gap-or-overlap".into(), format!("token {} starts at {} but the previous one ended at {}", i, s, pos)));
            return;
        }
        if e <= s {
            f.push(("lex-empty-token".into(), format!("token {} is empty at {}", i, s)));
            return;
        }
        if e as usize > input.len() || !input.is_char_boundary(e as usize) {
            f.push(("lex-not-char-boundary".into(), format!("token {} ends at {} which is not a char boundary", i, e)));
            return;
        }
        if &input[s as usize..e as usize] != t.text {
            f.push(("lex-text-mismatch".into(), format!("token {} text differs from the input slice {}..{}", i, s, e)));
            return;
        }
        if t.kind == lexer::TokenKind::Eof {
            f.push(("lex-eof-token".into(), format!("token {} has kind Eof", i)));
        }
        pos = e;
    }
    if pos as usize != input.len() {
        f.push(("lex-short".into(), format!("tokens end at {} but the text has {} bytes", pos, input.len())));
    }
}

fn diag_list(d: &diagnostics::Diagnostics) -> Vec<(String, Option<text_size::TextRange>)> {
    d.iter().map(|x| (x.message().to_string(), x.range())).collect()
}

/// run everything on one input; `with_tree` = also emit events + tree for the model
pub fn run_case(input: &str, with_tree: bool) -> CaseOut {
    let mut out = CaseOut::default();
    let path = Path::new("c12.gom");
    // ---- lexer
    let toks = match catch_unwind(AssertUnwindSafe(|| lexer::lex(input))) {
        Ok(t) => t,
        Err(p) => {
            out.failures.push(("lex-panic".into(), util::panic_message(p)));
            return out;
        }
    };
    lex_oracle(input, &toks, &mut out.failures);
    out.n_tokens = toks.len();
    let mut ml = String::with_capacity(input.len() * 2 + toks.len() * 6 + 8);
    ml.push_str(if with_tree { "T\t" } else { "L\t" });
    hex(input.as_bytes(), &mut ml);
    ml.push('\t');
    for (i, t) in toks.iter().enumerate() {
        if i > 0 {
            ml.push(',');
        }
        let k = t.kind as u16;
        if k < 128 {
            out.kinds |= 1u128 << k;
        }
        if t.kind == lexer::TokenKind::Error {
            out.n_error_tokens += 1;
        }
        let _ = write!(ml, "{}:{}", k, u32::from(t.range.len()));
    }
    // ---- parser: events, tree
    let len = input.len() as u32;
    let parsed = catch_unwind(AssertUnwindSafe(|| {
        let mut p = parser::parser::Parser::new(path, toks.clone());
        parser::file::file(&mut p);
        let mut evs = String::new();
        let mut n_err = 0usize;
        let mut fwd = 0usize;
        if with_tree {
            for (i, e) in p.events.iter().enumerate() {
                if i > 0 {
                    evs.push(',');
                }
                match e {
                    Event::Open { kind, forward_parent } => {
                        let _ = write!(evs, "O{}", *kind as u16);
                        if let Some(f) = forward_parent {
                            let _ = write!(evs, "+{}", f);
                            fwd += 1;
                        }
                    }
                    Event::Close => evs.push('C'),
                    Event::Advance => evs.push('A'),
                    Event::Error(m) => {
                        evs.push('E');
                        hex(m.as_bytes(), &mut evs);
                        n_err += 1;
                    }
                }
            }
        }
        let n_events = p.events.len();
        let res = p.build_tree();
        (evs, n_err, fwd, n_events, res)
    }));
    let (evs, n_err, fwd, n_events, res) = match parsed {
        Ok(x) => x,
        Err(p) => {
            out.failures.push(("parse-panic".into(), util::panic_message(p)));
            out.model_line = ml;
            return out;
        }
    };
    out.n_events = n_events;
    out.fwd_parents = fwd;
    let green = res.green_node.clone();
    let diags = diag_list(res.diagnostics());
    out.n_diags = diags.len();
    out.fuel_zero = diags.iter().any(|(m, _)| m.contains("did not consume input"));
    // tree text == input
    let root = parser::syntax::MySyntaxNode::new_root(green.clone());
    let text = root.text().to_string();
    if text != input {
        let common = text.bytes().zip(input.bytes()).take_while(|(a, b)| a == b).count();
        out.failures.push((
            "tree-text-differs".into(),
            format!("tree text has {} bytes, input {}; first difference at byte {}", text.len(), input.len(), common),
        ));
    }
    // every node / token range inside the text, children tile their parent
    let rr = root.text_range();
    if u32::from(rr.start()) != 0 || u32::from(rr.end()) != len {
        out.failures.push(("root-range".into(), format!("root range {:?} but text is 0..{}", rr, len)));
    }
    for el in root.descendants_with_tokens() {
        let r = el.text_range();
        if u32::from(r.end()) > len || !input.is_char_boundary(u32::from(r.start()) as usize) || !input.is_char_boundary(u32::from(r.end()) as usize) {
            out.failures.push(("node-range-outside-text".into(), format!("{:?} range {:?}, text 0..{}", el.kind(), r, len)));
            break;
        }
    }
    // leaves of the tree are the lexer's tokens, in order, with the kind of the same name
    // (`TokenKind as u16` is reinterpreted as `MySyntaxKind`)
    {
        let mut it = toks.iter();
        let mut n_leaves = 0usize;
        let mut bad: Option<String> = None;
        for el in root.descendants_with_tokens() {
            if let NodeOrToken::Token(t) = el {
                n_leaves += 1;
                match it.next() {
                    None => {
                        bad = Some(format!("leaf {} has no lexer token", n_leaves - 1));
                        break;
                    }
                    Some(lt) => {
                        if format!("{:?}", t.kind()) != format!("{:?}", lt.kind) || t.text() != lt.text || t.text_range() != lt.range {
                            bad = Some(format!(
                                "leaf {}: tree has {:?} {:?} at {:?}, lexer produced {:?} {:?} at {:?}",
                                n_leaves - 1, t.kind(), t.text(), t.text_range(), lt.kind, lt.text, lt.range
                            ));
                            break;
                        }
                    }
                }
            }
        }
        if bad.is_none() && n_leaves != toks.len() {
            bad = Some(format!("tree has {} leaves, lexer produced {} tokens", n_leaves, toks.len()));
        }
        if let Some(b) = bad {
            out.failures.push(("tree-leaves-differ-from-tokens".into(), b));
        }
    }
    for (m, r) in &diags {
        if let Some(r) = r {
            if u32::from(r.end()) > len {
                out.failures.push(("diag-range-outside-text".into(), format!("{:?} has range {:?}, text 0..{}", m, r, len)));
                break;
            }
        }
    }
    // line:column rendering of every parser diagnostic (error.rs) agrees with the byte offset
    match catch_unwind(AssertUnwindSafe(|| res.format_errors(input))) {
        Err(p) => out.failures.push(("format-errors-panic".into(), util::panic_message(p))),
        Ok(lines) => {
            if lines.len() != diags.len() {
                out.failures.push(("format-errors-count".into(), format!("{} diagnostics, {} formatted lines", diags.len(), lines.len())));
            } else {
                for ((m, r), l) in diags.iter().zip(lines.iter()) {
                    let want = match r {
                        None => m.clone(),
                        Some(r) => {
                            let st = u32::from(r.start()) as usize;
                            let before = &input.as_bytes()[..st.min(input.len())];
                            let line = before.iter().filter(|&&b| b == b'\n').count() + 1;
                            let col = st - before.iter().rposition(|&b| b == b'\n').map(|p| p + 1).unwrap_or(0) + 1;
                            format!("{}:{}: {}", line, col, m)
                        }
                    };
                    if *l != want {
                        out.failures.push(("diag-line-col-wrong".into(), format!("formatted {:?}, expected {:?}", l, want)));
                        break;
                    }
                }
            }
        }
    }
    // positions attached by the next stage (CST -> AST lowering) come from syntax nodes: inside the text
    // (a panic in lowering is C04's subject; it is only counted here)
    if with_tree {
        use cst::cst::CstNode;
        let g2 = green.clone();
        let lowered = catch_unwind(AssertUnwindSafe(|| {
            let root = parser::syntax::MySyntaxNode::new_root(g2);
            cst::cst::File::cast(root).map(|f| ::ast::lower::lower(f).into_parts().1)
        }));
        match lowered {
            Err(_) => out.lower_panics += 1,
            Ok(None) => out.failures.push(("root-not-a-file".into(), "the root node cannot be cast to cst::File".into())),
            Ok(Some(ds)) => {
                for d in ds.iter() {
                    out.n_lower_diags += 1;
                    if let Some(r) = d.range() {
                        let (a, b) = (u32::from(r.start()) as usize, u32::from(r.end()) as usize);
                        if b > input.len() || !input.is_char_boundary(a) || !input.is_char_boundary(b) {
                            out.failures.push((
                                "lower-diag-range-outside-text".into(),
                                format!("{:?} has range {:?}, text 0..{}", d.message(), r, len),
                            ));
                            break;
                        }
                    }
                }
            }
        }
    }
    // the public entry point gives the same tree, and gives it twice
    let again = catch_unwind(AssertUnwindSafe(|| (parser::parse(path, input), parser::parse(path, input))));
    match again {
        Err(p) => out.failures.push(("parse-panic".into(), util::panic_message(p))),
        Ok((a, b)) => {
            let (da, db) = (diag_list(a.diagnostics()), diag_list(b.diagnostics()));
            if a.green_node != b.green_node || da != db {
                out.failures.push(("parse-twice-differs".into(), "two calls of parser::parse on the same text differ".into()));
            }
            if a.green_node != green || da != diags {
                out.failures.push(("parse-entry-differs".into(), "parser::parse differs from Parser::new + file + build_tree".into()));
            }
        }
    }
    if with_tree {
        ml.push('\t');
        ml.push_str(&evs);
        let mut rl = String::new();
        render_green(&green, &mut rl);
        rl.push('\t');
        let ds: Vec<String> = diags.iter().map(|(_, r)| range_str(*r)).collect();
        rl.push_str(&ds.join(";"));
        let _ = write!(rl, "\t{}", n_err);
        out.real_line = rl;
    }
    out.model_line = ml;
    out
}

// ------------------------------------------------------------------ inputs

pub struct Job {
    pub id: String,
    pub stream: &'static str,
    pub text: String,
    pub tree: bool,
}

fn enumerate(alpha: &[char], maxlen: usize, stream: &'static str, tree_upto: usize, seen: &mut HashSet<String>, jobs: &mut Vec<Job>) {
    // all strings of length 0..=maxlen, shortest first
    let mut cur: Vec<usize> = Vec::new();
    for len in 0..=maxlen {
        cur.clear();
        cur.resize(len, 0);
        loop {
            let s: String = cur.iter().map(|&i| alpha[i]).collect();
            if seen.insert(s.clone()) {
                jobs.push(Job { id: format!("e{}", jobs.len()), stream, text: s, tree: len <= tree_upto });
            }
            // increment
            let mut k = len;
            loop {
                if k == 0 {
                    break;
                }
                k -= 1;
                cur[k] += 1;
                if cur[k] < alpha.len() {
                    k = usize::MAX;
                    break;
                }
                cur[k] = 0;
            }
            if k != usize::MAX {
                break;
            }
        }
    }
}

pub fn corpus_files() -> Vec<(String, String)> {
    fn walk(dir: &Path, out: &mut Vec<std::path::PathBuf>) {
        if let Ok(rd) = std::fs::read_dir(dir) {
            let mut es: Vec<_> = rd.filter_map(|e| e.ok().map(|e| e.path())).collect();
            es.sort();
            for p in es {
                if p.is_dir() {
                    walk(&p, out);
                } else if p.extension().map(|e| e == "gom").unwrap_or(false) {
                    out.push(p);
                }
            }
        }
    }
    let mut files = Vec::new();
    walk(&util::repo_root().join("crates/compiler/src/tests"), &mut files);
    let root = util::repo_root();
    files
        .into_iter()
        .filter_map(|p| {
            let t = std::fs::read_to_string(&p).ok()?;
            Some((p.strip_prefix(&root).unwrap_or(&p).to_string_lossy().to_string(), t))
        })
        .collect()
}

const DICT: &[&str] = &[
    "(", ")", "{", "}", "[", "]", "=", ";", ",", "::", ":", "->", "=>", "+", "-", "*", "/", ".", "&&", "||", "|", "!", "<", ">",
    ">=", "<=", "==", "!=", "#", "extern", "package", "import", "fn", "trait", "impl", "for", "enum", "struct", "type", "match",
    "if", "else", "let", "in", "return", "go", "while", "dyn", "true", "false", "_", "unit", "bool", "int8", "int16", "int32",
    "int64", "uint8", "uint16", "uint32", "uint64", "float32", "float64", "string", "array", "x", "foo", "Bar", "a_1", "fnx", "in_",
    "0", "12", "1.5", "3.25f32", "2.0f64", "1.", ".5", "7i8", "7i16", "7i32", "7i64", "7u8", "7u16", "7u32", "7u64", "7u1", "9i",
    "1.5f3", "\"\"", "\"abc\"", "\"a\\n\\\"b\"", "\"\\u00e9\"", "\"é😀\"", "\"\\q\"", "\"\\u12\"", "\"open", "\"a\nb\"",
    "\\\\line one\n  \\\\line two", "\\\\only one line", "\\\\a\n\\\\b\n\\\\c\n", "\\\\é\n\t\\\\😀", "\\", "\\\\", "// comment",
    "//", "// é😀\n", " ", "\n", "\t", "\r\n", "  \n  ", "$", "@", "&", "é", "😀", "€", "\u{1}", "'", "`", "~", "?", "%", "^",
];

/// one spelling per token class the grammar functions distinguish (36)
const GRAMMAR_TOKENS: &[&str] = &[
    "fn", "x", "(", ")", "{", "}", "[", "]", ",", ";", ":", "::", "->", "=>", "=", "|", "||", "-", "!", "+", ".", "#", "1", "\"s\"",
    "let", "if", "else", "match", "while", "go", "struct", "enum", "trait", "impl", "for", "extern", "type", "dyn", "int32", "_",
    "true", "package", "import", "$",
];

/// Inputs on which the parser spends all its fuel while returning through nested frames: `k` prefix operators /
/// parentheses / closures in front of an operand, for every `k` around the fuel constant, in the contexts that
/// look at the next token after the operand (match scrutinee, if/while condition, call argument, let, item start, …).
pub fn fuel_boundary_inputs(thorough: bool) -> Vec<String> {
    let mut v = Vec::new();
    let ks: Vec<usize> = if thorough { (236..=262).collect() } else { (244..=258).collect() };
    for &k in &ks {
        let m = "-".repeat(k);
        let b = "!".repeat(k);
        v.push(format!("fn main() -> unit {{ let y = match {}x {{ a => 1 }}; () }}", m));
        v.push(format!("fn main() -> unit {{ match {}x {{ (a, b) => 1, _ => 2 }} }}", m));
        v.push(format!("fn main() -> unit {{ if {}x {{ 1 }} else {{ 2 }} }}", b));
        v.push(format!("fn main() -> unit {{ while {}x {{ () }} }}", b));
        v.push(format!("fn main() -> unit {{ f({}x, 2) }}", m));
        v.push(format!("fn main() -> unit {{ let y = {}x; () }}", m));
        v.push(format!("{}x\nfn g() -> unit {{ () }}", m));
        v.push(format!("{}x\n#[a] fn g() -> unit {{ () }}", m));
        v.push(format!("{}x\nstruct S {{ a: int32 }}", m));
        v.push(format!("fn main() -> unit {{ let y = {}S {{ a: 1 }}; () }}", m));
        v.push(format!("fn main() -> unit {{ let y = {}x[T] ; () }}", m));
        v.push(format!("fn main() -> unit {{ let y = [{}x, 2]; () }}", m));
        v.push(format!("fn main() -> unit {{ let y = ({}x, 2); () }}", m));
        v.push(format!("fn main() -> unit {{ let y = {}x + 1 * 2; () }}", m));
        v.push(format!("fn main() -> unit {{ go {}f(x); () }}", m));
        v.push(format!("fn main() -> unit {{ let f = |a| {}a; () }}", m));
        v.push(format!("fn main() -> unit {{ let y = match x {{ a => {}a, b => 2 }}; () }}", m));
        v.push(format!("fn main() -> unit {{ let y = match x {{ a => {}a }} }}\nimpl S {{ fn f() -> unit {{ () }} }}", m));
        v.push(format!("fn main() -> unit {{ let p = P {{ a: {}x, b: 2 }}; () }}", m));
    }
    v
}

fn random_text(rng: &mut Rng) -> String {
    let mut s = String::new();
    match rng.below(3) {
        0 => {
            // random symbols of the full alphabet
            let n = 5 + rng.below(36);
            for _ in 0..n {
                s.push(if rng.chance(1, 6) { *rng.pick(ALPHA_SPECIAL) } else { *rng.pick(ALPHA_FULL) });
            }
        }
        1 => {
            // random token sequence, sometimes glued, sometimes separated
            let n = 1 + rng.below(30);
            for _ in 0..n {
                s.push_str(*rng.pick(DICT));
                if rng.chance(1, 2) {
                    s.push_str(*rng.pick(&[" ", "\n", "", "\t", " // c\n"]));
                }
            }
        }
        _ => {
            // program-shaped: items with random bodies
            let n = 1 + rng.below(4);
            for _ in 0..n {
                match rng.below(5) {
                    0 => s.push_str("fn f(a: int32, b: string) -> int32 { "),
                    1 => s.push_str("struct S[T] { x: T, "),
                    2 => s.push_str("enum E { A(int32), "),
                    3 => s.push_str("#[derive(ToString)]\nimpl T for S { fn m(self: S) -> unit { "),
                    _ => s.push_str("let x = match y { "),
                }
                let m = rng.below(20);
                for _ in 0..m {
                    s.push_str(*rng.pick(DICT));
                    s.push(' ');
                }
                if rng.chance(2, 3) {
                    s.push_str("}\n");
                }
            }
        }
    }
    if rng.chance(1, 5) {
        s.insert_str(0, *rng.pick(SPECIALS));
    }
    if rng.chance(1, 5) {
        s.push_str(*rng.pick(SPECIALS));
    }
    s
}

fn mutate(src: &str, rng: &mut Rng) -> String {
    let mut cs: Vec<char> = src.chars().collect();
    let n_mut = 1 + rng.below(3);
    for _ in 0..n_mut {
        let n = cs.len();
        match rng.below(8) {
            0 if n > 0 => {
                // delete a short span
                let a = rng.below(n);
                let b = (a + 1 + rng.below(6)).min(n);
                cs.drain(a..b);
            }
            1 => {
                let a = if rng.chance(1, 4) { 0 } else { rng.below(n + 1) };
                if rng.chance(1, 3) {
                    let t: Vec<char> = rng.pick(SPECIALS).chars().collect();
                    cs.splice(a..a, t);
                } else {
                    cs.insert(a, *rng.pick(ALPHA_FULL));
                }
            }
            2 if n > 0 => {
                let a = rng.below(n);
                cs[a] = *rng.pick(ALPHA_FULL);
            }
            3 => {
                // insert a dictionary token
                let a = rng.below(n + 1);
                let t: Vec<char> = rng.pick(DICT).chars().collect();
                cs.splice(a..a, t);
            }
            4 if n > 0 => {
                // truncate (parser stops early, unterminated constructs)
                let a = rng.below(n);
                cs.truncate(a);
            }
            5 if n > 1 => {
                // duplicate a span elsewhere
                let a = rng.below(n);
                let b = (a + 1 + rng.below(20)).min(n);
                let span: Vec<char> = cs[a..b].to_vec();
                let at = rng.below(n + 1);
                cs.splice(at..at, span);
            }
            6 => {
                // token-level: delete / duplicate / swap real tokens
                let text: String = cs.iter().collect();
                let toks = lexer::lex(&text);
                if toks.len() >= 2 {
                    let i = rng.below(toks.len());
                    let j = rng.below(toks.len());
                    let mut parts: Vec<&str> = toks.iter().map(|t| t.text).collect();
                    match rng.below(3) {
                        0 => {
                            parts.remove(i);
                        }
                        1 => {
                            let p = parts[i];
                            parts.insert(j, p);
                        }
                        _ => parts.swap(i, j),
                    }
                    cs = parts.concat().chars().collect();
                }
            }
            _ if n > 0 => {
                // drop every closing brace/paren after a point (deep unterminated nesting)
                let a = rng.below(n);
                let mut k = 0;
                cs.retain(|c| {
                    k += 1;
                    k <= a || !matches!(c, '}' | ')' | ']')
                });
            }
            _ => {}
        }
    }
    cs.into_iter().collect()
}

// ------------------------------------------------------------------ the fuel-limit catalogue

/// The number of consecutive looks (`peek`/`nth`) the REAL parser answers before it starts to say `eof`
/// on an input that is not at its end — measured, so the catalogue follows the constant in `Parser::new`.
/// (capped: a parser without a limiter gives the cap)
pub fn measured_fuel() -> usize {
    let toks = lexer::lex("x y");
    let mut p = parser::parser::Parser::new(Path::new("c12.gom"), toks);
    let mut n = 0usize;
    while n < 4096 && p.peek() != lexer::TokenKind::Eof {
        n += 1;
    }
    n
}

/// Functions of the parser that look ahead by a *computed* distance (`p.nth(<expr>)`), i.e. whose number of
/// looks grows with the input; `tools/extract.py` regenerates the list from the source and the check
/// compares (a new unbounded lookahead without an entry here is a broken tie).
pub const LOOKAHEAD_FNS_COVERED: &[&str] = &["impl_has_trait"];

/// Every way the parser can look many times without consuming a token, driven to and past the fuel limit F:
///  * `look-…`   lookahead-only scans (the path after `impl`, 2 looks per segment), every position an `impl` can be in;
///  * `wind-…`   stacked grammar frames that each look once or more while they unwind (prefix operators, closures,
///               else-if chains, parens, blocks, calls, types, patterns, …), closed, cut off, and in front of a `{`
///               that the next grammar function re-checks;
///  * `flat-…`   loops that do consume one token per round, 2F+1 rounds (must never come near the limit);
///  * `after-…`  each item kind directly after a construct that leaves the parser out of fuel.
/// Sizes: a contiguous window around F/4, F/3, F/2 and F (a frame spends 1..4 looks, so some size of every
/// shape meets the limit exactly — the state in which a guard still sees the token and the next look does not),
/// 2F+1, and 3 as a control. `tree` = also through the Lean tree tie.
pub fn fuel_limit_inputs(thorough: bool) -> Vec<(String, String, bool)> {
    let f = measured_fuel().clamp(8, 4096);
    let mut sizes: Vec<usize> = vec![3];
    let w: usize = if thorough { 6 } else { 2 };
    for c in [f / 4, f / 3, f / 2, f] {
        for d in c.saturating_sub(w)..=c + w {
            sizes.push(d.max(1));
        }
    }
    sizes.push(2 * f + 1);
    sizes.sort();
    sizes.dedup();
    let tied: Vec<usize> = vec![3, f / 2 + 1, f + 1];
    let rep = |s: &str, n: usize| s.repeat(n);
    let path = |d: usize| vec!["Seg"; d].join("::");
    let mut v: Vec<(String, String, bool)> = Vec::new();
    const BEFORE: &str = "fn before() -> unit { () }\n";
    const AFTER: &str = "\nfn after(x: int32) -> int32 { x + 1 }\n";
    // (name, construct at item level)
    type Shape = (&'static str, Box<dyn Fn(usize) -> String>);
    let item = |name: &'static str, g: Box<dyn Fn(usize) -> String>| -> Shape { (name, g) };
    // a construct in expression position of a function body
    let in_fn = |e: String| format!("fn f(n: int32) -> int32 {{ {} }}", e);
    let in_let = |e: String| format!("fn f(n: int32) -> unit {{ let x = {}; () }}", e);
    let in_ty = |t: String| format!("fn f(x: {}) -> unit {{ () }}", t);
    let in_pat = |q: String| format!("fn f(n: int32) -> int32 {{ match n {{ {} => 1, _ => 0 }} }}", q);
    let shapes: Vec<Shape> = vec![
        // ---- lookahead-only scans
        item("look-impl-trait", Box::new(move |d| format!("impl {} for int32 {{ fn m(self: int32) -> int32 {{ 1 }} }}", path(d)))),
        item("look-impl-inherent", Box::new(move |d| format!("impl {} {{ fn m(self: int32) -> int32 {{ 1 }} }}", path(d)))),
        item("look-impl-rooted", Box::new(move |d| format!("impl ::{} for int32 {{ }}", path(d)))),
        item("look-impl-generic", Box::new(move |d| format!("impl[T] {} for T {{ }}", path(d)))),
        item("look-impl-attr", Box::new(move |d| format!("#[derive(ToString)]\nimpl {} for int32 {{ }}", path(d)))),
        item("look-impl-spaced", Box::new(move |d| format!("impl {} for int32 {{ }}", vec!["Seg"; d].join(" ::\n  // c\n  ")))),
        item("look-impl-bad-end", Box::new(move |d| format!("impl {}::1 for int32 {{ }}", path(d)))),
        item("look-impl-no-body", Box::new(move |d| format!("impl {}", path(d)))),
        item("look-impl-dangling", Box::new(move |d| format!("impl {}::", path(d)))),
        item("look-impl-tapp", Box::new(move |d| format!("impl {}[int32] {{ }}", path(d)))),
        // ---- unwinding frames: expressions
        item("wind-not", Box::new(move |d| in_fn(format!("{}true", rep("!", d))))),
        item("wind-neg", Box::new(move |d| in_fn(format!("{}1", rep("- ", d))))),
        item("wind-neg-not", Box::new(move |d| in_fn(format!("{}1", rep("-!", d))))),
        item("wind-closure", Box::new(move |d| in_let(format!("{}1", rep("|a| ", d))))),
        item("wind-closure-noparam", Box::new(move |d| in_let(format!("{}1", rep("|| ", d))))),
        item("wind-closure-typed", Box::new(move |d| in_let(format!("{}1", rep("|a: int32, b| ", d))))),
        item("wind-else-if", Box::new(move |d| in_fn(format!("{}{{ 0 }}", rep("if n == 1 { 1 } else ", d))))),
        item("wind-else-if-braceless", Box::new(move |d| in_fn(format!("{}0", rep("if n 1 else ", d))))),
        item("wind-if-then", Box::new(move |d| in_fn(format!("{}1{}", rep("if n { ", d), rep(" } else { 0 }", d))))),
        item("wind-if-cond", Box::new(move |d| in_fn(format!("{}true{}", rep("if ", d), rep(" { 1 } else { 0 }", d))))),
        item("wind-paren", Box::new(move |d| in_let(format!("{}1{}", rep("(", d), rep(")", d))))),
        item("wind-tuple", Box::new(move |d| in_let(format!("{}1{}", rep("(", d), rep(", true)", d))))),
        item("wind-block", Box::new(move |d| in_let(format!("{}1{}", rep("{ ", d), rep(" }", d))))),
        item("wind-array", Box::new(move |d| in_let(format!("{}1{}", rep("[", d), rep("]", d))))),
        item("wind-call", Box::new(move |d| in_let(format!("{}1{}", rep("g(", d), rep(")", d))))),
        item("wind-binary-right", Box::new(move |d| in_let(format!("{}1{}", rep("1 + (", d), rep(")", d))))),
        item("wind-binary-prefix", Box::new(move |d| in_let(format!("{}1", rep("1 + -", d))))),
        item("wind-while", Box::new(move |d| in_fn(format!("{}(){}; 0", rep("while n { ", d), rep(" }", d))))),
        item("wind-match", Box::new(move |d| in_fn(format!("{}1{}", rep("match n { 0 => 0, _ => ", d), rep(" }", d))))),
        item("wind-match-scrutinee", Box::new(move |d| in_fn(format!("{}n{}", rep("match ", d), rep(" { _ => 1 }", d))))),
        item("wind-go", Box::new(move |d| in_fn(format!("{}g(); 0", rep("go ", d))))),
        item("wind-struct-lit", Box::new(move |d| in_let(format!("{}1{}", rep("S { a: ", d), rep(" }", d))))),
        // an unwinding stack directly in front of a `{` / `(` that the next grammar function re-checks
        item("wind-not-then-block", Box::new(move |d| in_fn(format!("if {}true {{ 1 }} else {{ 0 }}", rep("!", d))))),
        item("wind-not-then-while", Box::new(move |d| in_fn(format!("while {}true {{ () }}; 0", rep("!", d))))),
        item("wind-not-then-match", Box::new(move |d| in_fn(format!("match {}true {{ true => 1, _ => 0 }}", rep("!", d))))),
        item("wind-not-then-call", Box::new(move |d| in_fn(format!("{}g(1)(2)", rep("!", d))))),
        item("wind-closure-then-block", Box::new(move |d| in_let(format!("{}{{ 1 }}", rep("|a| ", d))))),
        item("wind-paren-then-call", Box::new(move |d| in_let(format!("{}g{}(1)", rep("(", d), rep(")", d))))),
        // ---- unwinding frames: types
        item("wind-ty-vec", Box::new(move |d| in_ty(format!("{}int32{}", rep("Vec[", d), rep("]", d))))),
        item("wind-ty-tuple", Box::new(move |d| in_ty(format!("{}int32{}", rep("(", d), rep(", bool)", d))))),
        item("wind-ty-array", Box::new(move |d| in_ty(format!("{}int32{}", rep("[", d), rep("; 1]", d))))),
        item("wind-ty-arrow", Box::new(move |d| in_ty(format!("{}int32", rep("int32 -> ", d))))),
        item("wind-ty-fn", Box::new(move |d| in_ty(format!("{}int32{}", rep("(", d), rep(") -> int32", d))))),
        item("wind-ty-ret-then-block", Box::new(move |d| format!("fn f() -> {}int32 {{ 1 }}", rep("int32 -> ", d)))),
        item("wind-ty-impl-then-block", Box::new(move |d| format!("impl {}int32{} {{ fn m(self: int32) -> int32 {{ 1 }} }}", rep("Vec[", d), rep("]", d)))),
        // ---- unwinding frames: patterns
        item("wind-pat-tuple", Box::new(move |d| in_pat(format!("{}y{}", rep("(", d), rep(",)", d))))),
        item("wind-pat-constr", Box::new(move |d| in_pat(format!("{}y{}", rep("A(", d), rep(")", d))))),
        item("wind-pat-struct", Box::new(move |d| in_pat(format!("{}y{}", rep("S { a: ", d), rep(" }", d))))),
        item("wind-pat-path", Box::new(move |d| in_pat(format!("{}(y)", path(d))))),
        // ---- loops that consume a token per round
        item("flat-params", Box::new(move |d| format!("fn f({}) -> unit {{ () }}", rep("a: int32, ", d)))),
        item("flat-args", Box::new(move |d| in_let(format!("g({})", rep("1, ", d))))),
        item("flat-fields", Box::new(move |d| format!("struct S {{ {} }}", rep("a: int32, ", d)))),
        item("flat-variants", Box::new(move |d| format!("enum E {{ {} }}", rep("A(int32), ", d)))),
        item("flat-stmts", Box::new(move |d| in_fn(format!("{}0", rep("g(); ", d))))),
        item("flat-lets", Box::new(move |d| in_fn(format!("{}0", rep("let a = 1; ", d))))),
        item("flat-imports", Box::new(move |d| rep("import a\n", d))),
        item("flat-attrs", Box::new(move |d| format!("{}fn g() -> unit {{ () }}", rep("#[a]\n", d)))),
        item("flat-attr-nest", Box::new(move |d| format!("#[a{}{}]\nfn g() -> unit {{ () }}", rep("[", d), rep("]", d)))),
        item("flat-bounds", Box::new(move |d| format!("fn g[T: A{}](x: T) -> unit {{ () }}", rep(" + A", d)))),
        item("flat-generics", Box::new(move |d| format!("fn g[{}](x: int32) -> unit {{ () }}", rep("T, ", d)))),
        item("flat-arms", Box::new(move |d| in_fn(format!("match n {{ {}_ => 0 }}", rep("1 => 1, ", d))))),
        item("flat-tuple", Box::new(move |d| in_let(format!("({}1)", rep("1, ", d))))),
        item("flat-array", Box::new(move |d| in_let(format!("[{}1]", rep("1, ", d))))),
        item("flat-path-expr", Box::new(move |d| in_let(path(d)))),
        item("flat-path-type", Box::new(move |d| in_ty(path(d)))),
        item("flat-plus", Box::new(move |d| in_let(format!("1{}", rep(" + 1", d))))),
        item("flat-dots", Box::new(move |d| in_let(format!("a{}", rep(".b", d))))),
        item("flat-calls", Box::new(move |d| in_let(format!("g{}", rep("(0)", d))))),
        item("flat-methods", Box::new(move |d| in_let(format!("a{}", rep(".m()", d))))),
        item("flat-error-tokens", Box::new(move |d| rep("$ ", d))),
        item("flat-closers", Box::new(move |d| rep("} ", d))),
        item("flat-closers-in-block", Box::new(move |d| in_fn(format!("{}0", rep(") ", d))))),
        item("flat-semis", Box::new(move |d| in_fn(format!("{}0", rep("; ", d))))),
        item("flat-elses", Box::new(move |d| in_fn(format!("{}0", rep("else ", d))))),
        item("flat-colons", Box::new(move |d| rep(":: ", d))),
        item("flat-commas-in-args", Box::new(move |d| in_let(format!("g({})", rep(", ", d))))),
        item("flat-items", Box::new(move |d| rep("fn g() -> unit { () }\n", d))),
        item("flat-trait-methods", Box::new(move |d| format!("trait T {{ {} }}", rep("fn m(Self) -> int32; ", d)))),
        item("flat-impl-methods", Box::new(move |d| format!("impl T for int32 {{ {} }}", rep("fn m(self: int32) -> int32 { 1 } ", d)))),
        item("flat-type-args", Box::new(move |d| in_ty(format!("M[{}int32]", rep("int32, ", d))))),
        item("flat-closure-params", Box::new(move |d| in_let(format!("|{}a| 1", rep("a, ", d))))),
        item("flat-pat-fields", Box::new(move |d| in_pat(format!("S {{ {} }}", rep("a: _, ", d))))),
    ];
    for (name, g) in &shapes {
        let flat = name.starts_with("flat-");
        for &d in &sizes {
            if flat && d != 3 && d != f + 1 && d != 2 * f + 1 {
                continue;
            }
            let tree = tied.contains(&d);
            let body = g(d);
            v.push((format!("{}@{}", name, d), format!("{}{}{}", BEFORE, body, AFTER), tree));
            if !flat {
                // cut off inside the construct: the frames unwind at the real end of input
                let cut: String = {
                    let toks = lexer::lex(&body);
                    let keep = toks.len() - toks.len() / 3;
                    toks.iter().take(keep).map(|t| t.text).collect()
                };
                v.push((format!("{}-cut@{}", name, d), format!("{}{}", BEFORE, cut), tree));
                // closers removed, the rest of the file follows
                if name.starts_with("wind-") {
                    let open: String = body.chars().filter(|c| !matches!(c, ')' | ']' | '}')).collect();
                    v.push((format!("{}-unclosed@{}", name, d), format!("{}{}{}", BEFORE, open, AFTER), false));
                }
            }
        }
    }
    // every kind of item (and non-item) directly after a construct that leaves the parser out of fuel
    let followers: &[(&str, &str)] = &[
        ("fn", "fn g() -> unit { () }"),
        ("struct", "struct S { a: int32 }"),
        ("enum", "enum E { A, B(int32) }"),
        ("trait", "trait T { fn m(Self) -> int32; }"),
        ("impl", "impl T for int32 { fn m(self: int32) -> int32 { 1 } }"),
        ("extern", "extern \"go\" \"fmt\" fn g() -> unit"),
        ("attr-fn", "#[a]\nfn g() -> unit { () }"),
        ("let", "let x = 1;"),
        ("expr", "1 + g(2)"),
        ("package", "package P"),
        ("import", "import P"),
        ("closers", "} ) ]"),
        ("error-token", "$"),
        ("comment", "// only a comment\n"),
        ("nothing", ""),
        ("blank", "\n\n  "),
    ];
    for (sname, stuck) in [
        ("look", format!("impl {} for int32 {{ }}", vec!["Seg"; f / 2 + 2].join("::"))),
        ("look-eof", format!("impl {}", vec!["Seg"; f / 2 + 2].join("::"))),
        ("wind", format!("fn f() -> bool {{ {}true }}", "!".repeat(f + 2))),
        ("wind-unclosed", format!("fn f() -> unit {{ let x = {}1", "(".repeat(f + 2))),
    ] {
        for (fname, fo) in followers {
            v.push((format!("after-{}-{}", sname, fname), format!("{}\n{}\n", stuck, fo), true));
            v.push((format!("after-{}-{}-twice", sname, fname), format!("{}\n{}\n{}\n{}\n", stuck, fo, stuck, fo), false));
        }
    }
    v
}

pub fn build_jobs(args: &util::Args) -> Vec<Job> {
    let thorough = args.tier == "thorough";
    let mut jobs = Vec::new();
    let mut seen = HashSet::new();
    if args.rest.iter().any(|a| a == "--only-deep") {
        return jobs;
    }
    if let Some(i) = args.rest.iter().position(|a| a == "--hex") {
        // replay of a single input
        let bytes: Vec<u8> = (0..args.rest[i + 1].len() / 2)
            .map(|k| u8::from_str_radix(&args.rest[i + 1][2 * k..2 * k + 2], 16).unwrap_or(b'?'))
            .collect();
        jobs.push(Job { id: "replay0".into(), stream: "replay", text: String::from_utf8_lossy(&bytes).to_string(), tree: true });
        return jobs;
    }
    // exhaustive (model: lexer tie on all; tree tie up to `tree_upto`)
    if thorough {
        enumerate(ALPHA_FULL, 4, "exhaustive-full", 3, &mut seen, &mut jobs);
        enumerate(ALPHA_MID, 5, "exhaustive-mid", 0, &mut seen, &mut jobs);
        enumerate(ALPHA_ML, 7, "exhaustive-multiline", 5, &mut seen, &mut jobs);
        enumerate(ALPHA_ML2, 9, "exhaustive-multiline2", 6, &mut seen, &mut jobs);
        enumerate(ALPHA_ML3, 8, "exhaustive-multiline3", 0, &mut seen, &mut jobs);
    } else {
        enumerate(ALPHA_FULL, 3, "exhaustive-full", 3, &mut seen, &mut jobs);
        enumerate(ALPHA_MID, 4, "exhaustive-mid", 0, &mut seen, &mut jobs);
        enumerate(ALPHA_ML, 6, "exhaustive-multiline", 4, &mut seen, &mut jobs);
        enumerate(ALPHA_ML2, 8, "exhaustive-multiline2", 5, &mut seen, &mut jobs);
        enumerate(ALPHA_ML3, 7, "exhaustive-multiline3", 0, &mut seen, &mut jobs);
    }
    enumerate(ALPHA_SPECIAL, if thorough { 4 } else { 3 }, "exhaustive-special", 3, &mut seen, &mut jobs);
    // corpus
    let corpus = corpus_files();
    for (i, (_, t)) in corpus.iter().enumerate() {
        jobs.push(Job { id: format!("c{}", i), stream: "corpus", text: t.clone(), tree: true });
    }
    // the fuel-limit catalogue (deterministic)
    for (name, text, tree) in fuel_limit_inputs(thorough) {
        if seen.insert(text.clone()) {
            jobs.push(Job { id: format!("fl:{}", name), stream: "fuel-limit", text, tree });
        }
    }
    let mut rng = Rng::new(args.seed ^ 0xC12);
    // special first / last / inner characters: every short text (all strings <= 2 over the full alphabet,
    // the token dictionary, thorough: <= 3) and every corpus file, with each special in front, behind, both,
    // and (for texts with >= 2 tokens) at a token boundary and inside a token
    {
        let mut bases: Vec<String> = Vec::new();
        let mut tmp_jobs = Vec::new();
        let mut tmp_seen = HashSet::new();
        enumerate(ALPHA_FULL, if thorough { 3 } else { 2 }, "tmp", 0, &mut tmp_seen, &mut tmp_jobs);
        bases.extend(tmp_jobs.into_iter().map(|j| j.text));
        bases.extend(DICT.iter().map(|s| s.to_string()));
        bases.push("fn main() -> unit { () }\n".to_string());
        let n_short = bases.len();
        bases.extend(corpus.iter().map(|(_, t)| t.clone()));
        let mut k = 0usize;
        let mut push = |text: String, tree: bool, jobs: &mut Vec<Job>, seen: &mut HashSet<String>| {
            if seen.insert(text.clone()) {
                jobs.push(Job { id: format!("s{}", k), stream: "special-edge", text, tree });
                k += 1;
            }
        };
        for (bi, b) in bases.iter().enumerate() {
            for (si, sp) in SPECIALS.iter().enumerate() {
                // the direct oracles run on all of them; the (slower) tree tie on every short text and on the
                // first three specials in front of / behind a corpus file, the lexer tie on everything
                let short = bi < n_short && (b.chars().count() <= 2 || b.len() > 3);
                push(format!("{}{}", sp, b), short || si < 3, &mut jobs, &mut seen);
                push(format!("{}{}", b, sp), short || si < 3, &mut jobs, &mut seen);
                push(format!("{}{}{}", sp, b, sp), short, &mut jobs, &mut seen);
                if bi >= n_short || b.chars().count() >= 2 {
                    // at a token boundary and inside a token
                    let toks = lexer::lex(b);
                    if toks.len() >= 2 {
                        let t = &toks[rng.below(toks.len() - 1)];
                        let at = u32::from(t.range.end()) as usize;
                        push(format!("{}{}{}", &b[..at], sp, &b[at..]), short, &mut jobs, &mut seen);
                    }
                    if let Some(t) = toks.iter().filter(|t| t.text.chars().count() >= 2).nth(0) {
                        let inner = t.text.char_indices().nth(1).map(|(i, _)| i).unwrap_or(0);
                        let at = u32::from(t.range.start()) as usize + inner;
                        push(format!("{}{}{}", &b[..at], sp, &b[at..]), short, &mut jobs, &mut seen);
                    }
                }
            }
        }
    }
    // round 11 — grammar tie: every string of <= 3 (thorough 4) tokens over the grammar's alphabet, and
    // nesting whose unwinding spends the parser's fuel (256 looks without an advance) exactly, one less, one more
    {
        let toks = GRAMMAR_TOKENS;
        let maxlen = if thorough { 4 } else { 3 };
        let mut idx: Vec<usize> = Vec::new();
        let mut k = 0usize;
        for len in 1..=maxlen {
            idx.clear();
            idx.resize(len, 0);
            'outer: loop {
                let text: String = idx.iter().map(|&i| toks[i]).collect::<Vec<_>>().join(" ");
                if seen.insert(text.clone()) {
                    jobs.push(Job { id: format!("g{}", k), stream: "token-exhaustive", text, tree: true });
                    k += 1;
                }
                let mut j = len;
                loop {
                    if j == 0 {
                        break 'outer;
                    }
                    j -= 1;
                    idx[j] += 1;
                    if idx[j] < toks.len() {
                        break;
                    }
                    idx[j] = 0;
                }
            }
        }
        for (i, text) in fuel_boundary_inputs(thorough).into_iter().enumerate() {
            if seen.insert(text.clone()) {
                jobs.push(Job { id: format!("f{}", i), stream: "fuel-boundary", text, tree: true });
            }
        }
    }
    // mutants
    let per_file = args.n.unwrap_or(if thorough { 60 } else { 10 });
    let mut k = 0;
    for (_, t) in corpus.iter() {
        for _ in 0..per_file {
            let m = mutate(t, &mut rng);
            jobs.push(Job { id: format!("m{}", k), stream: "mutant", text: m, tree: true });
            k += 1;
        }
    }
    // random
    let n_rand = if thorough { 60000 } else { 6000 };
    for i in 0..n_rand {
        jobs.push(Job { id: format!("r{}", i), stream: "random", text: random_text(&mut rng), tree: true });
    }
    jobs
}

/// deeply nested inputs; each is run in a child process on a default-size main-thread stack,
/// because a stack overflow aborts the process and cannot be caught
pub fn deep_inputs(thorough: bool) -> Vec<(String, String)> {
    let depths: &[usize] = if thorough { &[200, 1000, 3000, 10000, 30000, 100000] } else { &[1000, 10000, 100000] };
    let mut v = Vec::new();
    for &d in depths {
        // build_tree is quadratic in the nesting depth for some shapes (1.8 s at 10^4 for nested type
        // applications); the largest depth is only run for shapes that answer quickly
        let big = d >= 100000;
        v.push((format!("paren{}", d), format!("fn main() -> unit {{ let x = {}1{}; () }}", "(".repeat(d), ")".repeat(d))));
        v.push((format!("bang{}", d), format!("fn main() -> bool {{ {}true }}", "!".repeat(d))));
        v.push((format!("binary{}", d), format!("fn main() -> int32 {{ 1{} }}", " + 1".repeat(d))));
        if big && !thorough {
            continue;
        }
        v.push((format!("block{}", d), format!("fn main() -> unit {}(){}", "{".repeat(d), "}".repeat(d))));
        v.push((format!("open-paren{}", d), format!("fn main() -> unit {{ let x = {}1", "(".repeat(d))));
        v.push((format!("minus{}", d), format!("fn main() -> int32 {{ {}1 }}", "-".repeat(d))));
        v.push((format!("pattern{}", d), format!("fn f(x: int32) -> unit {{ match x {{ {}y{} => () }} }}", "(".repeat(d), ",)".repeat(d))));
        v.push((format!("closure{}", d), format!("fn main() -> unit {{ let f = {}1; () }}", "|x| ".repeat(d))));
        v.push((format!("if{}", d), format!("fn main() -> int32 {{ {}0{} }}", "if true { 1 } else { ".repeat(d), " }".repeat(d))));
        if big {
            continue;
        }
        v.push((format!("bracket{}", d), format!("fn main() -> unit {{ let x = {}1{}; () }}", "[".repeat(d), "]".repeat(d))));
        v.push((format!("type{}", d), format!("fn f(x: {}int32{}) -> unit {{ () }}", "Vec[".repeat(d), "]".repeat(d))));
        v.push((format!("call{}", d), format!("fn main() -> int32 {{ f{} }}", "(0)".repeat(d))));
    }
    v
}

/// child mode: one input on the plain main thread
fn main_thread_child(args: &util::Args) {
    let i = args.rest.iter().position(|a| a == "--deep").unwrap();
    let name = &args.rest[i + 1];
    let thorough = args.tier == "thorough";
    let mut all = deep_inputs(thorough);
    all.extend(deep_inputs(!thorough));
    let text = all.into_iter().find(|(n, _)| n == name).map(|(_, t)| t).unwrap_or_default();
    if std::env::var("GV_C12_TIMING").is_ok() {
        let t = Instant::now();
        let toks = lexer::lex(&text);
        eprintln!("lex {:?}", t.elapsed());
        let t = Instant::now();
        let mut p = parser::parser::Parser::new(Path::new("x.gom"), toks);
        parser::file::file(&mut p);
        eprintln!("file {:?} events {}", t.elapsed(), p.events.len());
        let t = Instant::now();
        let r = p.build_tree();
        eprintln!("build_tree {:?}", t.elapsed());
        let t = Instant::now();
        let root = parser::syntax::MySyntaxNode::new_root(r.green_node.clone());
        let s2 = root.text().to_string();
        eprintln!("text {:?} {}", t.elapsed(), s2.len());
        let t = Instant::now();
        let mut k = 0usize;
        for el in root.descendants_with_tokens() {
            k += u32::from(el.text_range().end()) as usize;
        }
        eprintln!("ranges {:?} {}", t.elapsed(), k);
    }
    let o = run_case(&text, false);
    for (k, d) in &o.failures {
        println!("FAIL\t{}\t{}", k, crate::sexp::esc_line(d));
    }
    println!("DONE\t{}", o.n_tokens);
}

const DEEP_TIMEOUT_SECS: u64 = 150;

/// run one child with a time limit; `None` = could not spawn or timed out (slow, not judged)
fn run_child(exe: &Path, tier: &str, name: &str) -> Option<std::process::Output> {
    use std::process::{Command, Stdio};
    let mut ch = Command::new(exe)
        .args(["c12", "--tier", tier, "--deep", name])
        .stdout(Stdio::piped())
        .stderr(Stdio::piped())
        .spawn()
        .ok()?;
    let t = Instant::now();
    loop {
        match ch.try_wait() {
            Ok(Some(_)) => return ch.wait_with_output().ok(),
            Ok(None) => {
                if t.elapsed().as_secs() > DEEP_TIMEOUT_SECS {
                    let _ = ch.kill();
                    let _ = ch.wait();
                    return None;
                }
                std::thread::sleep(Duration::from_millis(20));
            }
            Err(_) => return None,
        }
    }
}

/// parent: returns oracle lines for inputs whose child died or reported failures
fn run_deep(args: &util::Args, oracle: &mut String) -> (usize, usize, usize) {
    let exe = std::env::current_exe().expect("current_exe");
    let thorough = args.tier == "thorough";
    let mut inputs = deep_inputs(thorough);
    if let Some(i) = args.rest.iter().position(|a| a == "--only-deep") {
        let want = args.rest[i + 1].clone();
        // a replay names the input; it may come from the other tier's list
        let mut all = deep_inputs(true);
        all.extend(deep_inputs(false));
        inputs = all.into_iter().filter(|(n, _)| *n == want).take(1).collect();
    }
    let n = inputs.len();
    let mut crashed = 0;
    let mut slow = 0;
    let results: Vec<(String, Option<std::process::Output>)> = std::thread::scope(|sc| {
        let hs: Vec<_> = inputs
            .iter()
            .map(|(name, _)| {
                let exe = exe.clone();
                let tier = args.tier.clone();
                sc.spawn(move || {
                    let o = run_child(&exe, &tier, name);
                    (name.clone(), o)
                })
            })
            .collect();
        hs.into_iter().map(|h| h.join().unwrap()).collect()
    });
    for (name, o) in results {
        let text = &inputs.iter().find(|(n, _)| *n == name).unwrap().1;
        let shape = name.trim_end_matches(|c: char| c.is_ascii_digit()).to_string();
        let sample: String = text.chars().take(60).collect();
        match o {
            None => {
                slow += 1;
            }
            Some(o) => {
                let out = String::from_utf8_lossy(&o.stdout).to_string();
                let err = String::from_utf8_lossy(&o.stderr).to_string();
                if !out.contains("DONE\t") {
                    crashed += 1;
                    let why = if err.contains("overflowed its stack") { "stack overflow" } else { "child died" };
                    let _ = writeln!(
                        oracle,
                        "deep-{}\tdeep\tdeep-nesting-crash\t{}: {} ({} bytes, starts {:?}); status {:?}\t{}",
                        name, shape, why, text.len(), sample, o.status.code(), format!("deep:{}", name)
                    );
                }
                for l in out.lines() {
                    if let Some(rest) = l.strip_prefix("FAIL\t") {
                        let mut it = rest.splitn(2, '\t');
                        let k = it.next().unwrap_or("?");
                        let d = it.next().unwrap_or("");
                        let _ = writeln!(oracle, "deep-{}\tdeep\t{}\t{}\tdeep:{}", name, k, d, name);
                    }
                }
            }
        }
    }
    (n, crashed, slow)
}

pub fn main(args: &util::Args) {
    if args.rest.iter().any(|a| a == "--deep") {
        main_thread_child(args);
        return;
    }
    util::quiet_panics();
    let jobs = Arc::new(build_jobs(args));
    let n = jobs.len();
    let n_threads = std::thread::available_parallelism().map(|x| x.get()).unwrap_or(4).min(16);
    let next = Arc::new(AtomicUsize::new(0));
    let results: Arc<Mutex<Vec<Option<CaseOut>>>> = Arc::new(Mutex::new((0..n).map(|_| None).collect()));
    // watchdog state: per thread (current job index + 1, start millis)
    let t0 = Instant::now();
    let slots: Arc<Vec<(AtomicUsize, AtomicU64)>> = Arc::new((0..n_threads).map(|_| (AtomicUsize::new(0), AtomicU64::new(0))).collect());
    let done = Arc::new(AtomicBool::new(false));
    let mut handles = Vec::new();
    for ti in 0..n_threads {
        let (jobs, next, results, slots) = (jobs.clone(), next.clone(), results.clone(), slots.clone());
        let h = std::thread::Builder::new()
            .stack_size(256 << 20)
            .spawn(move || {
                let mut local: Vec<(usize, CaseOut)> = Vec::new();
                loop {
                    let i = next.fetch_add(64, Ordering::SeqCst);
                    if i >= jobs.len() {
                        break;
                    }
                    for j in i..(i + 64).min(jobs.len()) {
                        slots[ti].1.store(t0.elapsed().as_millis() as u64, Ordering::SeqCst);
                        slots[ti].0.store(j + 1, Ordering::SeqCst);
                        let o = run_case(&jobs[j].text, jobs[j].tree);
                        local.push((j, o));
                    }
                    slots[ti].0.store(0, Ordering::SeqCst);
                    if local.len() >= 4096 {
                        let mut r = results.lock().unwrap();
                        for (j, o) in local.drain(..) {
                            r[j] = Some(o);
                        }
                    }
                }
                let mut r = results.lock().unwrap();
                for (j, o) in local.drain(..) {
                    r[j] = Some(o);
                }
            })
            .unwrap();
        handles.push(h);
    }
    // watchdog
    let mut hang: Option<usize> = None;
    {
        let (slots, done2) = (slots.clone(), done.clone());
        let watcher = std::thread::spawn(move || {
            while !done2.load(Ordering::SeqCst) {
                std::thread::sleep(Duration::from_millis(100));
                let now = t0.elapsed().as_millis() as u64;
                for s in slots.iter() {
                    let j = s.0.load(Ordering::SeqCst);
                    if j > 0 && now.saturating_sub(s.1.load(Ordering::SeqCst)) > HANG_SECS * 1000 && s.0.load(Ordering::SeqCst) == j {
                        return Some(j - 1);
                    }
                }
            }
            None
        });
        // wait for workers unless the watcher fires first
        loop {
            if handles.iter().all(|h| h.is_finished()) {
                done.store(true, Ordering::SeqCst);
                break;
            }
            if watcher.is_finished() {
                break;
            }
            std::thread::sleep(Duration::from_millis(20));
        }
        if let Ok(Some(j)) = watcher.join() {
            hang = Some(j);
        }
    }
    let _ = std::fs::create_dir_all(&args.out);
    let mut cases = String::new();
    let mut real = String::new();
    let mut oracle = String::new();
    if let Some(j) = hang {
        let _ = writeln!(oracle, "{}\t{}\thang\tno result after {} s\t{}", jobs[j].id, jobs[j].stream, HANG_SECS, hexs(&jobs[j].text));
        let _ = std::fs::write(args.out.join("c12.cases.tsv"), "");
        let _ = std::fs::write(args.out.join("c12.real.tsv"), "");
        let _ = std::fs::write(args.out.join("c12.oracle.tsv"), oracle);
        let _ = std::fs::write(args.out.join("c12.stats.tsv"), format!("jobs\t{}\nhang\t1\n", n));
        println!("c12: HANG on {}", jobs[j].id);
        std::process::exit(0);
    }
    for h in handles {
        let _ = h.join();
    }
    let results = results.lock().unwrap();
    let mut stats: std::collections::BTreeMap<String, u64> = Default::default();
    let thorough = args.tier == "thorough";
    for (name, _, _) in fuel_limit_inputs(thorough) {
        *stats.entry(format!("fuel_limit_class:{}", name.split('-').next().unwrap_or(""))).or_default() += 1;
    }
    stats.insert("measured_fuel".into(), measured_fuel() as u64);
    let mut kinds = 0u128;
    for (j, r) in results.iter().enumerate() {
        let job = &jobs[j];
        let r = r.as_ref().expect("missing result");
        *stats.entry(format!("stream:{}", job.stream)).or_default() += 1;
        if job.tree {
            *stats.entry("tree_cases".into()).or_default() += 1;
        }
        *stats.entry("tokens".into()).or_default() += r.n_tokens as u64;
        *stats.entry("error_tokens".into()).or_default() += r.n_error_tokens as u64;
        *stats.entry("events".into()).or_default() += r.n_events as u64;
        *stats.entry("diagnostics".into()).or_default() += r.n_diags as u64;
        *stats.entry("forward_parents".into()).or_default() += r.fwd_parents as u64;
        *stats.entry("lowering_diagnostics_checked".into()).or_default() += r.n_lower_diags as u64;
        *stats.entry("lowering_panics_not_judged_here".into()).or_default() += r.lower_panics as u64;
        if r.n_error_tokens > 0 {
            *stats.entry("inputs_with_error_token".into()).or_default() += 1;
        }
        if r.n_diags > 0 {
            *stats.entry("inputs_with_diagnostic".into()).or_default() += 1;
        }
        if r.fuel_zero {
            *stats.entry("inputs_reaching_fuel_zero".into()).or_default() += 1;
            *stats.entry(format!("fuel_zero:{}", job.stream)).or_default() += 1;
            if job.stream == "fuel-limit" {
                // by class of the catalogue (look / wind / flat / after)
                let class = job.id.trim_start_matches("fl:").split('-').next().unwrap_or("").to_string();
                *stats.entry(format!("fuel_zero_class:{}", class)).or_default() += 1;
            }
        }
        if r.kinds & (1u128 << 79) != 0 {
            *stats.entry("inputs_with_multiline_str".into()).or_default() += 1;
        }
        if !job.text.is_ascii() {
            *stats.entry("inputs_non_ascii".into()).or_default() += 1;
        }
        if r.n_tokens >= 2 {
            *stats.entry("inputs_with_2plus_tokens".into()).or_default() += 1;
        }
        kinds |= r.kinds;
        if !r.model_line.is_empty() {
            let _ = writeln!(cases, "{}\t{}", job.id, r.model_line);
        }
        if !r.real_line.is_empty() {
            let _ = writeln!(real, "{}\t{}", job.id, r.real_line);
        }
        for (k, d) in &r.failures {
            let _ = writeln!(oracle, "{}\t{}\t{}\t{}\t{}", job.id, job.stream, k, crate::sexp::esc_line(d), hexs(&job.text));
        }
    }
    if !args.rest.iter().any(|a| a == "--hex") {
        let (nd, crashed, slow) = run_deep(args, &mut oracle);
        stats.insert("deep_nesting_inputs".into(), nd as u64);
        stats.insert("deep_nesting_crashes".into(), crashed as u64);
        stats.insert("deep_nesting_timeouts_not_judged".into(), slow as u64);
    }
    stats.insert("jobs".into(), n as u64);
    stats.insert("distinct_token_kinds_seen".into(), kinds.count_ones() as u64);
    let mut st = String::new();
    for (k, v) in &stats {
        let _ = writeln!(st, "{}\t{}", k, v);
    }
    let _ = writeln!(st, "kinds_bitset\t{:x}", kinds);
    let _ = writeln!(st, "lookahead_fns_covered\t{}", LOOKAHEAD_FNS_COVERED.join(","));
    std::fs::write(args.out.join("c12.cases.tsv"), cases).expect("write cases");
    std::fs::write(args.out.join("c12.real.tsv"), real).expect("write real");
    std::fs::write(args.out.join("c12.oracle.tsv"), oracle).expect("write oracle");
    std::fs::write(args.out.join("c12.stats.tsv"), st).expect("write stats");
    println!("c12: {} cases", n);
}
