//! C13 — determinism.  Three jobs:
//!  * `gv c13`            master: (a) graph tie — package layouts written to disk, the real
//!                        `discover_packages` + `topo_sort_packages` (+ ids of a full compile) printed
//!                        for the Lean model; raw `PackageGraph`s through `topo_sort_packages`;
//!                        (b) K-fold recompilation of every project in this process — one fresh thread
//!                        per compile, so every `HashMap`/`HashSet` gets fresh `RandomState` keys — over
//!                        copies whose directories and files were created in permuted order; every
//!                        observable channel compared byte for byte; (c) digests for the children.
//!  * `gv c13 child --n i` one more process: re-creates the same projects (same seed) with another
//!                        creation order, compiles each once, writes digests.
//!  * `gv c13 show --n i`  print generated project i and what the compiler makes of it.
use crate::rng::Rng;
use crate::sexp::{S, a, esc_line, l, n, tagged};
use crate::util;
use compiler::pipeline::packages::{self, PackageGraph, PackageUnit};
use compiler::pipeline::pipeline::{self, CompilationError};
use compiler::pipeline::separate::{self, PackageInputs};
use std::collections::{BTreeMap, BTreeSet, HashMap};
use std::fmt::Write as _;
use std::hash::{Hash, Hasher};
use std::path::{Path, PathBuf};

// ------------------------------------------------------------------------------------------------
// projects

#[derive(Clone)]
pub struct Project {
    pub id: String,
    pub kind: &'static str,
    /// relative path -> content; the entry is `main.gom`
    pub files: Vec<(String, String)>,
    pub tags: Vec<String>,
}

impl Project {
    pub fn n_packages(&self) -> usize {
        self.files.iter().filter_map(|(p, _)| p.rfind('/').map(|i| &p[..i])).collect::<BTreeSet<_>>().len()
    }
    pub fn imports_of_main(&self) -> usize {
        let mut s = BTreeSet::new();
        for (p, c) in &self.files {
            if !p.contains('/') {
                for line in c.lines() {
                    if let Some(r) = line.strip_prefix("import ") {
                        s.insert(r.trim().to_string());
                    }
                }
            }
        }
        s.len()
    }
}

/// write the project under `root`; directories and files are created in an order drawn from `perm`
/// (perm 0 = the natural order)
pub fn materialize(root: &Path, p: &Project, perm: u64) {
    let _ = std::fs::remove_dir_all(root);
    std::fs::create_dir_all(root).unwrap();
    let mut order: Vec<usize> = (0..p.files.len()).collect();
    if perm != 0 {
        let mut r = Rng::new(perm);
        for i in (1..order.len()).rev() {
            let j = r.below(i + 1);
            order.swap(i, j);
        }
    }
    for i in order {
        let (rel, content) = &p.files[i];
        let path = root.join(rel);
        if let Some(d) = path.parent() {
            std::fs::create_dir_all(d).unwrap();
        }
        std::fs::write(&path, content).unwrap();
    }
}

fn read_tree(dir: &Path, prefix: &str, out: &mut Vec<(String, String)>) {
    let mut entries: Vec<_> = std::fs::read_dir(dir).map(|rd| rd.filter_map(|e| e.ok()).collect()).unwrap_or_default();
    entries.sort_by_key(|e| e.file_name());
    for e in entries {
        let name = e.file_name().to_string_lossy().to_string();
        let p = e.path();
        if p.is_dir() {
            read_tree(&p, &format!("{}{}/", prefix, name), out);
        } else if name.ends_with(".gom") {
            if let Ok(s) = std::fs::read_to_string(&p) {
                out.push((format!("{}{}", prefix, name), s));
            }
        }
    }
}

pub fn corpus_projects(quick: bool, rng: &mut Rng) -> Vec<Project> {
    let mut v = Vec::new();
    let pk = util::repo_root().join("crates/compiler/src/tests/package");
    let mut dirs: Vec<PathBuf> = std::fs::read_dir(&pk)
        .map(|rd| rd.filter_map(|e| e.ok().map(|e| e.path())).filter(|p| p.join("main.gom").exists()).collect())
        .unwrap_or_default();
    dirs.sort();
    for d in dirs {
        let mut files = Vec::new();
        read_tree(&d, "", &mut files);
        v.push(Project {
            id: format!("pkg-{}", d.file_name().unwrap().to_string_lossy()),
            kind: "corpus-package",
            files,
            tags: vec![],
        });
    }
    let singles = util::corpus_pipeline_dirs();
    for (i, d) in singles.iter().enumerate() {
        if quick && !(i % 6 == (rng.0 % 6) as usize) {
            continue;
        }
        if let Ok(s) = std::fs::read_to_string(d.join("main.gom")) {
            v.push(Project {
                id: format!("pipe-{}", d.file_name().unwrap().to_string_lossy()),
                kind: "corpus-pipeline",
                files: vec![("main.gom".to_string(), s)],
                tags: vec![],
            });
        }
    }
    // negative corpus: sources with recorded diagnostics
    let dg = util::repo_root().join("crates/compiler/src/tests/diagnostics");
    let mut srcs = Vec::new();
    fn walk(d: &Path, out: &mut Vec<PathBuf>) {
        if let Ok(rd) = std::fs::read_dir(d) {
            for e in rd.filter_map(|e| e.ok()) {
                let p = e.path();
                if p.is_dir() {
                    walk(&p, out)
                } else if p.extension().is_some_and(|x| x == "src" || x == "gom") {
                    out.push(p)
                }
            }
        }
    }
    walk(&dg, &mut srcs);
    srcs.sort();
    for (i, p) in srcs.iter().enumerate() {
        if quick && i % 3 != 0 {
            continue;
        }
        if let Ok(s) = std::fs::read_to_string(p) {
            v.push(Project {
                id: format!("diag-{}", p.file_stem().unwrap().to_string_lossy()),
                kind: "corpus-diagnostics",
                files: vec![("main.gom".to_string(), s)],
                tags: vec![],
            });
        }
    }
    // ambiguity family: k entities share a name and one use has to choose among them; whatever the
    // compiler answers (a diagnostic or a choice) must not depend on a hash seed
    for k in 2..=5usize {
        let names = ["Color", "Light", "Wine", "Paint", "Hue"];
        let mut enums = String::new();
        let mut enums_p = String::new();
        let mut traits = String::new();
        let mut structs = String::new();
        for n in names.iter().take(k) {
            writeln!(enums, "enum {} {{ Red, Only{} }}", n, n).unwrap();
            writeln!(enums_p, "enum {} {{ Mk(int32), Other{} }}", n, n).unwrap();
            writeln!(traits, "trait T{n} {{ fn m(Self) -> int32; }}\nimpl T{n} for int32 {{ fn m(self: int32) -> int32 {{ {v} }} }}", n = n, v = n.len()).unwrap();
            writeln!(structs, "struct S{n} {{ f: int32 }}\nimpl S{n} {{ fn get(self: S{n}) -> int32 {{ self.f }} }}", n = n).unwrap();
        }
        let fam: Vec<(&str, String)> = vec![
            ("bare-variant", format!("{}fn main() {{ let c = Red; let _ = c; () }}\n", enums)),
            ("bare-variant-match", format!("{}fn f(c: Color) -> int32 {{ match c {{ Red => 1, _ => 0 }} }}\nfn main() {{ string_println(int32_to_string(f(Color::Red))) }}\n", enums)),
            ("bare-ctor-payload", format!("{}fn main() {{ let c = Mk(1); let _ = c; () }}\n", enums_p)),
            ("method-of-k-traits", format!("{}fn main() {{ string_println(int32_to_string(1.m())) }}\n", traits)),
            ("field-of-k-structs", format!("{}fn main() {{ let g = |s| s.f; let _ = g; () }}\n", structs)),
            ("method-of-k-inherent", format!("{}fn main() {{ let g = |s| s.get(); let _ = g; () }}\n", structs)),
        ];
        for (name, src) in fam {
            v.push(Project {
                id: format!("ambig-{}-{}", name, k),
                kind: "ambiguity",
                files: vec![("main.gom".to_string(), src)],
                tags: vec![format!("k={}", k)],
            });
        }
    }
    v
}

/// ill-typed programs whose diagnostics are produced while some collection is walked — one family per
/// place in name resolution / the typer / the match compiler where the text or the order of diagnostics could
/// follow a map or set: closure capture lists, struct patterns and literals with several unknown / missing /
/// duplicate fields, impls with several missing / extra / wrongly typed methods, several unresolved names,
/// types, traits, variants in one item, duplicate definitions, non-exhaustive matches, candidates lists.
/// `k` = how many entities take part (2..=6); names are chosen so that they do not sort like they are written.
pub fn collection_diag_projects() -> Vec<Project> {
    let names = ["zeta", "alpha", "mid", "beta", "omega", "gamma"];
    let mut v = Vec::new();
    for k in 2..=6usize {
        let ns: Vec<&str> = names.iter().take(k).cloned().collect();
        let mut fam: Vec<(&str, String)> = Vec::new();
        // closure capturing k locals whose element type is never fixed
        let lets: String = ns.iter().map(|n| format!("    let {n} = vec_new();\n")).collect();
        let sum = ns.iter().map(|n| format!("vec_len({n})")).collect::<Vec<_>>().join(" + ");
        fam.push(("closure-captures-unresolved", format!("package Main\n\nfn main() -> unit {{\n{lets}    let f = || {sum};\n    let _ = f();\n    ()\n}}\n")));
        fam.push(("nested-closure-captures-unresolved", format!("package Main\n\nfn main() -> unit {{\n{lets}    let f = || {{\n        let g = || {sum};\n        g()\n    }};\n    let _ = f();\n    ()\n}}\n")));
        fam.push(("lets-unresolved", format!("package Main\n\nfn main() -> unit {{\n{lets}    ()\n}}\n")));
        let cap_use = ns.iter().map(|n| format!("{n}")).collect::<Vec<_>>().join(", ");
        fam.push(("closure-captures-unresolved-tuple", format!("package Main\n\nfn main() -> unit {{\n{lets}    let f = || ({cap_use});\n    let _ = f;\n    ()\n}}\n")));
        // struct patterns
        let unknown_pat = ns.iter().map(|n| format!("{n}: _")).collect::<Vec<_>>().join(", ");
        fam.push(("struct-pattern-unknown-fields", format!("package Main\n\nstruct P {{\n    x: int32,\n}}\n\nfn f(p: P) -> int32 {{\n    match p {{\n        P {{ x: a, {unknown_pat} }} => a,\n    }}\n}}\n\nfn main() -> unit {{\n    string_println(int32_to_string(f(P {{ x: 1 }})))\n}}\n")));
        let fields: String = ns.iter().map(|n| format!("    {n}: int32,\n")).collect();
        let all_init = ns.iter().map(|n| format!("{n}: 1")).collect::<Vec<_>>().join(", ");
        fam.push(("struct-pattern-missing-fields", format!("package Main\n\nstruct P {{\n    x: int32,\n{fields}}}\n\nfn f(p: P) -> int32 {{\n    match p {{\n        P {{ x: a }} => a,\n    }}\n}}\n\nfn main() -> unit {{\n    string_println(int32_to_string(f(P {{ x: 1, {all_init} }})))\n}}\n")));
        let dup_pat = ns.iter().map(|n| format!("{n}: _, {n}: _")).collect::<Vec<_>>().join(", ");
        fam.push(("struct-pattern-duplicate-fields", format!("package Main\n\nstruct P {{\n    x: int32,\n{fields}}}\n\nfn f(p: P) -> int32 {{\n    match p {{\n        P {{ x: a, {dup_pat} }} => a,\n    }}\n}}\n\nfn main() -> unit {{\n    string_println(int32_to_string(f(P {{ x: 1, {all_init} }})))\n}}\n")));
        // struct literals
        fam.push(("struct-literal-unknown-fields", format!("package Main\n\nstruct P {{\n    x: int32,\n}}\n\nfn main() -> unit {{\n    let p = P {{ x: 1, {all_init} }};\n    string_println(int32_to_string(p.x))\n}}\n")));
        fam.push(("struct-literal-missing-fields", format!("package Main\n\nstruct P {{\n    x: int32,\n{fields}}}\n\nfn main() -> unit {{\n    let p = P {{ x: 1 }};\n    string_println(int32_to_string(p.x))\n}}\n")));
        let dup_init = ns.iter().map(|n| format!("{n}: 1, {n}: 2")).collect::<Vec<_>>().join(", ");
        fam.push(("struct-literal-duplicate-fields", format!("package Main\n\nstruct P {{\n    x: int32,\n{fields}}}\n\nfn main() -> unit {{\n    let p = P {{ x: 1, {dup_init} }};\n    string_println(int32_to_string(p.x))\n}}\n")));
        let accesses = ns.iter().map(|n| format!("p.{n}")).collect::<Vec<_>>().join(" + ");
        fam.push(("unknown-field-accesses", format!("package Main\n\nstruct P {{\n    x: int32,\n}}\n\nfn main() -> unit {{\n    let p = P {{ x: 1 }};\n    string_println(int32_to_string({accesses}))\n}}\n")));
        // traits and impls
        let sigs: String = ns.iter().map(|n| format!("    fn {n}(Self) -> int32;\n")).collect();
        let meths: String = ns.iter().map(|n| format!("    fn {n}(self: S) -> int32 {{\n        1\n    }}\n")).collect();
        let bad_meths: String = ns.iter().map(|n| format!("    fn {n}(self: S, extra: bool) -> string {{\n        \"x\"\n    }}\n")).collect();
        fam.push(("impl-missing-methods", format!("package Main\n\ntrait T {{\n{sigs}}}\n\nstruct S {{}}\n\nimpl T for S {{}}\n\nfn main() -> unit {{\n    ()\n}}\n")));
        fam.push(("impl-extra-methods", format!("package Main\n\ntrait T {{\n    fn m(Self) -> int32;\n}}\n\nstruct S {{}}\n\nimpl T for S {{\n    fn m(self: S) -> int32 {{\n        1\n    }}\n{meths}}}\n\nfn main() -> unit {{\n    ()\n}}\n")));
        fam.push(("impl-wrong-signatures", format!("package Main\n\ntrait T {{\n{sigs}}}\n\nstruct S {{}}\n\nimpl T for S {{\n{bad_meths}}}\n\nfn main() -> unit {{\n    ()\n}}\n")));
        fam.push(("impl-duplicate-methods", format!("package Main\n\ntrait T {{\n{sigs}}}\n\nstruct S {{}}\n\nimpl T for S {{\n{meths}{meths}}}\n\nfn main() -> unit {{\n    ()\n}}\n")));
        fam.push(("inherent-duplicate-methods", format!("package Main\n\nstruct S {{}}\n\nimpl S {{\n{meths}{meths}}}\n\nfn main() -> unit {{\n    ()\n}}\n")));
        let traits: String = ns.iter().map(|n| format!("trait T{n} {{\n    fn ping(Self) -> int32;\n}}\n\n")).collect();
        let bounds = ns.iter().map(|n| format!("T{n}")).collect::<Vec<_>>().join(" + ");
        fam.push(("bound-ambiguous-method", format!("package Main\n\n{traits}fn f[T: {bounds}](x: T) -> int32 {{\n    x.ping()\n}}\n\nfn main() -> unit {{\n    ()\n}}\n")));
        let unk_bounds = ns.iter().map(|n| format!("Nope{n}")).collect::<Vec<_>>().join(" + ");
        fam.push(("unknown-traits-in-bounds", format!("package Main\n\nfn f[T: {unk_bounds}](x: T) -> int32 {{\n    1\n}}\n\nfn main() -> unit {{\n    ()\n}}\n")));
        // names, types, variants
        let calls = ns.iter().map(|n| format!("{n}(1)")).collect::<Vec<_>>().join(" + ");
        fam.push(("unresolved-callees", format!("package Main\n\nfn main() -> unit {{\n    string_println(int32_to_string({calls}))\n}}\n")));
        let vars = ns.iter().map(|n| format!("{n}")).collect::<Vec<_>>().join(" + ");
        fam.push(("unresolved-variables", format!("package Main\n\nfn main() -> unit {{\n    string_println(int32_to_string({vars}))\n}}\n")));
        let params = ns.iter().map(|n| format!("{n}: Ty{n}")).collect::<Vec<_>>().join(", ");
        fam.push(("unknown-types-in-signature", format!("package Main\n\nfn f({params}) -> int32 {{\n    1\n}}\n\nfn main() -> unit {{\n    ()\n}}\n")));
        let sfields: String = ns.iter().map(|n| format!("    {n}: Ty{n},\n")).collect();
        fam.push(("unknown-types-in-struct", format!("package Main\n\nstruct P {{\n{sfields}}}\n\nfn main() -> unit {{\n    ()\n}}\n")));
        let arms: String = ns.iter().map(|n| format!("        E::No{n} => 1,\n")).collect();
        fam.push(("unknown-variants-in-match", format!("package Main\n\nenum E {{\n    A,\n    B,\n}}\n\nfn f(e: E) -> int32 {{\n    match e {{\n{arms}        _ => 0,\n    }}\n}}\n\nfn main() -> unit {{\n    ()\n}}\n")));
        let variants: String = ns.iter().map(|n| format!("    V{n},\n")).collect();
        fam.push(("non-exhaustive-match", format!("package Main\n\nenum E {{\n    First,\n{variants}}}\n\nfn f(e: E) -> int32 {{\n    match e {{\n        E::First => 1,\n    }}\n}}\n\nfn main() -> unit {{\n    string_println(int32_to_string(f(E::First)))\n}}\n")));
        let pvariants: String = ns.iter().map(|n| format!("    V{n}(int32, bool),\n")).collect();
        fam.push(("non-exhaustive-match-payload", format!("package Main\n\nenum E {{\n    First,\n{pvariants}}}\n\nfn f(e: E, g: E) -> int32 {{\n    match (e, g) {{\n        (E::First, E::First) => 1,\n    }}\n}}\n\nfn main() -> unit {{\n    string_println(int32_to_string(f(E::First, E::First)))\n}}\n")));
        // duplicate definitions
        let dup_fns: String = ns.iter().map(|n| format!("fn {n}() -> int32 {{\n    1\n}}\n\nfn {n}() -> int32 {{\n    2\n}}\n\n")).collect();
        fam.push(("duplicate-functions", format!("package Main\n\n{dup_fns}fn main() -> unit {{\n    ()\n}}\n")));
        let dup_structs: String = ns.iter().map(|n| format!("struct S{n} {{\n    a: int32,\n}}\n\nstruct S{n} {{\n    b: bool,\n}}\n\n")).collect();
        fam.push(("duplicate-structs", format!("package Main\n\n{dup_structs}fn main() -> unit {{\n    ()\n}}\n")));
        let dup_variants: String = ns.iter().map(|n| format!("    V{n},\n    V{n},\n")).collect();
        fam.push(("duplicate-variants", format!("package Main\n\nenum E {{\n{dup_variants}}}\n\nfn main() -> unit {{\n    ()\n}}\n")));
        let dup_fields: String = ns.iter().map(|n| format!("    {n}: int32,\n    {n}: bool,\n")).collect();
        fam.push(("duplicate-struct-fields", format!("package Main\n\nstruct P {{\n{dup_fields}}}\n\nfn main() -> unit {{\n    ()\n}}\n")));
        let dup_traits: String = ns.iter().map(|n| format!("trait T{n} {{\n    fn m(Self) -> int32;\n}}\n\ntrait T{n} {{\n    fn k(Self) -> int32;\n}}\n\n")).collect();
        fam.push(("duplicate-traits", format!("package Main\n\n{dup_traits}fn main() -> unit {{\n    ()\n}}\n")));
        let dup_params = ns.iter().map(|n| format!("{n}: int32, {n}: bool")).collect::<Vec<_>>().join(", ");
        fam.push(("duplicate-parameters", format!("package Main\n\nfn f({dup_params}) -> int32 {{\n    1\n}}\n\nfn main() -> unit {{\n    ()\n}}\n")));
        // errors spread over functions and calls
        let bad_fns: String = ns.iter().map(|n| format!("fn {n}() -> int32 {{\n    \"{n}\"\n}}\n\n")).collect();
        fam.push(("type-errors-in-several-functions", format!("package Main\n\n{bad_fns}fn main() -> unit {{\n    ()\n}}\n")));
        let ok_fns: String = ns.iter().map(|n| format!("fn {n}(a: int32) -> int32 {{\n    a\n}}\n\n")).collect();
        let bad_calls = ns.iter().map(|n| format!("{n}(1, true)")).collect::<Vec<_>>().join(" + ");
        fam.push(("wrong-arity-calls", format!("package Main\n\n{ok_fns}fn main() -> unit {{\n    string_println(int32_to_string({bad_calls}))\n}}\n")));
        let tyargs = ns.iter().map(|n| format!("{n}: W[int32, bool]")).collect::<Vec<_>>().join(", ");
        fam.push(("wrong-type-arity", format!("package Main\n\nstruct W[T] {{\n    x: T,\n}}\n\nfn f({tyargs}) -> int32 {{\n    1\n}}\n\nfn main() -> unit {{\n    ()\n}}\n")));
        for (name, src) in fam {
            v.push(Project {
                id: format!("cdiag-{}-{}", name, k),
                kind: "collection-diagnostics",
                files: vec![("main.gom".to_string(), src)],
                tags: vec![format!("k={}", k), format!("family={}", name)],
            });
        }
        // the same kind of error in several files of several packages
        let mut files = vec![("main.gom".to_string(), format!("package Main\nimport Aa\nimport Bb\n\n{bad_fns}fn main() -> unit {{\n    ()\n}}\n"))];
        for pk in ["Aa", "Bb"] {
            for (fi, fname) in ["a.gom", "b.gom"].iter().enumerate() {
                let body: String = ns.iter().map(|n| format!("fn {n}{fi}() -> int32 {{\n    nope_{n}(\"{pk}\")\n}}\n\n")).collect();
                files.push((format!("{}/{}", pk, fname), format!("package {pk}\n\n{body}")));
            }
        }
        v.push(Project { id: format!("cdiag-errors-in-several-packages-{}", k), kind: "collection-diagnostics", files, tags: vec![format!("k={}", k), "family=errors-in-several-packages".to_string()] });
    }
    v
}

/// WELL-typed programs in which k members (k = 2..=6) of one kind end up in a collection that the middle and back
/// end turn into output — one family per collection: Go packages named by `extern "go"` functions / by extern
/// types (import lines; some already imported by the runtime prelude, some declared twice, some with a path of
/// several segments), distinct tuple / array / `Ref` / `Vec` types (runtime type declarations), structs and enums
/// (type definitions), `dyn` traits and their implementors (vtables, helper functions), closures (environment
/// structs, apply functions), instances of generic functions / structs / enums and of trait-bounded functions
/// (monomorphised copies), inherent and trait methods, `go` statements, externs spread over k packages of a
/// project (the separate build + `link` path).  Every declared member is used, so none is pruned.  The members
/// are written in an order that is neither ascending nor descending, so "sorted" and "as written" differ too.
pub fn emission_collection_projects() -> Vec<Project> {
    // (Go package, Go symbol, goml name, parameter type, argument literal) — all `-> string`-free simple functions;
    // order as written is not sorted
    let ext_fns: [(&str, &str, &str, &str, &str, &str); 6] = [
        ("strconv", "Quote", "quote", "string", "string", "\"q\""),
        ("math", "Sqrt", "sqrt", "float64", "float64", "2.0"),
        ("path/filepath", "Base", "fbase", "string", "string", "\"a/b\""),
        ("html", "EscapeString", "hesc", "string", "string", "\"<b>\""),
        ("os", "Getenv", "getenv", "string", "string", "\"HOME\""),
        ("net/url", "QueryEscape", "qesc", "string", "string", "\"a b\""),
    ];
    // extern types: (Go package, Go type = conversion function, goml type name, constructor name, argument type, literal)
    let ext_tys: [(&str, &str, &str, &str, &str, &str); 6] = [
        ("time", "Duration", "Duration", "mk_duration", "int32", "5"),
        ("reflect", "Kind", "Kind", "mk_kind", "int32", "2"),
        ("html/template", "HTML", "Html", "mk_html", "string", "\"<i>\""),
        ("syscall", "Signal", "Signal", "mk_signal", "int32", "9"),
        ("io/fs", "FileMode", "FileMode", "mk_mode", "int32", "420"),
        ("math/big", "Accuracy", "Accuracy", "mk_acc", "int32", "1"),
    ];
    let show = |ty: &str, e: &str| -> String {
        match ty {
            "string" => e.to_string(),
            "float64" => format!("float64_to_string({e})"),
            "bool" => format!("bool_to_string({e})"),
            _ => format!("int32_to_string({e})"),
        }
    };
    // element types for tuples / arrays / refs / vecs / generic instances: (type, literal)
    let elems: [(&str, &str); 6] = [("string", "\"s\""), ("int32", "7"), ("float64", "1.5"), ("bool", "true"), ("unit", "()"), ("int64", "9i64")];
    let names = ["zeta", "alpha", "mid", "beta", "omega", "gamma"];
    let mut v = Vec::new();
    for k in 2..=6usize {
        let mut fam: Vec<(&str, Vec<(String, String)>)> = Vec::new();
        let single = |src: String| vec![("main.gom".to_string(), src)];

        // ---- extern "go" functions of k Go packages
        let decls: String = ext_fns.iter().take(k).map(|(p, s, n, a, r, _)| format!("extern \"go\" \"{p}\" \"{s}\" {n}(x: {a}) -> {r}\n")).collect();
        let uses: String = ext_fns.iter().take(k).map(|(_, _, n, _, r, lit)| format!("    string_println({});\n", show(r, &format!("{n}({lit})")))).collect();
        fam.push(("extern-fn-packages", single(format!("{decls}\nfn main() {{\n{uses}}}\n"))));
        // the same packages, two functions each, mixed with functions of packages the runtime prelude imports itself
        let decls2: String = ext_fns.iter().take(k).map(|(p, s, n, a, r, _)| format!("extern \"go\" \"{p}\" \"{s}\" {n}(x: {a}) -> {r}\nextern \"go\" \"strings\" \"ToUpper\" up_{n}(x: string) -> string\nextern \"go\" \"{p}\" \"{s}\" {n}_again(x: {a}) -> {r}\nextern \"go\" \"fmt\" \"Sprint\" sp_{n}(x: {r}) -> string\n")).collect();
        let uses2: String = ext_fns.iter().take(k).map(|(_, _, n, _, _, lit)| format!("    string_println(up_{n}(sp_{n}({n}({lit}))) + sp_{n}({n}_again({lit})));\n")).collect();
        fam.push(("extern-fn-packages-repeated-and-prelude", single(format!("{decls2}\nfn main() {{\n{uses2}}}\n"))));
        // only some of the declared functions are used: the unused imports are pruned, the rest keep their order
        let uses3: String = ext_fns.iter().take(k).enumerate().filter(|(i, _)| i % 3 != 1).map(|(_, (_, _, n, _, r, lit))| format!("    string_println({});\n", show(r, &format!("{n}({lit})")))).collect();
        fam.push(("extern-fn-packages-partly-unused", single(format!("{decls}\nfn main() {{\n{uses3}}}\n"))));
        // used only from closures, `go` statements and other functions
        let helpers: String = ext_fns.iter().take(k).map(|(_, _, n, a, r, _)| format!("fn via_{n}(x: {a}) -> {r} {{\n    let f = |y: {a}| {n}(y);\n    f(x)\n}}\n\n")).collect();
        let uses4: String = ext_fns.iter().take(k).map(|(_, _, n, _, r, lit)| format!("    string_println({});\n", show(r, &format!("via_{n}({lit})")))).collect();
        fam.push(("extern-fn-packages-via-closures", single(format!("{decls}\n{helpers}fn main() {{\n{uses4}}}\n"))));

        // ---- extern types of k Go packages (each gets its package from the first extern function that mentions it)
        let tdecls: String = ext_tys.iter().take(k).map(|(_, _, t, _, _, _)| format!("extern type {t}\n")).collect();
        let tfns: String = ext_tys.iter().take(k).map(|(p, g, t, c, a, _)| format!("extern \"go\" \"{p}\" \"{g}\" {c}(x: {a}) -> {t}\nextern \"go\" \"fmt\" \"Sprint\" show_{c}(x: {t}) -> string\n")).collect();
        let tuses: String = ext_tys.iter().take(k).map(|(_, _, _, c, _, lit)| format!("    string_println(show_{c}({c}({lit})));\n")).collect();
        fam.push(("extern-type-packages", single(format!("{tdecls}\n{tfns}\nfn main() {{\n{tuses}}}\n"))));
        // extern types and functions of different packages interleaved; the types also sit inside structs, tuples, closures
        let mut mixed = String::new();
        let mut muses = String::new();
        let mut mfields = String::new();
        let mut minit = Vec::new();
        for i in 0..k {
            let (p, g, t, c, a, lit) = ext_tys[i];
            let (fp, fs, fnm, fa, fr, flit) = ext_fns[k - 1 - i];
            writeln!(mixed, "extern type {t}\nextern \"go\" \"{fp}\" \"{fs}\" {fnm}(x: {fa}) -> {fr}\nextern \"go\" \"{p}\" \"{g}\" {c}(x: {a}) -> {t}\nextern \"go\" \"fmt\" \"Sprint\" show_{c}(x: {t}) -> string").unwrap();
            writeln!(mfields, "    f_{c}: {t},").unwrap();
            minit.push(format!("f_{c}: {c}({lit})"));
            writeln!(muses, "    string_println(show_{c}(b.f_{c}) + {});", show(fr, &format!("{fnm}({flit})"))).unwrap();
        }
        fam.push(("extern-types-and-fns-interleaved", single(format!("{mixed}\nstruct Bag {{\n{mfields}}}\n\nfn main() {{\n    let b = Bag {{ {} }};\n{muses}}}\n", minit.join(", ")))));

        // ---- k distinct tuple / array / Ref / Vec types
        let es: Vec<(&str, &str)> = elems.iter().take(k).cloned().collect();
        let showv = |ty: &str, e: &str| -> String {
            match ty {
                "string" => e.to_string(),
                "float64" => format!("float64_to_string({e})"),
                "bool" => format!("bool_to_string({e})"),
                "unit" => format!("unit_to_string({e})"),
                "int64" => format!("int64_to_string({e})"),
                _ => format!("int32_to_string({e})"),
            }
        };
        let mut tup = String::new();
        let mut arr = String::new();
        let mut rf = String::new();
        let mut vc = String::new();
        for (i, (t, lit)) in es.iter().enumerate() {
            let (t2, lit2) = es[(i + 1) % es.len()];
            writeln!(tup, "    let t{i}: ({t}, {t2}, int32) = ({lit}, {lit2}, {i});\n    let (a{i}, _, c{i}) = t{i};\n    string_println({} + int32_to_string(c{i}));", showv(t, &format!("a{i}"))).unwrap();
            writeln!(arr, "    let x{i}: {t} = {lit};\n    let r{i}: [{t}; {}] = [{}];\n    string_println({});", i + 1, vec![format!("x{i}"); i + 1].join(", "), showv(t, &format!("array_get(r{i}, 0)"))).unwrap();
            writeln!(rf, "    let x{i}: {t} = {lit};\n    let c{i} = ref(x{i});\n    let d{i} = ref(c{i});\n    ref_set(c{i}, x{i});\n    string_println({});", showv(t, &format!("ref_get(ref_get(d{i}))"))).unwrap();
            writeln!(vc, "    let v{i}: Vec[{t}] = vec_new();\n    let v{i} = vec_push(v{i}, {lit});\n    string_println({} + int32_to_string(vec_len(v{i})));", showv(t, &format!("vec_get(v{i}, 0)"))).unwrap();
        }
        fam.push(("tuple-types", single(format!("fn main() {{\n{tup}}}\n"))));
        fam.push(("array-types", single(format!("fn main() {{\n{arr}}}\n"))));
        fam.push(("ref-types", single(format!("fn main() {{\n{rf}}}\n"))));
        fam.push(("vec-types", single(format!("fn main() {{\n{vc}}}\n"))));

        // ---- k structs, k enums, k traits; every struct implements every trait; dyn values of every trait
        let ns: Vec<&str> = names.iter().take(k).cloned().collect();
        let mut defs = String::new();
        for (i, n) in ns.iter().enumerate() {
            writeln!(defs, "struct S{n} {{\n    v: int32,\n}}\n\nenum E{n} {{\n    A{n},\n    B{n}(int32, S{n}),\n}}\n\ntrait T{n} {{\n    fn m{n}(Self) -> int32;\n    fn w{n}(Self, int32) -> string;\n}}\n").unwrap();
            let _ = i;
        }
        let mut impls = String::new();
        for t in &ns {
            for (j, s) in ns.iter().enumerate() {
                writeln!(impls, "impl T{t} for S{s} {{\n    fn m{t}(self: S{s}) -> int32 {{\n        self.v + {j}\n    }}\n    fn w{t}(self: S{s}, x: int32) -> string {{\n        int32_to_string(self.v * x)\n    }}\n}}\n").unwrap();
            }
        }
        let mut dynuse = String::new();
        for (i, t) in ns.iter().enumerate() {
            for (j, s) in ns.iter().enumerate() {
                writeln!(dynuse, "    let d{i}_{j}: dyn T{t} = S{s} {{ v: {j} }};\n    string_println(int32_to_string(T{t}::m{t}(d{i}_{j})));\n    string_println(T{t}::w{t}(d{i}_{j}, {i}));").unwrap();
            }
        }
        fam.push(("dyn-traits-and-implementors", single(format!("{defs}{impls}fn main() {{\n{dynuse}}}\n"))));
        let mut enuse = String::new();
        for (i, n) in ns.iter().enumerate() {
            writeln!(enuse, "    let e{i} = E{n}::B{n}({i}, S{n} {{ v: {i} }});\n    let x{i} = match e{i} {{\n        E{n}::A{n} => 0,\n        E{n}::B{n}(q, s) => q + s.v,\n    }};\n    string_println(int32_to_string(x{i}));").unwrap();
        }
        fam.push(("struct-and-enum-definitions", single(format!("{defs}fn main() {{\n{enuse}}}\n"))));
        // generic function with a bound called at every struct; inherent methods
        let mut bounded = String::new();
        for t in &ns {
            writeln!(bounded, "fn call{t}[X: T{t}](x: X) -> int32 {{\n    T{t}::m{t}(x)\n}}\n").unwrap();
        }
        let mut inh = String::new();
        for s in &ns {
            writeln!(inh, "impl S{s} {{\n    fn get(self: S{s}) -> int32 {{\n        self.v\n    }}\n    fn make(x: int32) -> S{s} {{\n        S{s} {{ v: x }}\n    }}\n}}\n").unwrap();
        }
        let mut buse = String::new();
        for t in &ns {
            for (j, s) in ns.iter().enumerate() {
                writeln!(buse, "    string_println(int32_to_string(call{t}(S{s}::make({j})) + S{s}::make({j}).get()));").unwrap();
            }
        }
        fam.push(("bounded-generic-instances", single(format!("{defs}{impls}{inh}{bounded}fn main() {{\n{buse}}}\n"))));

        // ---- generic function / struct / enum instantiated at k types
        let mut guse = String::new();
        for (i, (t, lit)) in es.iter().enumerate() {
            writeln!(guse, "    let x{i}: {t} = {lit};\n    let p{i} = Pair {{ fst: {i}, snd: id(x{i}) }};\n    let o{i} = wrap(p{i}.snd);\n    let s{i} = match o{i} {{\n        Opt::None => x{i},\n        Opt::Some(x) => x,\n    }};\n    string_println({});\n    let _ = swap(p{i});", showv(t, &format!("s{i}"))).unwrap();
        }
        fam.push(("generic-instances", single(format!("struct Pair[A, B] {{\n    fst: A,\n    snd: B,\n}}\n\nenum Opt[T] {{\n    None,\n    Some(T),\n}}\n\nfn id[T](x: T) -> T {{\n    x\n}}\n\nfn wrap[T](x: T) -> Opt[T] {{\n    Opt::Some(x)\n}}\n\nfn swap[A, B](p: Pair[A, B]) -> Pair[B, A] {{\n    Pair {{ fst: p.snd, snd: p.fst }}\n}}\n\nfn main() {{\n{guse}}}\n"))));

        // ---- k closures with different captures and types, k `go` statements
        let mut cl = String::new();
        for (i, (t, lit)) in es.iter().enumerate() {
            writeln!(cl, "    let cap{i}: {t} = {lit};\n    let f{i} = |n: int32| {{\n        let inner = || cap{i};\n        (inner(), n + {i})\n    }};\n    let (g{i}, h{i}) = f{i}({i});\n    string_println({} + int32_to_string(h{i}));\n    go || string_println({});", showv(t, &format!("g{i}")), showv(t, &format!("cap{i}"))).unwrap();
        }
        fam.push(("closures-and-go-statements", single(format!("fn main() {{\n{cl}}}\n"))));

        // ---- a project of k packages, each with its own extern function, struct, trait and impl (separate build + link)
        let pk = ["Pz", "Pa", "Pm", "Pb", "Po", "Pg"];
        let mut files: Vec<(String, String)> = Vec::new();
        let mut main = String::from("package Main\n");
        for p in pk.iter().take(k) {
            writeln!(main, "import {p}").unwrap();
        }
        let (mp, ms, mn, ma, mr, mlit) = ext_fns[k % ext_fns.len()];
        write!(main, "\nextern \"go\" \"{mp}\" \"{ms}\" {mn}(x: {ma}) -> {mr}\n\nfn main() {{\n    string_println({});\n", show(mr, &format!("{mn}({mlit})"))).unwrap();
        for (i, p) in pk.iter().take(k).enumerate() {
            let (gp, gs, gn, ga, gr, glit) = ext_fns[i];
            let (tp, tg, tt, tc, ta, tlit) = ext_tys[i];
            writeln!(main, "    string_println({p}::run{p}());").unwrap();
            files.push((format!("{p}/lib.gom"), format!("package {p}\n\nextern type {tt}\nextern \"go\" \"{gp}\" \"{gs}\" {gn}(x: {ga}) -> {gr}\nextern \"go\" \"{tp}\" \"{tg}\" {tc}(x: {ta}) -> {tt}\nextern \"go\" \"fmt\" \"Sprint\" show_{tc}(x: {tt}) -> string\n\nstruct S{p} {{\n    v: int32,\n}}\n\ntrait T{p} {{\n    fn m(Self) -> int32;\n}}\n\nimpl T{p} for S{p} {{\n    fn m(self: S{p}) -> int32 {{\n        self.v + {i}\n    }}\n}}\n\nfn run{p}() -> string {{\n    let t = (S{p} {{ v: {i} }}, {glit});\n    let (s, a) = t;\n    show_{tc}({tc}({tlit})) + {} + int32_to_string(T{p}::m(s))\n}}\n", show(gr, &format!("{gn}(a)")))));
        }
        main.push_str("}\n");
        files.insert(0, ("main.gom".to_string(), main));
        fam.push(("externs-in-several-packages", files));

        for (name, files) in fam {
            v.push(Project {
                id: format!("emit-{}-{}", name, k),
                kind: "emission-collections",
                files,
                tags: vec![format!("k={}", k), format!("family={}", name)],
            });
        }
    }
    v
}

/// The complement of `emission_collection_projects` (where every declared member is used): WELL-typed programs in
/// which k members (k = 2..=6) of EACH kind of helper declaration the Go back end collects — tuple structs, array
/// helpers, `Ref` helpers, and the types nested inside them — are mentioned by NO function signature and NO function
/// body.  They are reachable only through a type definition that is still emitted: the payload of a variant nobody
/// builds or matches, a field of a struct nobody builds, a monomorphic instance of a generic enum / struct of which
/// only the payload-free variant is built, a struct that itself sits only behind an unused variant, definitions
/// spread over k enums and k structs, over several files and over k packages (whole-program compile and separate
/// build + link).  Such members are found by the passes over the *definition tables* (not by the walk over the
/// function bodies), so their order in the output is the order in which those tables and their fields are walked.
/// No program matches on the enums (a `match`, even `_ =>`, makes the match compiler name the payload types in a
/// body).  Members are interleaved by kind and written in an order that is neither ascending nor descending.
pub fn emission_definition_only_projects() -> Vec<Project> {
    let elems: [&str; 6] = ["string", "int32", "float64", "bool", "unit", "int64"];
    let names = ["zeta", "alpha", "mid", "beta", "omega", "gamma"];
    let mut v = Vec::new();
    for k in 2..=6usize {
        let es: Vec<&str> = elems.iter().take(k).cloned().collect();
        let ns: Vec<&str> = names.iter().take(k).cloned().collect();
        // member i of each kind; all distinct within a kind
        let tup = |i: usize| format!("({}, {}, int32)", es[i % k], es[(i + 1) % k]);
        let arr = |i: usize| format!("[{}; {}]", es[i % k], i + 1);
        let rf = |i: usize| format!("Ref[{}]", es[i % k]);
        // nested members: every root brings inner runtime types with it
        let nest = |i: usize| -> [String; 4] {
            let (t, t2) = (es[i % k], es[(i + 1) % k]);
            [
                format!("Ref[[({t}, {t2}); {}]]", i + 2),
                format!("(({t2}, {t}), Ref[{t2}], [{t}; {}])", i + 7),
                format!("Vec[({t}, bool, {t2})]"),
                format!("({t}, Ref[bool]) -> ({t2}, [{t2}; {}])", i + 13),
            ]
        };
        let single = |src: String| vec![("main.gom".to_string(), src)];
        let mut fam: Vec<(&str, Vec<(String, String)>)> = Vec::new();

        // ---- payloads of variants nobody builds or matches
        let mut variants = String::new();
        for i in 0..k {
            writeln!(variants, "    Tu{}({}),\n    Ar{}({}),\n    Rf{}({}),", ns[i], tup(i), ns[i], arr(i), ns[i], rf(i)).unwrap();
        }
        fam.push(("unused-variant-payloads", single(format!(
            "enum Shape {{\n    Dot,\n{variants}}}\n\nfn origin() -> Shape {{\n    Shape::Dot\n}}\n\nfn main() -> unit {{\n    let s = origin();\n    let _ = s;\n    string_println(\"ok\")\n}}\n"))));
        // the same with several payloads per variant
        let mut variants2 = String::new();
        for i in 0..k {
            writeln!(variants2, "    V{}({}, {}, {}),", ns[i], rf(i), tup(k - 1 - i), arr(i)).unwrap();
        }
        fam.push(("unused-variant-multi-payloads", single(format!(
            "enum Shape {{\n{variants2}    Dot,\n}}\n\nfn main() -> unit {{\n    let s = Shape::Dot;\n    let f = || s;\n    let _ = f();\n    string_println(\"ok\")\n}}\n"))));

        // ---- fields of a struct nobody builds; and of a struct that sits only behind an unused variant
        let mut fields = String::new();
        for i in 0..k {
            writeln!(fields, "    a_{n}: {},\n    t_{n}: {},\n    r_{n}: {},", arr(i), tup(i), rf(i), n = ns[i]).unwrap();
        }
        fam.push(("unbuilt-struct-fields", single(format!(
            "struct Holder {{\n{fields}}}\n\nfn main() -> unit {{\n    string_println(\"ok\")\n}}\n"))));
        fam.push(("struct-behind-unused-variant", single(format!(
            "struct Holder {{\n{fields}}}\n\nenum Slot {{\n    Full(Holder),\n    Empty,\n}}\n\nfn empty() -> Slot {{\n    Slot::Empty\n}}\n\nfn main() -> unit {{\n    let s = empty();\n    let _ = s;\n    string_println(\"ok\")\n}}\n"))));

        // ---- monomorphic instances of a generic enum of which only the payload-free variant is built
        let mut slots = String::new();
        let mut init = Vec::new();
        for i in 0..k {
            writeln!(slots, "    p_{n}: Opt[{}],\n    q_{n}: Opt[{}],\n    r_{n}: Opt[{}],", tup(i), arr(i), rf(i), n = ns[i]).unwrap();
            init.push(format!("p_{n}: Opt::Nothing, q_{n}: Opt::Nothing, r_{n}: Opt::Nothing", n = ns[i]));
        }
        fam.push(("generic-enum-instances", single(format!(
            "enum Opt[T] {{\n    Nothing,\n    Just(T),\n}}\n\nstruct Slots {{\n{slots}}}\n\nfn empty() -> Slots {{\n    Slots {{ {} }}\n}}\n\nfn main() -> unit {{\n    let s = empty();\n    let _ = s;\n    string_println(\"ok\")\n}}\n",
            init.join(", ")))));
        // generic struct instances holding generic enum instances; a generic enum with two parameters; instances made by a generic function
        let mut guse = String::new();
        for i in 0..k {
            writeln!(guse, "    let c{i}: Cell[{}] = fresh({i});\n    let e{i}: Either[{}, {}] = Either::Neither;\n    let _ = (c{i}.tag, e{i});", tup(i), arr(i), rf(i)).unwrap();
        }
        fam.push(("generic-struct-and-fn-instances", single(format!(
            "enum Opt[T] {{\n    Nothing,\n    Just(T),\n}}\n\nenum Either[A, B] {{\n    L(A),\n    Neither,\n    R(B),\n}}\n\nstruct Cell[T] {{\n    tag: int32,\n    slot: Opt[T],\n}}\n\nfn fresh[T](tag: int32) -> Cell[T] {{\n    Cell {{ tag: tag, slot: Opt::Nothing }}\n}}\n\nfn main() -> unit {{\n{guse}    string_println(\"ok\")\n}}\n"))));

        // ---- nested runtime types (every root carries inner tuples / arrays / refs; Vec and function types on the way)
        let mut nvariants = String::new();
        for i in 0..k {
            let [a, b, c, d] = nest(i);
            writeln!(nvariants, "    Na{n}({a}),\n    Nb{n}({b}),\n    Nc{n}({c}),\n    Nd{n}({d}),", n = ns[i]).unwrap();
        }
        fam.push(("nested-types", single(format!(
            "enum Deep {{\n{nvariants}    Leaf,\n}}\n\nfn leaf() -> Deep {{\n    Deep::Leaf\n}}\n\nfn main() -> unit {{\n    let d = leaf();\n    let _ = d;\n    string_println(\"ok\")\n}}\n"))));

        // ---- `dyn` traits, function types and `Vec`s that occur only in definitions (the collector of dyn requirements and the
        //      type printer see them only through the definition tables), next to runtime types inside them
        let mut traits = String::new();
        let mut dvariants = String::new();
        for i in 0..k {
            writeln!(traits, "trait T{n} {{\n    fn m{n}(Self) -> int32;\n}}\n\nimpl T{n} for int32 {{\n    fn m{n}(self: int32) -> int32 {{\n        self + {i}\n    }}\n}}\n", n = ns[i]).unwrap();
            writeln!(dvariants, "    Dy{n}(dyn T{n}),\n    Fn{n}((dyn T{n2}, {}) -> {}),\n    Ve{n}(Vec[(dyn T{n}, {})]),", tup(i), rf(i), arr(i), n = ns[i], n2 = ns[(i + 1) % k]).unwrap();
        }
        fam.push(("dyn-and-fn-types", single(format!(
            "{traits}enum Slot {{\n    Empty,\n{dvariants}}}\n\nfn empty() -> Slot {{\n    Slot::Empty\n}}\n\nfn main() -> unit {{\n    let s = empty();\n    let _ = s;\n    string_println(int32_to_string(T{}::m{}(1)))\n}}\n", ns[0], ns[0]))));

        // ---- one definition-only member per definition, spread over k enums and k structs (declared interleaved)
        let mut defs = String::new();
        let mut duse = String::new();
        for i in 0..k {
            writeln!(defs, "enum E{n} {{\n    Has{n}({}, {}),\n    No{n},\n}}\n\nstruct S{n} {{\n    e: E{n},\n    tag: int32,\n}}\n\nstruct U{n} {{\n    x: {},\n    y: {},\n}}\n", tup(i), rf(i), arr(i), tup((i + 1) % k), n = ns[i]).unwrap();
            writeln!(duse, "    let s{i} = S{n} {{ e: E{n}::No{n}, tag: {i} }};\n    string_println(int32_to_string(s{i}.tag));", n = ns[i]).unwrap();
        }
        fam.push(("several-definitions", single(format!("{defs}fn main() -> unit {{\n{duse}}}\n"))));

        // ---- k members of each kind only in definitions, k OTHER members of each kind also used by function bodies (those are
        //      found by the walk over the bodies first); declared interleaved, the definition-only ones first
        let tup_u = |i: usize| format!("({}, {}, int32, bool)", es[i % k], es[(i + 1) % k]);
        let rf_u = |i: usize| format!("Ref[Vec[{}]]", es[i % k]);
        let mut mvariants = String::new();
        let mut muse = String::new();
        for i in 0..k {
            writeln!(mvariants, "    Tu{n}({}),\n    Rf{n}({}),\n    UsedTu{n}({}),\n    Ar{n}({}),\n    UsedRf{n}({}),", tup(i), rf(i), tup_u(k - 1 - i), arr(i), rf_u(k - 1 - i), n = ns[i]).unwrap();
        }
        for i in 0..k {
            writeln!(muse, "    let r{i}: {} = ref(vec_new());\n    let _ = r{i};\n    let t{i}: {} = ({}, {}, {i}, true);\n    let _ = t{i};", rf_u(i), tup_u(i), lit_of(es[i % k]), lit_of(es[(i + 1) % k])).unwrap();
        }
        fam.push(("mixed-with-used", single(format!(
            "enum Shape {{\n{mvariants}    Dot,\n}}\n\nfn origin() -> Shape {{\n    Shape::Dot\n}}\n\nfn main() -> unit {{\n{muse}    let s = origin();\n    let _ = s;\n    string_println(\"ok\")\n}}\n"))));

        // ---- the definitions live in several files of the package
        let mut files: Vec<(String, String)> = vec![("main.gom".to_string(), format!(
            "package Main\n\nfn main() -> unit {{\n{}    string_println(\"ok\")\n}}\n",
            (0..k).map(|i| format!("    let _ = mk_{}();\n", ns[i])).collect::<String>()))];
        for i in 0..k {
            files.push((format!("{}.gom", ns[i]), format!(
                "package Main\n\nenum F{n} {{\n    None{n},\n    One{n}({}),\n    Two{n}({}, {}),\n}}\n\nfn mk_{n}() -> F{n} {{\n    F{n}::None{n}\n}}\n",
                arr(i), rf(i), tup(i), n = ns[i])));
        }
        fam.push(("several-files", files));

        // ---- the definitions live in k packages (whole-program compile and separate build + link)
        let pk = ["Pz", "Pa", "Pm", "Pb", "Po", "Pg"];
        let mut files: Vec<(String, String)> = Vec::new();
        let mut main = String::from("package Main\n");
        for p in pk.iter().take(k) {
            writeln!(main, "import {p}").unwrap();
        }
        main.push_str("\nenum Local {\n    Off,\n");
        for i in 0..k {
            writeln!(main, "    On{}({}, {}),", ns[i], tup(k - 1 - i), rf(k - 1 - i)).unwrap();
        }
        main.push_str("}\n\nfn main() -> unit {\n    let l = Local::Off;\n    let _ = l;\n");
        for (i, p) in pk.iter().take(k).enumerate() {
            writeln!(main, "    let _ = {p}::none{p}();").unwrap();
            files.push((format!("{p}/lib.gom"), format!(
                "package {p}\n\nenum Opt{p}[T] {{\n    None{p},\n    Some{p}(T),\n}}\n\nenum E{p} {{\n    A{p}({}),\n    B{p},\n    C{p}({}, {}),\n}}\n\nstruct S{p} {{\n    e: E{p},\n    o: Opt{p}[{}],\n}}\n\nfn none{p}() -> S{p} {{\n    S{p} {{ e: E{p}::B{p}, o: Opt{p}::None{p} }}\n}}\n",
                tup(i), arr(i), rf(i), nest(i)[1])));
        }
        main.push_str("    string_println(\"ok\")\n}\n");
        files.insert(0, ("main.gom".to_string(), main));
        fam.push(("several-packages", files));

        for (name, files) in fam {
            v.push(Project {
                id: format!("emit-defonly-{}-{}", name, k),
                kind: "emission-collections",
                files,
                tags: vec![format!("k={}", k), format!("family=defonly-{}", name), "definition-only".to_string()],
            });
        }
    }
    v
}

fn lit_of(ty: &str) -> &'static str {
    match ty {
        "string" => "\"s\"",
        "int32" => "7",
        "float64" => "1.5",
        "bool" => "true",
        "unit" => "()",
        "int64" => "9i64",
        _ => "0",
    }
}

// ------------------------------------------------------------------------------------------------
// generated multi-package projects

pub const POOL: &[&str] = &["Aa", "Bb", "Cc", "Dd"];

/// the item texts of package `p` (every package has the same shape, names carry the package name)
fn pkg_items(p: &str, imports: &[String], rng: &mut Rng) -> Vec<String> {
    let c1 = rng.below(9) + 1;
    let c2 = rng.below(9) + 1;
    let mut it = Vec::new();
    it.push(format!("struct S{p} {{\n    v: int32,\n}}"));
    it.push(format!("enum E{p} {{\n    K0,\n    K1(int32),\n}}"));
    it.push(format!("trait T{p} {{\n    fn m(Self) -> int32;\n    fn k(Self) -> int32;\n}}"));
    it.push(format!(
        "impl T{p} for S{p} {{\n    fn m(self: S{p}) -> int32 {{\n        self.v + {c1}\n    }}\n    fn k(self: S{p}) -> int32 {{\n        {c2}\n    }}\n}}"
    ));
    it.push(format!(
        "impl T{p} for E{p} {{\n    fn m(self: E{p}) -> int32 {{\n        match self {{\n            E{p}::K0 => {c1},\n            E{p}::K1(x) => x,\n        }}\n    }}\n    fn k(self: E{p}) -> int32 {{\n        {c2}\n    }}\n}}"
    ));
    it.push(format!("fn g{p}[T: T{p}](t: T) -> int32 {{\n    T{p}::m(t)\n}}"));
    let mut sum = format!("x + g{p}(S{p} {{ v: {c1} }}) + g{p}(E{p}::K1({c2}))");
    for d in imports {
        write!(sum, " + {d}::f{d}(x)").unwrap();
    }
    it.push(format!("fn f{p}(x: int32) -> int32 {{\n    {sum}\n}}"));
    for d in imports {
        // a trait of the imported package implemented for a local type (allowed by the orphan rule) and
        // a local trait implemented for an imported type
        if rng.chance(2, 3) {
            it.push(format!(
                "impl {d}::T{d} for S{p} {{\n    fn m(self: S{p}) -> int32 {{\n        self.v\n    }}\n    fn k(self: S{p}) -> int32 {{\n        {d}::g{d}({d}::S{d} {{ v: {c2} }})\n    }}\n}}"
            ));
            it.push(format!("fn h{p}{d}(x: int32) -> int32 {{\n    {d}::g{d}(S{p} {{ v: x }})\n}}"));
        }
        if rng.chance(1, 2) {
            it.push(format!(
                "impl T{p} for {d}::E{d} {{\n    fn m(self: {d}::E{d}) -> int32 {{\n        match self {{\n            {d}::E{d}::K0 => 0,\n            {d}::E{d}::K1(y) => y,\n        }}\n    }}\n    fn k(self: {d}::E{d}) -> int32 {{\n        {c1}\n    }}\n}}"
            ));
        }
    }
    if rng.chance(1, 2) {
        it.push(format!("fn c{p}(x: int32) -> int32 {{\n    let add = |y: int32| y + x;\n    add({c1})\n}}"));
    }
    it
}

/// ill-typed additions; each yields at least one diagnostic, `miss2` yields two whose order used to
/// follow a `HashSet`
fn bad_items(p: &str, kinds: &[usize]) -> Vec<String> {
    let mut v = Vec::new();
    for k in kinds {
        v.push(match k % 8 {
            0 => format!("fn bad0{p}() -> int32 {{\n    true\n}}"),
            1 => format!("fn bad1{p}() -> string {{\n    1\n}}"),
            2 => format!("fn bad2{p}() -> int32 {{\n    nope{p}(1)\n}}"),
            3 => format!("struct M{p} {{}}\n\nimpl T{p} for M{p} {{}}"),
            4 => format!("fn bad4{p}() -> int32 {{\n    Zz::fZz(1)\n}}"),
            5 => format!("impl T{p} for S{p} {{\n    fn m(self: S{p}) -> int32 {{\n        1\n    }}\n    fn k(self: S{p}) -> int32 {{\n        2\n    }}\n}}"),
            6 => format!("fn bad6{p}(x: Nope{p}) -> int32 {{\n    1\n}}"),
            _ => format!("struct N{p} {{}}\n\nimpl T{p} for N{p} {{\n    fn zz(self: N{p}) -> int32 {{\n        1\n    }}\n}}"),
        });
    }
    v
}

pub struct GenSpec {
    pub pkgs: Vec<(String, Vec<String>)>, // Main first
    pub bad: Vec<(String, Vec<usize>)>,
    pub shape: &'static str,
}

pub fn gen_spec(idx: usize, rng: &mut Rng) -> GenSpec {
    // forced shapes first, then random DAGs over 0..=4 packages
    let forced: &[(&str, &[(&str, &[&str])])] = &[
        ("single", &[("Main", &[])]),
        ("two-imports", &[("Main", &["Aa", "Bb"]), ("Aa", &[]), ("Bb", &[])]),
        ("diamond", &[("Main", &["Aa", "Bb"]), ("Aa", &["Cc"]), ("Bb", &["Cc"]), ("Cc", &[])]),
        ("chain", &[("Main", &["Aa"]), ("Aa", &["Bb"]), ("Bb", &["Cc"]), ("Cc", &[])]),
        ("triangle", &[("Main", &["Aa", "Bb"]), ("Bb", &["Aa"]), ("Aa", &[])]),
        ("fan3", &[("Main", &["Aa", "Bb", "Cc"]), ("Aa", &[]), ("Bb", &[]), ("Cc", &[])]),
        ("full4", &[("Main", &["Aa", "Bb", "Cc", "Dd"]), ("Aa", &["Bb", "Cc", "Dd"]), ("Bb", &["Cc", "Dd"]), ("Cc", &["Dd"]), ("Dd", &[])]),
        ("double-diamond", &[("Main", &["Aa", "Bb"]), ("Aa", &["Cc", "Dd"]), ("Bb", &["Cc", "Dd"]), ("Cc", &[]), ("Dd", &[])]),
    ];
    let (shape, pkgs): (&'static str, Vec<(String, Vec<String>)>) = if idx < forced.len() * 2 {
        let (s, g) = forced[idx % forced.len()];
        (s, g.iter().map(|(p, d)| (p.to_string(), d.iter().map(|x| x.to_string()).collect())).collect())
    } else {
        let np = rng.below(5);
        let mut names: Vec<&str> = POOL.to_vec();
        for i in (1..names.len()).rev() {
            let j = rng.below(i + 1);
            names.swap(i, j);
        }
        let names = &names[..np];
        let mut g: Vec<(String, Vec<String>)> = Vec::new();
        let mut main_imps: Vec<String> = names.iter().filter(|_| rng.chance(3, 4)).map(|s| s.to_string()).collect();
        if main_imps.len() < 2 && np >= 2 {
            main_imps = names[..2].iter().map(|s| s.to_string()).collect();
        }
        g.push(("Main".to_string(), main_imps));
        for (i, p) in names.iter().enumerate() {
            let deps: Vec<String> = names[i + 1..].iter().filter(|_| rng.chance(1, 2)).map(|s| s.to_string()).collect();
            g.push((p.to_string(), deps));
        }
        ("random-dag", g)
    };
    // the second pass over the forced shapes and a third of the random ones are ill-typed
    let ill = (idx >= forced.len() && idx < forced.len() * 2) || (idx >= forced.len() * 2 && rng.chance(1, 3));
    let mut bad = Vec::new();
    if ill {
        let nb = 2 + rng.below(3);
        for _ in 0..nb {
            let p = pkgs[rng.below(pkgs.len())].0.clone();
            let k = rng.below(8);
            match bad.iter_mut().find(|(q, _): &&mut (String, Vec<usize>)| *q == p) {
                Some((_, ks)) => {
                    if !ks.contains(&k) {
                        ks.push(k)
                    }
                }
                None => bad.push((p, vec![k])),
            }
        }
        if idx % 2 == 0 && !bad.iter().any(|(_, ks)| ks.contains(&3)) {
            bad[0].1.push(3);
        }
    }
    GenSpec { pkgs, bad, shape }
}

pub fn gen_project(idx: usize, seed: u64) -> Project {
    let mut rng = Rng::new(seed ^ (idx as u64).wrapping_mul(0x9E37_79B9_7F4A_7C15));
    let spec = gen_spec(idx, &mut rng);
    let mut files = Vec::new();
    let mut tags = vec![format!("shape={}", spec.shape)];
    let mut ntraits = 0;
    let mut nimpls = 0;
    for (p, imps) in &spec.pkgs {
        let mut items = pkg_items(p, imps, &mut rng);
        let bad = spec.bad.iter().find(|(q, _)| q == p).map(|(_, k)| bad_items(p, k)).unwrap_or_default();
        items.extend(bad);
        ntraits += items.iter().filter(|s| s.starts_with("trait ")).count();
        nimpls += items.iter().filter(|s| s.contains("impl ")).count();
        if p == "Main" {
            let mut body = format!("    string_println(int32_to_string(fMain(1)));\n");
            for d in imps {
                write!(body, "    string_println(int32_to_string({d}::f{d}(2) + {d}::g{d}({d}::E{d}::K0)));\n").unwrap();
            }
            items.push(format!("fn main() {{\n{body}}}"));
        }
        // split the items over 1..=3 files; every file repeats the imports it needs (all of them:
        // `collect_imports` unions the files), some files repeat an import twice
        let nf = 1 + rng.below(3);
        let mut parts: Vec<Vec<String>> = vec![Vec::new(); nf];
        // type and trait definitions go to the file that is read first (files are read in name order and
        // an impl must come after the trait it implements)
        for it in items.into_iter() {
            let is_def = it.starts_with("struct ") || it.starts_with("enum ") || it.starts_with("trait ");
            let k = if is_def && !it.contains("\n\nimpl ") { 0 } else { rng.below(nf) };
            parts[k].push(it);
        }
        // some packages have files whose names differ only in case: the documented order is the
        // byte order of the names, whatever order the directory yields them in
        let fnames: &[&str] = if p == "Main" {
            &["main.gom", "n.gom", "z.gom"]
        } else if idx % 3 == 1 {
            &["Ops.gom", "ops.gom", "oPs.gom"]
        } else {
            &["a.gom", "b.gom", "lib.gom"]
        };
        for (k, part) in parts.iter().enumerate() {
            let mut s = format!("package {p}\n");
            let mut my = imps.clone();
            if rng.chance(1, 2) {
                my.reverse();
            }
            for d in &my {
                writeln!(s, "import {d}").unwrap();
            }
            if rng.chance(1, 5) && !my.is_empty() {
                writeln!(s, "import {}", my[0]).unwrap();
            }
            s.push('\n');
            s.push_str(&part.join("\n\n"));
            s.push('\n');
            let rel = if p == "Main" { fnames[k].to_string() } else { format!("{}/{}", p, fnames[k]) };
            files.push((rel, s));
        }
        if nf > 1 {
            tags.push("multi-file".to_string());
        }
    }
    // sometimes a package directory nobody imports
    if rng.chance(1, 6) {
        files.push(("Zq/lib.gom".to_string(), "package Zq\n\nfn fZq(x: int32) -> int32 {\n    x\n}\n".to_string()));
        tags.push("unreachable-dir".to_string());
    }
    if !spec.bad.is_empty() {
        tags.push("ill-typed".to_string());
        for (_, ks) in &spec.bad {
            for k in ks {
                tags.push(format!("bad{}", k));
            }
        }
    }
    tags.push(format!("pkgs={}", spec.pkgs.len() - 1));
    tags.push(format!("main-imports={}", spec.pkgs[0].1.len()));
    tags.push(format!("traits={}", ntraits));
    tags.push(format!("impls={}", nimpls));
    tags.sort();
    tags.dedup();
    Project { id: format!("gen-{:03}", idx), kind: "generated", files, tags }
}

// ------------------------------------------------------------------------------------------------
// observation of one compile

pub type Obs = Vec<(&'static str, String)>;

fn diag_text(e: &CompilationError, root: &Path) -> String {
    let rs = root.to_string_lossy().to_string();
    let mut s = String::new();
    for d in e.diagnostics().iter() {
        let r = d.range().map(|r| format!("{}..{}", u32::from(r.start()), u32::from(r.end()))).unwrap_or_else(|| "-".into());
        writeln!(s, "{}|{:?}|{}|{}", d.stage().as_str(), d.severity(), r, d.message().replace(&rs, "$ROOT")).unwrap();
    }
    s
}

/// every observable of `compile` + of the separate check/build of each package (interface bytes, hash)
pub fn observe(root: &Path) -> Obs {
    let entry = root.join("main.gom");
    let src = std::fs::read_to_string(&entry).unwrap_or_default();
    let mut o: Obs = Vec::new();
    let r = std::panic::catch_unwind(std::panic::AssertUnwindSafe(|| pipeline::compile(&entry, &src)));
    let mut order: Vec<String> = Vec::new();
    match r {
        Ok(Ok(c)) => {
            o.push(("outcome", "ok".to_string()));
            o.push(("diagnostics", String::new()));
            o.push(("cst", format!("{:?}", c.green_node)));
            o.push(("ast", c.ast.to_pretty(120)));
            let ctx = compiler::pprint::hir_pprint::HirPrintCtx::new(&c.hir_table);
            o.push(("hir", c.hir.to_pretty(&ctx, 120)));
            let mut idx: Vec<(String, u32)> = c.hir.package_index.iter().map(|(k, v)| (k.0.clone(), v.0)).collect();
            idx.sort();
            o.push(("package_ids", format!("{:?}", idx)));
            o.push(("tast", c.tast.to_pretty(&c.genv, 120)));
            o.push(("core", c.core.to_pretty(&c.genv, 120)));
            o.push(("mono", c.mono.to_pretty(&c.monoenv, 120)));
            o.push(("lift", c.lambda.to_pretty(&c.liftenv, 120)));
            o.push(("anf", c.anf.to_pretty(&c.anfenv, 120)));
            o.push(("go", c.go.to_pretty(&c.goenv, 120)));
        }
        Ok(Err(e)) => {
            o.push(("outcome", format!("err {}", util::stage_of(&e))));
            o.push(("diagnostics", diag_text(&e, root)));
        }
        Err(p) => {
            o.push(("outcome", "panic".to_string()));
            o.push(("diagnostics", util::panic_message(p)));
        }
    }
    // separate compilation: interface bytes and hashes, package by package in dependency order
    let r = std::panic::catch_unwind(std::panic::AssertUnwindSafe(|| -> Result<String, String> {
        let ast = pipeline::parse_ast_file(&entry, &src).map_err(|e| diag_text(&e, root))?;
        let graph = packages::discover_packages(root, Some(&entry), Some(ast)).map_err(|e| diag_text(&e, root))?;
        let topo = packages::topo_sort_packages(&graph).map_err(|e| diag_text(&e, root))?;
        order = graph.discovery_order.clone();
        let art = root.join(".artifacts");
        let _ = std::fs::remove_dir_all(&art);
        std::fs::create_dir_all(&art).map_err(|e| e.to_string())?;
        let mut out = String::new();
        let mut cores: Vec<compiler::artifact::CoreUnit> = Vec::new();
        let mut inputs_of: HashMap<String, Vec<PathBuf>> = HashMap::new();
        let mut all_built = true;
        for p in &topo {
            let dir = graph.package_dirs.get(p).cloned().unwrap_or_else(|| root.join(p));
            let mut inputs: Vec<PathBuf> = std::fs::read_dir(&dir)
                .map(|rd| rd.filter_map(|e| e.ok().map(|e| e.path())).filter(|q| q.extension().is_some_and(|x| x == "gom")).collect())
                .unwrap_or_default();
            inputs.sort();
            inputs_of.insert(p.clone(), inputs.clone());
            let opts = || PackageInputs { package: p.clone(), input_files: inputs.clone(), interface_paths: vec![art.clone()] };
            match separate::build_package(opts()) {
                Ok(unit) => {
                    let ij = serde_json::to_string(&unit.interface).unwrap_or_default();
                    let cj = serde_json::to_string(&unit).unwrap_or_default();
                    std::fs::write(art.join(format!("{}.interface", p)), &ij).map_err(|e| e.to_string())?;
                    let cj = cj.replace(&root.to_string_lossy().to_string(), "$ROOT");
                    writeln!(out, "{} hash={} iface={:016x} core={:016x}", p, unit.interface.interface_hash, h64(&ij), h64(&cj)).unwrap();
                    cores.push(unit);
                }
                Err(e) => {
                    writeln!(out, "{} err {}", p, diag_text(&e, root).replace('\n', " ; ")).unwrap();
                    all_built = false;
                    break;
                }
            }
        }
        if all_built {
            // link what was built
            match separate::link_cores(cores.clone()) {
                Ok(lo) => writeln!(out, "link ok go={}", digest(&lo.go.to_pretty(&lo.goenv, 120))).unwrap(),
                Err(e) => writeln!(out, "link err {}", diag_text(&e, root).replace('\n', " ; ")).unwrap(),
            }
            // a dependency that changed its interface after its dependents were built: every dependent is
            // stale and the link must be refused with the same message every time
            let mut users: BTreeMap<String, usize> = BTreeMap::new();
            for c in &cores {
                for d in c.deps.keys() {
                    *users.entry(d.clone()).or_insert(0) += 1;
                }
            }
            if let Some((leaf, _)) = users.iter().filter(|(_, n)| **n >= 2).next() {
                let dir = graph.package_dirs.get(leaf).cloned().unwrap_or_else(|| root.join(leaf));
                let extra = dir.join("zz_extra.gom");
                std::fs::write(&extra, format!("package {}\n\nfn zz_extra_item() -> int32 {{\n    1\n}}\n", leaf)).map_err(|e| e.to_string())?;
                let mut inputs = inputs_of.get(leaf).cloned().unwrap_or_default();
                inputs.push(extra.clone());
                let rebuilt = separate::build_package(PackageInputs { package: leaf.clone(), input_files: inputs, interface_paths: vec![art.clone()] });
                let _ = std::fs::remove_file(&extra);
                if let Ok(unit) = rebuilt {
                    let mut cs = cores.clone();
                    if let Some(slot) = cs.iter_mut().find(|c| &c.package == leaf) {
                        *slot = unit;
                    }
                    match separate::link_cores(cs) {
                        Ok(_) => writeln!(out, "link-stale {} ok", leaf).unwrap(),
                        Err(e) => {
                            let m = diag_text(&e, root).replace('\n', " ; ");
                            // hashes are long; keep the shape of the message
                            writeln!(out, "link-stale {} err {}", leaf, m).unwrap()
                        }
                    }
                }
            }
        }
        let _ = std::fs::remove_dir_all(&art);
        Ok(out)
    }));
    o.push(("discovery_order", order.join(" ")));
    o.push((
        "interfaces",
        match r {
            Ok(Ok(s)) => s,
            Ok(Err(s)) => format!("err {}", s),
            Err(p) => format!("panic {}", util::panic_message(p)),
        },
    ));
    o
}

/// run `observe` on a fresh thread: thread-local `RandomState` keys are re-drawn from the OS
pub fn observe_fresh(root: &Path) -> Obs {
    let root = root.to_path_buf();
    std::thread::Builder::new()
        .stack_size(256 << 20)
        .spawn(move || observe(&root))
        .unwrap()
        .join()
        .unwrap_or_else(|_| vec![("outcome", "thread-panic".to_string())])
}

pub fn h64(s: &str) -> u64 {
    let mut h = std::collections::hash_map::DefaultHasher::new();
    s.hash(&mut h);
    h.finish()
}
/// 128-bit digest (two SipHash-1-3 passes with different prefixes; `DefaultHasher::new()` has fixed keys)
pub fn digest(s: &str) -> String {
    let mut h1 = std::collections::hash_map::DefaultHasher::new();
    0xA5u8.hash(&mut h1);
    s.hash(&mut h1);
    let mut h2 = std::collections::hash_map::DefaultHasher::new();
    s.len().hash(&mut h2);
    s.hash(&mut h2);
    0x5Au8.hash(&mut h2);
    format!("{:016x}{:016x}", h1.finish(), h2.finish())
}

/// the order of the declarations of a Go text: its column-0 lines (`type … struct {`, `func …(`, `import (`) and the lines
/// of the import block — what a cross-process comparison of the emission-collections family keeps besides the digest
pub fn go_skeleton(go: &str) -> String {
    let mut out = String::new();
    let mut in_import = false;
    for line in go.lines() {
        let c0 = line.chars().next();
        if c0.is_some_and(|c| c.is_alphabetic() || c == '_') {
            in_import = line.starts_with("import (");
            out.push_str(line);
            out.push('\n');
        } else if in_import {
            if line.starts_with(')') {
                in_import = false;
            } else {
                out.push_str(line);
                out.push('\n');
            }
        }
    }
    out
}

fn first_diff(x: &str, y: &str) -> String {
    // the top-level item the difference sits in: first word of the nearest line above (or at) it that starts in column 0
    let mut item = String::new();
    for (i, (lx, ly)) in x.lines().zip(y.lines()).enumerate() {
        if lx.chars().next().is_some_and(|c| c.is_alphabetic() || c == '_') {
            item = lx.chars().take_while(|c| c.is_alphanumeric() || *c == '_').collect();
        }
        if lx != ly {
            return format!("line {} [in {}]: `{}` vs `{}`", i + 1, item, lx.chars().take(160).collect::<String>(), ly.chars().take(160).collect::<String>());
        }
    }
    format!("length {} vs {}", x.len(), y.len())
}

/// the text of `x` from three lines before its first difference with `y`, at most 40 lines / 3000 chars
fn around_diff(x: &str, y: &str) -> String {
    let lx: Vec<&str> = x.lines().collect();
    let ly: Vec<&str> = y.lines().collect();
    let mut i = 0;
    while i < lx.len() && i < ly.len() && lx[i] == ly[i] {
        i += 1;
    }
    let from = i.saturating_sub(3);
    lx[from..lx.len().min(from + 40)].join("\n").chars().take(3000).collect()
}

// ------------------------------------------------------------------------------------------------
// graph tie

#[derive(Clone, Debug)]
pub enum DirState {
    Missing,
    Empty,
    Parse,
    FileMismatch(String),
    Unit(String, Vec<String>),
}

pub const GPOOL: &[&str] = &["Main", "Aa", "Bb", "Cc", "Dd", "Ee"];

pub fn disk_sexp(disk: &[(String, DirState)]) -> S {
    tagged(
        "disk",
        disk.iter()
            .map(|(p, st)| match st {
                DirState::Missing => l(vec![a(p.clone()), a("missing")]),
                DirState::Empty => l(vec![a(p.clone()), a("empty")]),
                DirState::Parse => l(vec![a(p.clone()), a("parse")]),
                DirState::FileMismatch(_) => l(vec![a(p.clone()), a("file-mismatch")]),
                DirState::Unit(d, imps) => {
                    let set: BTreeSet<&String> = imps.iter().collect();
                    l(vec![a(p.clone()), a("unit"), a(d.clone()), l(set.into_iter().map(|x| a(x.clone())).collect())])
                }
            })
            .collect(),
    )
}

/// write a disk state as directories; package bodies are trivial but well-typed, so a full compile
/// succeeds whenever discovery and the topological sort do
pub fn write_disk(root: &Path, disk: &[(String, DirState)], rng: &mut Rng) {
    let _ = std::fs::remove_dir_all(root);
    std::fs::create_dir_all(root).unwrap();
    let mut order: Vec<usize> = (0..disk.len()).collect();
    for i in (1..order.len()).rev() {
        let j = rng.below(i + 1);
        order.swap(i, j);
    }
    for i in order {
        let (p, st) = &disk[i];
        let dir = if p == "Main" { root.to_path_buf() } else { root.join(p) };
        let first = if p == "Main" { "main.gom" } else { "lib.gom" };
        match st {
            DirState::Missing => {}
            DirState::Empty => {
                std::fs::create_dir_all(&dir).unwrap();
                std::fs::write(dir.join("README.txt"), "no sources here\n").unwrap();
            }
            DirState::Parse => {
                std::fs::create_dir_all(&dir).unwrap();
                std::fs::write(dir.join(first), format!("package {}\n\nfn broken( {{\n", p)).unwrap();
            }
            DirState::FileMismatch(other) => {
                std::fs::create_dir_all(&dir).unwrap();
                std::fs::write(dir.join(first), format!("package {}\n\nfn f{}() -> int32 {{\n    1\n}}\n", p, p)).unwrap();
                std::fs::write(dir.join("other.gom"), format!("package {}\n\nfn g() -> int32 {{\n    1\n}}\n", other)).unwrap();
            }
            DirState::Unit(decl, imps) => {
                std::fs::create_dir_all(&dir).unwrap();
                // imports split over two files when there are at least two (a duplicate now and then)
                let (i1, i2): (Vec<&String>, Vec<&String>) = if imps.len() >= 2 && rng.chance(1, 2) {
                    let k = 1 + rng.below(imps.len() - 1);
                    (imps[..k].iter().collect(), imps[k - (rng.below(2))..].iter().collect())
                } else {
                    (imps.iter().collect(), Vec::new())
                };
                let mut s = format!("package {}\n", decl);
                for d in &i1 {
                    writeln!(s, "import {}", d).unwrap();
                }
                write!(s, "\nfn f{}() -> int32 {{\n    1\n}}\n", decl).unwrap();
                if p == "Main" {
                    s.push_str("\nfn main() {\n    string_println(\"x\")\n}\n");
                }
                if !i2.is_empty() {
                    let mut t = format!("package {}\n", decl);
                    for d in &i2 {
                        writeln!(t, "import {}", d).unwrap();
                    }
                    write!(t, "\nfn g{}() -> int32 {{\n    2\n}}\n", decl).unwrap();
                    std::fs::write(dir.join("more.gom"), t).unwrap();
                }
                std::fs::write(dir.join(first), s).unwrap();
            }
        }
    }
}

fn pkg_of_path(msg_path: &str, root: &Path) -> String {
    let rs = root.to_string_lossy().to_string();
    let rest = msg_path.trim().trim_start_matches(&rs).trim_start_matches('/');
    let first = rest.split('/').next().unwrap_or("");
    if first.is_empty() || first.ends_with(".gom") { "Main".to_string() } else { first.to_string() }
}

/// canonical class of a discovery / topological-sort error
pub fn classify_graph_err(e: &CompilationError, root: &Path) -> S {
    let stage = util::stage_of(e);
    let msg = e.diagnostics().iter().next().map(|d| d.message().to_string()).unwrap_or_default();
    if stage == "parser" || stage == "lower" {
        return l(vec![a("err"), a("parse")]);
    }
    let word_after = |pat: &str| -> String {
        msg.find(pat).map(|i| msg[i + pat.len()..].split(|c: char| c == ' ' || c == ':' || c == ',').next().unwrap_or("").to_string()).unwrap_or_default()
    };
    if let Some(r) = msg.strip_prefix("failed to read package directory ") {
        let path = r.split(": ").next().unwrap_or("");
        return l(vec![a("err"), a("load"), a(pkg_of_path(path, root)), a("unreadable")]);
    }
    if msg.starts_with("package directory ") && msg.contains("has no .gom files") {
        let path = &msg["package directory ".len()..msg.find(" has no").unwrap()];
        return l(vec![a("err"), a("load"), a(pkg_of_path(path, root)), a("no-files")]);
    }
    if let Some(r) = msg.strip_prefix("package mismatch in ") {
        let path = r.split(": ").next().unwrap_or("");
        return l(vec![a("err"), a("load"), a(pkg_of_path(path, root)), a("file-mismatch")]);
    }
    if msg.starts_with("root directory ") {
        return l(vec![a("err"), a("root-not-main"), a(word_after("found "))]);
    }
    if msg.starts_with("package directory ") && msg.contains(" declares package ") {
        return l(vec![a("err"), a("decl-mismatch"), a(word_after("expected ")), a(word_after("declares package "))]);
    }
    if let Some(r) = msg.strip_prefix("package dependency cycle detected: ") {
        let names: Vec<S> = r.split(" -> ").map(|seg| a(seg.split(' ').next().unwrap_or("").to_string())).collect();
        return tagged("err", [vec![a("cycle")], names].concat());
    }
    if msg.starts_with("package ") && msg.contains(" imports missing package ") {
        return l(vec![a("err"), a("missing"), a(word_after("package ")), a(word_after("imports missing package "))]);
    }
    if msg.contains("not found during dependency walk") {
        return l(vec![a("err"), a("not-found"), a(word_after("package "))]);
    }
    l(vec![a("err"), a("other"), a(msg)])
}

fn names(v: &[String]) -> Vec<S> {
    v.iter().map(|s| a(s.clone())).collect()
}

/// the real discovery + topological sort (+ package ids of a whole compile) on a directory
pub fn real_plan(root: &Path) -> S {
    let entry = root.join("main.gom");
    let src = match std::fs::read_to_string(&entry) {
        Ok(s) => s,
        Err(_) => return l(vec![a("err"), a("load"), a("Main"), a("unreadable")]),
    };
    let r = std::panic::catch_unwind(std::panic::AssertUnwindSafe(|| -> Result<S, CompilationError> {
        let ast = pipeline::parse_ast_file(&entry, &src)?;
        let graph = packages::discover_packages(root, Some(&entry), Some(ast))?;
        let topo = packages::topo_sort_packages(&graph)?;
        let mut out = vec![a("ok"), tagged("disc", names(&graph.discovery_order)), tagged("topo", names(&topo))];
        if let Ok(c) = pipeline::compile(&entry, &src) {
            let mut idx: Vec<(String, u32)> = c.hir.package_index.iter().map(|(k, v)| (k.0.clone(), v.0)).collect();
            idx.sort_by_key(|(k, v)| (*v, k.clone()));
            out.push(tagged("ids", idx.into_iter().map(|(k, v)| l(vec![a(k), n(v)])).collect()));
        } else {
            out.push(l(vec![a("ids-unavailable")]));
        }
        Ok(l(out))
    }));
    match r {
        Ok(Ok(s)) => s,
        Ok(Err(e)) => classify_graph_err(&e, root),
        Err(p) => l(vec![a("panic"), a(util::panic_message(p))]),
    }
}

pub fn gen_disk(rng: &mut Rng, idx: usize) -> Vec<(String, DirState)> {
    let np = 1 + rng.below(GPOOL.len() - 1); // packages besides Main that have a directory state
    let mut disk = Vec::new();
    let faulty = idx % 3 == 2; // a third of the layouts contain broken directories
    for (i, p) in GPOOL.iter().enumerate().take(np + 1) {
        let mut imps: Vec<String> = Vec::new();
        for q in GPOOL.iter().take(np + 2).skip(1) {
            // forward edges mostly; back edges (cycles, self imports, `import Main`) now and then
            let j = GPOOL.iter().position(|x| x == q).unwrap();
            let pr = if j > i { (1, 2) } else if idx % 4 == 1 { (1, 5) } else { (0, 1) };
            if rng.chance(pr.0, pr.1) {
                imps.push(q.to_string());
            }
        }
        if idx % 4 == 1 && rng.chance(1, 8) {
            imps.push("Main".to_string());
        }
        // shuffle the textual import order
        for k in (1..imps.len()).rev() {
            let j = rng.below(k + 1);
            imps.swap(k, j);
        }
        let st = if faulty && rng.chance(1, 3) {
            match rng.below(5) {
                0 => DirState::Missing,
                1 => DirState::Empty,
                2 => DirState::Parse,
                3 => DirState::FileMismatch(format!("{}x", p)),
                _ => DirState::Unit(GPOOL[(i + 1 + rng.below(3)) % GPOOL.len()].to_string(), imps),
            }
        } else {
            DirState::Unit(p.to_string(), imps)
        };
        // the entry file always exists (it is what the user names on the command line)
        if *p == "Main" && matches!(st, DirState::Missing | DirState::Empty) {
            disk.push((p.to_string(), DirState::Unit("Main".into(), vec![])));
            continue;
        }
        disk.push((p.to_string(), st));
    }
    disk
}

/// raw `PackageGraph` (no disk): names × import sets, imports may name absent packages
pub fn real_topo_raw(g: &[(String, Vec<String>)]) -> S {
    let mut packs = HashMap::new();
    for (p, imps) in g {
        packs.insert(p.clone(), PackageUnit { name: p.clone(), files: vec![], imports: imps.iter().cloned().collect() });
    }
    let graph = PackageGraph {
        root_dir: PathBuf::from("/r"),
        entry_package: "Main".to_string(),
        packages: packs,
        discovery_order: g.iter().map(|(p, _)| p.clone()).collect(),
        package_dirs: HashMap::new(),
    };
    match std::panic::catch_unwind(std::panic::AssertUnwindSafe(|| packages::topo_sort_packages(&graph))) {
        Ok(Ok(o)) => l(vec![a("ok"), tagged("topo", names(&o))]),
        Ok(Err(e)) => classify_graph_err(&e, Path::new("/r")),
        Err(p) => l(vec![a("panic"), a(util::panic_message(p))]),
    }
}

fn raw_sexp(g: &[(String, Vec<String>)]) -> S {
    tagged("graph", g.iter().map(|(p, d)| l(vec![a(p.clone()), l(names(d))])).collect())
}

// ------------------------------------------------------------------------------------------------

fn all_projects(args: &util::Args) -> Vec<Project> {
    let quick = args.tier != "thorough";
    let mut rng = Rng::new(args.seed);
    let mut ps = corpus_projects(quick, &mut rng);
    ps.extend(collection_diag_projects());
    ps.extend(emission_collection_projects());
    ps.extend(emission_definition_only_projects());
    let ngen = args.n.unwrap_or(if quick { 40 } else { 240 });
    for i in 0..ngen {
        ps.push(gen_project(i, args.seed));
    }
    ps
}

fn run_child(args: &util::Args) {
    let child = args.n.unwrap_or(1) as u64;
    let mut a2 = util::Args { seed: args.seed, tier: args.tier.clone(), out: args.out.clone(), n: None, rest: vec![] };
    if let Some(p) = args.rest.iter().position(|x| x == "--gen") {
        a2.n = args.rest.get(p + 1).and_then(|s| s.parse().ok());
    }
    let mut projects = all_projects(&a2);
    // `only <kind>`: a cheap child that recompiles one family (many such children = many hash seeds)
    if let Some(p) = args.rest.iter().position(|x| x == "only") {
        if let Some(kinds) = args.rest.get(p + 1) {
            projects.retain(|q| kinds.split(',').any(|kind| q.kind == kind));
        }
    }
    let base = util::scratch_dir(&format!("c13-child{}", child));
    let mut out = String::new();
    let mut listings = String::new();
    for p in &projects {
        let root = base.join(&p.id);
        materialize(&root, p, child.wrapping_mul(7919) + 1);
        let obs = observe_fresh(&root);
        for (ch, text) in &obs {
            writeln!(out, "{}\t{}\t{}\t{}", p.id, ch, digest(text), text.len()).unwrap();
            if p.kind == "collection-diagnostics" && *ch == "diagnostics" {
                writeln!(listings, "{}\t{}", p.id, esc_line(text)).unwrap();
            }
            if p.kind == "emission-collections" && *ch == "go" {
                writeln!(listings, "{}\t{}", p.id, esc_line(&go_skeleton(text))).unwrap();
            }
        }
    }
    std::fs::write(args.out.join(format!("c13.digest.child{}.tsv", child)), out).unwrap();
    std::fs::write(args.out.join(format!("c13.cdiag.child{}.tsv", child)), listings).unwrap();
    let _ = std::fs::remove_dir_all(&base);
}

fn run_show(args: &util::Args) {
    let i = args.n.unwrap_or(0);
    let p = gen_project(i, args.seed);
    let root = util::scratch_dir("c13-show").join(&p.id);
    materialize(&root, &p, 0);
    if args.rest.iter().any(|x| x == "--src") {
        for (rel, c) in &p.files {
            println!("=== {}\n{}", rel, c);
        }
    }
    println!("tags: {}", p.tags.join(" "));
    for (ch, text) in observe_fresh(&root) {
        if ch == "outcome" || ch == "diagnostics" || ch == "interfaces" || ch == "discovery_order" || ch == "package_ids" {
            println!("[{}] {}", ch, text);
        } else if args.rest.iter().any(|x| x == &format!("--{}", ch)) {
            println!("[{}]\n{}", ch, text);
        }
    }
    let _ = std::fs::remove_dir_all(&root);
}

pub fn main(args: &util::Args) {
    util::quiet_panics();
    std::fs::create_dir_all(&args.out).unwrap();
    if args.rest.first().map(|s| s.as_str()) == Some("child") {
        return run_child(args);
    }
    if args.rest.first().map(|s| s.as_str()) == Some("show") {
        return run_show(args);
    }
    let sub = args.rest.first().map(|s| s.as_str());
    if sub == Some("cdiag") || sub == Some("emit") {
        // print what the compiler says about every program of the collection-diagnostics (`cdiag`) or
        // emission-collections (`emit`; add `--src` / `--go` for the sources / the Go text) family with k = --n
        let base = util::scratch_dir(if sub == Some("emit") { "c13-emit" } else { "c13-cdiag" });
        let emit_all = || {
            let mut e = emission_collection_projects();
            e.extend(emission_definition_only_projects());
            e
        };
        for p in if sub == Some("emit") { emit_all() } else { collection_diag_projects() } {
            if !p.tags.contains(&format!("k={}", args.n.unwrap_or(2))) {
                continue;
            }
            let root = base.join(&p.id);
            materialize(&root, &p, 0);
            println!("=== {}", p.id);
            if args.rest.iter().any(|x| x == "--src") {
                for (rel, c) in &p.files {
                    println!("--- {}\n{}", rel, c);
                }
            }
            for (ch, text) in observe_fresh(&root) {
                if ch == "outcome" || ch == "diagnostics" || (sub == Some("emit") && ch == "interfaces") || (ch == "go" && args.rest.iter().any(|x| x == "--go")) {
                    println!("[{}] {}", ch, text.trim_end());
                }
            }
        }
        let _ = std::fs::remove_dir_all(&base);
        return;
    }
    if args.rest.first().map(|s| s.as_str()) == Some("dir") {
        // compile <dir>/main.gom where it is and print outcome + diagnostics
        let root = PathBuf::from(&args.rest[1]);
        for (ch, text) in observe_fresh(&root) {
            if ch == "outcome" || ch == "diagnostics" || ch == "discovery_order" {
                println!("[{}] {}", ch, text.trim_end());
            }
        }
        return;
    }
    let quick = args.tier != "thorough";
    let base = util::scratch_dir("c13");
    let mut rng = Rng::new(args.seed);

    // ---- (a) graph tie
    let mut gout = String::new();
    let ndisk = if quick { 360 } else { 2400 };
    for i in 0..ndisk {
        let mut r = rng.fork(i as u64);
        let disk = gen_disk(&mut r, i);
        let root = base.join(format!("disk{}", i));
        write_disk(&root, &disk, &mut r);
        let real = real_plan(&root);
        // the same layout again on fresh threads (fresh hash keys): every outcome must be the same
        let mut others: Vec<String> = Vec::new();
        for _ in 0..5 {
            let r2 = root.clone();
            let t = std::thread::spawn(move || real_plan(&r2).to_text()).join().unwrap_or_else(|_| "(thread-panic)".into());
            if t != real.to_text() && !others.contains(&t) {
                others.push(t);
            }
        }
        writeln!(gout, "d{}\tCASE\t{}\t{}\t{}", i, disk_sexp(&disk).to_text(), real.to_text(), others.join(" ;; ")).unwrap();
        let _ = std::fs::remove_dir_all(&root);
    }
    // exhaustive: three packages, every import set over {Main, Aa, Bb, Zz(absent)}
    let tnames = ["Main", "Aa", "Bb"];
    let targets = ["Main", "Aa", "Bb", "Zz"];
    let mut k = 0;
    for code in 0..(16 * 16 * 16) {
        let mut g = Vec::new();
        for (i, p) in tnames.iter().enumerate() {
            let bits = (code >> (4 * i)) & 15;
            let imps: Vec<String> = targets.iter().enumerate().filter(|(j, _)| bits >> j & 1 == 1).map(|(_, t)| t.to_string()).collect();
            g.push((p.to_string(), imps));
        }
        if quick && code % 5 != (args.seed % 5) as usize {
            continue;
        }
        writeln!(gout, "r{}\tCASE\t{}\t{}", k, raw_sexp(&g).to_text(), real_topo_raw(&g).to_text()).unwrap();
        k += 1;
    }
    // random raw graphs on up to 6 names
    let nraw = if quick { 400 } else { 4000 };
    for i in 0..nraw {
        let mut r = rng.fork(1_000_000 + i as u64);
        let np = 1 + r.below(GPOOL.len());
        let mut g = Vec::new();
        for p in GPOOL.iter().take(np) {
            let dens = 1 + r.below(4) as u64;
            let mut imps: Vec<String> = GPOOL.iter().take(np + 1).filter(|_| r.chance(1, 1 + dens)).map(|s| s.to_string()).collect();
            if r.chance(1, 12) {
                imps.push("Zz".to_string());
            }
            for k in (1..imps.len()).rev() {
                let j = r.below(k + 1);
                imps.swap(k, j);
            }
            g.push((p.to_string(), imps));
        }
        for k in (1..g.len()).rev() {
            let j = r.below(k + 1);
            g.swap(k, j);
        }
        writeln!(gout, "q{}\tCASE\t{}\t{}", i, raw_sexp(&g).to_text(), real_topo_raw(&g).to_text()).unwrap();
    }
    std::fs::write(args.out.join("c13.graph.tsv"), gout).unwrap();

    // ---- (b) K-fold recompilation, (c) master digests
    let projects = all_projects(args);
    let copies = 3u64;
    // an unclassified hash iteration in the anchored sources (tools/hashiter.py) widens the search
    let widen = args.rest.iter().any(|x| x == "widen");
    let mut det = String::new();
    let mut dig = String::new();
    let mut cdiag_out = String::new();
    for p in &projects {
        let multi = p.imports_of_main() >= 2;
        let cdiag = p.kind == "collection-diagnostics" || p.kind == "emission-collections";
        let k = if quick { if multi || cdiag { 40 } else if p.kind == "generated" { 12 } else { 6 } } else if multi || cdiag { 120 } else { 24 };
        let k = if widen { k * 3 } else { k };
        let roots: Vec<PathBuf> = (0..copies).map(|c| base.join(format!("{}-c{}", p.id, c))).collect();
        for (c, r) in roots.iter().enumerate() {
            materialize(r, p, c as u64 * 104729);
        }
        let first = observe_fresh(&roots[0]);
        let mut distinct: BTreeMap<&'static str, BTreeSet<String>> = BTreeMap::new();
        for (ch, t) in &first {
            distinct.entry(ch).or_default().insert(digest(t));
            writeln!(dig, "{}\t{}\t{}\t{}", p.id, ch, digest(t), t.len()).unwrap();
            if p.kind == "collection-diagnostics" && *ch == "diagnostics" {
                let mut srcs = String::new();
                for (rel, c) in &p.files {
                    write!(srcs, "=== {}\n{}\n", rel, c).unwrap();
                }
                writeln!(cdiag_out, "{}\t{}\t{}", p.id, esc_line(t), esc_line(&srcs)).unwrap();
            }
            if p.kind == "emission-collections" && *ch == "go" {
                let mut srcs = String::new();
                for (rel, c) in &p.files {
                    write!(srcs, "=== {}\n{}\n", rel, c).unwrap();
                }
                writeln!(cdiag_out, "{}\t{}\t{}", p.id, esc_line(&go_skeleton(t)), esc_line(&srcs)).unwrap();
            }
        }
        // first differing observation per channel
        let mut mism: Vec<(String, String, String, String)> = Vec::new();
        for i in 1..k {
            let obs = observe_fresh(&roots[i % roots.len()]);
            if obs.len() != first.len() || obs.iter().zip(first.iter()).any(|(x, y)| x.0 != y.0) {
                // different outcome class: compare the channels both runs have
                if !mism.iter().any(|m| m.0 == "outcome") {
                    let o0 = first.iter().find(|(c, _)| *c == "outcome").map(|(_, t)| t.clone()).unwrap_or_default();
                    let o1 = obs.iter().find(|(c, _)| *c == "outcome").map(|(_, t)| t.clone()).unwrap_or_default();
                    mism.push(("outcome".into(), format!("`{}` vs `{}`", o0, o1), o0, o1));
                }
            }
            for (ch, t) in obs.iter() {
                distinct.entry(ch).or_default().insert(digest(t));
                if let Some((_, t0)) = first.iter().find(|(c, _)| c == ch) {
                    if t != t0 && !mism.iter().any(|m| m.0 == *ch) {
                        mism.push((ch.to_string(), first_diff(t0, t), around_diff(t0, t), around_diff(t, t0)));
                    }
                }
            }
        }
        let dist = distinct.iter().map(|(c, s)| format!("{}={}", c, s.len())).collect::<Vec<_>>().join(",");
        let outcome = first.iter().find(|(c, _)| *c == "outcome").map(|(_, t)| t.clone()).unwrap_or_default();
        let ndiag = first.iter().find(|(c, _)| *c == "diagnostics").map(|(_, t)| t.lines().count()).unwrap_or(0);
        writeln!(
            det,
            "{}\tDET\t{}\t{}\t{}\t{}\t{}\t{}\t{}\t{}",
            p.id, p.kind, p.tags.join(","), k, p.n_packages(), p.imports_of_main(), outcome, ndiag, dist
        )
        .unwrap();
        for (ch, what, t0, t1) in &mism {
            writeln!(det, "{}\tMISMATCH\t{}\t{}\t{}\t{}", p.id, ch, esc_line(what), esc_line(t0), esc_line(t1)).unwrap();
        }
        if !mism.is_empty() {
            // keep the sources of a non-deterministic project for the replay file
            let mut srcs = String::new();
            for (rel, c) in &p.files {
                write!(srcs, "=== {}\n{}\n", rel, c).unwrap();
            }
            std::fs::write(args.out.join(format!("c13.src.{}.txt", p.id)), srcs).unwrap();
        }
        for r in &roots {
            let _ = std::fs::remove_dir_all(r);
        }
    }
    std::fs::write(args.out.join("c13.det.tsv"), det).unwrap();
    std::fs::write(args.out.join("c13.digest.master.tsv"), dig).unwrap();
    std::fs::write(args.out.join("c13.cdiag.master.tsv"), cdiag_out).unwrap();
    let _ = std::fs::remove_dir_all(&base);
}
