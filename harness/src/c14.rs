//! C14 — separate compilation is equivalent to whole-program compilation.
//!
//! Every project (the 8 corpus package projects, the generated multi-package projects of C13 with
//! and without cross-package generic types) is compiled
//!   * whole: `pipeline::compile`;
//!   * separately, once per topological order of its package graph: per package `check_package`
//!     and `build_package` against the `.interface` files written so far; `.interface` / `.core`
//!     written as the CLI writes them, then re-read (`read_core`) and `link_cores`.
//! Printed: acceptance of both ways (stage of the first error), the Go AST and the linked Core of
//! both ways (distinct texts only), and for every package whether `check` and `build` produced the
//! same interface bytes.
use crate::c01;
use crate::c13::{self, Project};
use crate::dump;
use crate::godump;
use crate::rng::Rng;
use crate::sexp::esc_line;
use crate::util;
use compiler::pipeline::packages;
use compiler::pipeline::pipeline::{self, CompilationError};
use compiler::pipeline::separate::{self, PackageInputs};
use std::collections::{BTreeMap, BTreeSet};
use std::fmt::Write as _;
use std::path::{Path, PathBuf};

/// `ok` or `err:<stage>:<diagnostics, sorted, joined by " | ">` of one call of `check_package` / `build_package`
fn entry_outcome<T>(r: &Result<T, CompilationError>) -> String {
    match r {
        Ok(_) => "ok".to_string(),
        Err(e) => {
            let mut msgs: Vec<String> = e.diagnostics().iter().map(|d| d.message().to_string()).collect();
            msgs.sort();
            format!("err:{}:{}", util::stage_of(e), esc_line(&msgs.join(" | ")))
        }
    }
}

fn diag_class(e: &CompilationError) -> String {
    let msgs: Vec<String> = e.diagnostics().iter().map(|d| d.message().to_string()).collect();
    msgs.join(" | ")
}

/// all linear extensions of the dependency order (dependencies first), at most `cap`
fn topo_orders(deps: &BTreeMap<String, BTreeSet<String>>, cap: usize, rng: &mut Rng) -> (Vec<Vec<String>>, usize) {
    fn go(deps: &BTreeMap<String, BTreeSet<String>>, done: &mut Vec<String>, out: &mut Vec<Vec<String>>, limit: usize) {
        if out.len() >= limit {
            return;
        }
        if done.len() == deps.len() {
            out.push(done.clone());
            return;
        }
        for (p, ds) in deps {
            if done.contains(p) || !ds.iter().all(|d| done.contains(d) || !deps.contains_key(d)) {
                continue;
            }
            done.push(p.clone());
            go(deps, done, out, limit);
            done.pop();
        }
    }
    let mut all = Vec::new();
    go(deps, &mut Vec::new(), &mut all, 5000);
    let total = all.len();
    if all.len() > cap {
        // keep the first and the last (the two extremes of the enumeration) and a seeded sample
        let mut keep = vec![all[0].clone(), all[all.len() - 1].clone()];
        while keep.len() < cap {
            let c = all[rng.below(all.len())].clone();
            if !keep.contains(&c) {
                keep.push(c);
            }
        }
        all = keep;
    }
    (all, total)
}

fn package_inputs(dir: &Path) -> Vec<PathBuf> {
    let mut inputs: Vec<PathBuf> = std::fs::read_dir(dir)
        .map(|rd| rd.filter_map(|e| e.ok().map(|e| e.path())).filter(|q| q.extension().is_some_and(|x| x == "gom")).collect())
        .unwrap_or_default();
    inputs.sort();
    inputs
}

/// cross-package generic types and functions, appended to a generated project: every package
/// gets `enum O<p>[T]`, `struct B<p>[T]`, `fn id<p>[T]`, `fn un<p>[T]`, and uses the ones of its imports
fn add_generics(p: &mut Project) {
    // package name -> imports (read back from the generated text)
    let mut pkgs: BTreeMap<String, BTreeSet<String>> = BTreeMap::new();
    for (rel, content) in &p.files {
        let name = content.lines().find_map(|l| l.strip_prefix("package ")).unwrap_or("Main").trim().to_string();
        let e = pkgs.entry(name).or_default();
        for l in content.lines() {
            if let Some(d) = l.strip_prefix("import ") {
                e.insert(d.trim().to_string());
            }
        }
        let _ = rel;
    }
    for (name, imps) in &pkgs {
        if name == "Zq" {
            continue;
        }
        let q = name;
        let mut s = String::new();
        writeln!(s, "\nenum O{q}[T] {{\n    N{q},\n    J{q}(T),\n}}\n").unwrap();
        writeln!(s, "struct B{q}[T] {{\n    it: T,\n    n: int32,\n}}\n").unwrap();
        writeln!(s, "fn id{q}[T](x: T) -> T {{\n    x\n}}\n").unwrap();
        writeln!(s, "fn un{q}[T](o: O{q}[T], d: T) -> T {{\n    match o {{\n        O{q}::N{q} => d,\n        O{q}::J{q}(v) => v,\n    }}\n}}\n").unwrap();
        writeln!(s, "fn bx{q}[T](x: T) -> B{q}[T] {{\n    B{q} {{ it: x, n: 1 }}\n}}\n").unwrap();
        let mut sum = format!("un{q}(O{q}::J{q}(x), 0) + un{q}(O{q}::N{q}, 3) + bx{q}(id{q}(x)).it + string_len(un{q}(O{q}::J{q}(\"ab\"), \"\"))");
        for d in imps {
            // a generic type of the dependency instantiated here at a local type and at a dependency type
            write!(sum, " + {d}::un{d}({d}::O{d}::J{d}(x), 1) + {d}::bx{d}({d}::id{d}(S{q} {{ v: x }})).it.v + ek{q}{d}({d}::un{d}({d}::O{d}::N{d}, {d}::E{d}::K1(x))) + {d}::gen{d}(x)").unwrap();
            writeln!(s, "fn ek{q}{d}(e: {d}::E{d}) -> int32 {{\n    match e {{\n        {d}::E{d}::K0 => 0,\n        {d}::E{d}::K1(y) => y,\n    }}\n}}\n").unwrap();
        }
        writeln!(s, "fn gen{q}(x: int32) -> int32 {{\n    {sum}\n}}\n").unwrap();
        // attach to the package's first file
        let first = p.files.iter_mut().filter(|(_, c)| c.lines().any(|l| l.trim() == format!("package {}", q))).min_by(|a, b| a.0.cmp(&b.0));
        if let Some((_, content)) = first {
            content.push_str(&s);
        }
    }
    for (_, content) in p.files.iter_mut() {
        if content.contains("fn main() {\n") {
            *content = content.replace("fn main() {\n", "fn main() {\n    string_println(int32_to_string(genMain(4)));\n");
        }
    }
    p.tags.push("generics".to_string());
}

// ------------------------------------------------------------------------------------------------
// hand-written project shapes the random generator does not reach

fn proj(id: &str, tags: &[&str], files: &[(&str, String)]) -> Project {
    Project {
        id: format!("tpl-{}", id),
        kind: "template",
        files: files.iter().map(|(f, c)| (f.to_string(), c.clone())).collect(),
        tags: tags.iter().map(|t| t.to_string()).collect(),
    }
}

fn lets(n: usize) -> String {
    let mut s = String::from("    let v0 = x;\n");
    for i in 1..=n {
        s.push_str(&format!("    let v{} = v{} + {};\n", i, i - 1, i % 7));
    }
    s.push_str(&format!("    v{}\n", n));
    s
}

/// nested calls `inc(inc(… x …))`; kept shallow: compile time doubles with every level (whole-program and
/// separate alike - C04's business)
fn nested_calls(n: usize) -> String {
    format!("{}x{}", "inc(".repeat(n), ")".repeat(n))
}

fn nested_parens(n: usize) -> String {
    let mut s = String::new();
    for i in 0..n {
        s.push_str(&format!("({} + ", i % 5));
    }
    s.push('x');
    s.push_str(&")".repeat(n));
    s
}

fn nested_ifs(n: usize) -> String {
    let mut s = String::new();
    for i in 0..n {
        s.push_str(&format!("{}if x > {} {{\n", "    ".repeat(i + 1), i));
    }
    s.push_str(&format!("{}x + {}\n", "    ".repeat(n + 1), n));
    for i in (0..n).rev() {
        s.push_str(&format!("{}}} else {{ {} }}\n", "    ".repeat(i + 1), i));
    }
    s
}

pub fn templates(quick: bool) -> Vec<Project> {
    let mut v = Vec::new();
    let s = |x: &str| x.to_string();
    // ---- packages that declare only types / traits / extern types (no function, no impl method)
    v.push(proj("types-only", &["types-only-package"], &[
        ("main.gom", s("package Main\nimport Types\nimport Ops\n\nfn main() {\n    let p = Types::Pixel { x: 1, color: Types::Color::Blue(7) };\n    string_println(Ops::describe(p));\n    let q = Types::Pixel { x: 2, color: Types::Color::Red };\n    string_println(int32_to_string(q.x) + Ops::describe(q));\n}\n")),
        ("Types/lib.gom", s("package Types\n\nenum Color {\n    Red,\n    Green,\n    Blue(int32),\n}\n\nstruct Pixel {\n    x: int32,\n    color: Color,\n}\n")),
        ("Ops/lib.gom", s("package Ops\nimport Types\n\nfn describe(p: Types::Pixel) -> string {\n    match p.color {\n        Types::Color::Red => \"red\",\n        Types::Color::Green => \"green\",\n        Types::Color::Blue(n) => \"blue\" + int32_to_string(n),\n    }\n}\n")),
    ]));
    v.push(proj("types-only-generic", &["types-only-package", "generics"], &[
        ("main.gom", s("package Main\nimport Types\n\nfn get[T](o: Types::Opt[T], d: T) -> T {\n    match o {\n        Types::Opt::Non => d,\n        Types::Opt::Som(v) => v,\n    }\n}\n\nfn main() {\n    let b = Types::Box { it: 4, tag: \"t\" };\n    string_println(int32_to_string(get(Types::Opt::Som(b.it), 0) + get(Types::Opt::Non, 3)));\n    string_println(get(Types::Opt::Som(b.tag), \"\"));\n}\n")),
        ("Types/lib.gom", s("package Types\n\nenum Opt[T] {\n    Non,\n    Som(T),\n}\n\nstruct Box[T] {\n    it: T,\n    tag: string,\n}\n")),
    ]));
    v.push(proj("trait-only-dyn", &["trait-only-package", "dyn"], &[
        ("main.gom", s("package Main\nimport Api\nimport Impl\n\nfn show(d: dyn Api::Show) -> string {\n    Api::Show::show(d)\n}\n\nfn main() {\n    string_println(show(Impl::P { v: 3 }));\n    string_println(show(Impl::Q { s: \"q\" }));\n}\n")),
        ("Api/lib.gom", s("package Api\n\ntrait Show {\n    fn show(Self) -> string;\n}\n")),
        ("Impl/lib.gom", s("package Impl\nimport Api\n\nstruct P {\n    v: int32,\n}\n\nstruct Q {\n    s: string,\n}\n\nimpl Api::Show for P {\n    fn show(self: P) -> string {\n        \"P\" + int32_to_string(self.v)\n    }\n}\n\nimpl Api::Show for Q {\n    fn show(self: Q) -> string {\n        \"Q\" + self.s\n    }\n}\n")),
    ]));
    v.push(proj("trait-only-bound", &["trait-only-package", "bounds"], &[
        ("main.gom", s("package Main\nimport Api\n\nstruct P {\n    v: int32,\n}\n\nimpl Api::Show for P {\n    fn show(self: P) -> string {\n        \"P\" + int32_to_string(self.v)\n    }\n}\n\nfn twice[T: Api::Show](t: T) -> string {\n    Api::Show::show(t)\n}\n\nfn main() {\n    string_println(twice(P { v: 5 }));\n}\n")),
        ("Api/lib.gom", s("package Api\n\ntrait Show {\n    fn show(Self) -> string;\n}\n")),
    ]));
    v.push(proj("types-and-traits-chain", &["types-only-package", "trait-only-package", "dyn"], &[
        ("main.gom", s("package Main\nimport Model\nimport Api\nimport Svc\n\nfn main() {\n    let u = Model::User { id: 7, role: Model::Role::Admin(2) };\n    string_println(Svc::render(u));\n    let d: dyn Api::Named = Svc::W { u: Model::User { id: 1, role: Model::Role::Guest } };\n    string_println(Api::Named::name(d));\n}\n")),
        ("Model/lib.gom", s("package Model\n\nenum Role {\n    Guest,\n    Admin(int32),\n}\n\nstruct User {\n    id: int32,\n    role: Role,\n}\n")),
        ("Api/lib.gom", s("package Api\n\ntrait Named {\n    fn name(Self) -> string;\n}\n")),
        ("Svc/lib.gom", s("package Svc\nimport Model\nimport Api\n\nstruct W {\n    u: Model::User,\n}\n\nimpl Api::Named for W {\n    fn name(self: W) -> string {\n        render(self.u)\n    }\n}\n\nfn render(u: Model::User) -> string {\n    match u.role {\n        Model::Role::Guest => \"guest\" + int32_to_string(u.id),\n        Model::Role::Admin(l) => \"admin\" + int32_to_string(u.id + l),\n    }\n}\n")),
    ]));
    v.push(proj("extern-type-only", &["extern-only-package"], &[
        ("main.gom", s("package Main\nimport Ext\n\nextern \"go\" \"time\" duration(nanos: int32) -> Ext::Duration\n\nfn keep(d: Ext::Duration) -> int32 {\n    1\n}\n\nfn main() {\n    string_println(int32_to_string(keep(duration(5))));\n}\n")),
        ("Ext/lib.gom", s("package Ext\n\nextern type Duration\n")),
    ]));
    // ---- packages with zero items
    v.push(proj("empty-package", &["empty-package"], &[
        ("main.gom", s("package Main\nimport Empty\n\nfn main() {\n    string_println(\"m\");\n}\n")),
        ("Empty/lib.gom", s("package Empty\n")),
    ]));
    v.push(proj("empty-package-between", &["empty-package"], &[
        ("main.gom", s("package Main\nimport Mid\n\nfn main() {\n    string_println(\"m\");\n}\n")),
        ("Mid/lib.gom", s("package Mid\nimport Leaf\n")),
        ("Leaf/lib.gom", s("package Leaf\n\nfn f() -> int32 {\n    1\n}\n")),
    ]));
    // ---- deep nesting
    let depths: &[usize] = if quick { &[60, 200] } else { &[60, 200, 1000] };
    for &n in depths {
        v.push(proj(&format!("lets-{}", n), &["deep-lets"], &[
            ("main.gom", format!("package Main\nimport Lib\n\nfn local(x: int32) -> int32 {{\n{}}}\n\nfn main() {{\n    string_println(int32_to_string(local(1) + Lib::deep(2)));\n}}\n", lets(n))),
            ("Lib/lib.gom", format!("package Lib\n\nfn deep(x: int32) -> int32 {{\n{}}}\n", lets(n))),
        ]));
        v.push(proj(&format!("parens-{}", n), &["deep-expr"], &[
            ("main.gom", format!("package Main\nimport Lib\n\nfn main() {{\n    string_println(int32_to_string(Lib::deep(2)));\n}}\n")),
            ("Lib/lib.gom", format!("package Lib\n\nfn inc(x: int32) -> int32 {{\n    x + 1\n}}\n\nfn deep(x: int32) -> int32 {{\n    {} + {}\n}}\n", nested_parens(n), nested_calls(10))),
        ]));
        {
            v.push(proj(&format!("ifs-{}", n), &["deep-ifs"], &[
                ("main.gom", format!("package Main\nimport Lib\n\nfn main() {{\n    string_println(int32_to_string(Lib::deep(1000) + Lib::deep(3)));\n}}\n")),
                ("Lib/lib.gom", format!("package Lib\n\nfn deep(x: int32) -> int32 {{\n{}}}\n", nested_ifs(n))),
            ]));
        }
    }
    // ---- the same name twice in one package (two files)
    for (tag, first, second) in [("main-first", "main.gom", "z.gom"), ("main-last", "main.gom", "a.gom")] {
        v.push(proj(&format!("dup-fn-Main-{}", tag), &["duplicate-fn", "Main"], &[
            (first, s("package Main\n\nfn pick() -> string {\n    \"from-main-file\"\n}\n\nfn main() {\n    string_println(pick());\n}\n")),
            (second, s("package Main\n\nfn pick() -> string {\n    \"from-other-file\"\n}\n")),
        ]));
    }
    v.push(proj("dup-fn-lib", &["duplicate-fn", "library"], &[
        ("main.gom", s("package Main\nimport Lib\n\nfn main() {\n    string_println(Lib::pick());\n}\n")),
        ("Lib/a.gom", s("package Lib\n\nfn pick() -> string {\n    \"a\"\n}\n")),
        ("Lib/b.gom", s("package Lib\n\nfn pick() -> string {\n    \"b\"\n}\n")),
    ]));
    v.push(proj("dup-fn-same-file", &["duplicate-fn", "one-file"], &[
        ("main.gom", s("package Main\n\nfn pick() -> string {\n    \"first\"\n}\n\nfn pick() -> string {\n    \"second\"\n}\n\nfn main() {\n    string_println(pick());\n}\n")),
    ]));
    v.push(proj("dup-type-Main", &["duplicate-type", "Main"], &[
        ("main.gom", s("package Main\n\nstruct T {\n    a: int32,\n}\n\nfn main() {\n    let t = T { a: 1 };\n    string_println(int32_to_string(t.a));\n}\n")),
        ("a.gom", s("package Main\n\nstruct T {\n    a: int32,\n    b: string,\n}\n")),
    ]));
    v.push(proj("dup-type-lib", &["duplicate-type", "library"], &[
        ("main.gom", s("package Main\nimport Lib\n\nfn main() {\n    string_println(int32_to_string(Lib::mk().a));\n}\n")),
        ("Lib/a.gom", s("package Lib\n\nstruct T {\n    a: int32,\n}\n\nfn mk() -> T {\n    T { a: 1 }\n}\n")),
        ("Lib/b.gom", s("package Lib\n\nenum T {\n    X,\n}\n")),
    ]));
    v.push(proj("dup-trait-Main", &["duplicate-trait", "Main"], &[
        ("main.gom", s("package Main\n\ntrait Tr {\n    fn m(Self) -> int32;\n}\n\nimpl Tr for int32 {\n    fn m(self: int32) -> int32 {\n        self + 1\n    }\n}\n\nfn main() {\n    string_println(int32_to_string(Tr::m(1)));\n}\n")),
        ("a.gom", s("package Main\n\ntrait Tr {\n    fn m(Self) -> int32;\n    fn k(Self) -> int32;\n}\n")),
    ]));
    // ---- imports of oneself and of the importer
    v.push(proj("self-import-lib", &["self-import"], &[
        ("main.gom", s("package Main\nimport Lib\n\nfn main() {\n    string_println(int32_to_string(Lib::f(1)));\n}\n")),
        ("Lib/lib.gom", s("package Lib\nimport Lib\n\nfn f(x: int32) -> int32 {\n    x + 1\n}\n")),
    ]));
    v.push(proj("self-import-main", &["self-import"], &[
        ("main.gom", s("package Main\nimport Main\n\nfn main() {\n    string_println(\"m\");\n}\n")),
    ]));
    v.push(proj("self-import-used", &["self-import"], &[
        ("main.gom", s("package Main\nimport Lib\n\nfn main() {\n    string_println(int32_to_string(Lib::g(1)));\n}\n")),
        ("Lib/lib.gom", s("package Lib\nimport Lib\n\nfn f(x: int32) -> int32 {\n    x + 1\n}\n\nfn g(x: int32) -> int32 {\n    Lib::f(x) * 2\n}\n")),
    ]));
    v.push(proj("import-the-importer", &["import-cycle"], &[
        ("main.gom", s("package Main\nimport Lib\n\nfn h(x: int32) -> int32 {\n    x\n}\n\nfn main() {\n    string_println(int32_to_string(Lib::f(1)));\n}\n")),
        ("Lib/lib.gom", s("package Lib\nimport Main\n\nfn f(x: int32) -> int32 {\n    x + 1\n}\n")),
    ]));
    v.push(proj("import-cycle-libs", &["import-cycle"], &[
        ("main.gom", s("package Main\nimport Aa\n\nfn main() {\n    string_println(int32_to_string(Aa::f(1)));\n}\n")),
        ("Aa/lib.gom", s("package Aa\nimport Bb\n\nfn f(x: int32) -> int32 {\n    x + 1\n}\n")),
        ("Bb/lib.gom", s("package Bb\nimport Aa\n\nfn g(x: int32) -> int32 {\n    x + 2\n}\n")),
    ]));
    // ---- main.gom is not the first file of Main; definitions the entry file needs live in earlier and later files
    v.push(proj("main-not-first", &["main-not-first"], &[
        ("a.gom", s("package Main\n\nstruct S {\n    v: int32,\n}\n\ntrait Tr {\n    fn m(Self) -> int32;\n}\n")),
        ("main.gom", s("package Main\n\nimpl Tr for S {\n    fn m(self: S) -> int32 {\n        self.v + helper()\n    }\n}\n\nfn main() {\n    string_println(int32_to_string(Tr::m(S { v: 1 })));\n}\n")),
        ("z.gom", s("package Main\n\nfn helper() -> int32 {\n    40\n}\n")),
    ]));
    v.push(proj("main-not-first-impl-earlier", &["main-not-first"], &[
        ("a.gom", s("package Main\n\nimpl Tr for S {\n    fn m(self: S) -> int32 {\n        self.v + 1\n    }\n}\n")),
        ("main.gom", s("package Main\n\nstruct S {\n    v: int32,\n}\n\ntrait Tr {\n    fn m(Self) -> int32;\n}\n\nfn main() {\n    string_println(int32_to_string(Tr::m(S { v: 1 })));\n}\n")),
    ]));
    v
}

/// random mixtures: every library is a types-only, trait-only, empty or ordinary package; Main uses
/// whatever they declare (construction, field access, match, impl of the foreign trait, dyn, bound)
pub fn random_kinds_project(idx: usize, seed: u64) -> Project {
    let mut rng = Rng::new(seed ^ 0xC14B).fork(idx as u64);
    let n = 1 + rng.below(4);
    let names = ["Pa", "Pb", "Pc", "Pd"];
    let kinds: Vec<usize> = (0..n).map(|_| rng.below(4)).collect(); // 0 types, 1 traits, 2 empty, 3 code
    let mut files: Vec<(String, String)> = Vec::new();
    let mut main = String::from("package Main\n");
    for p in &names[..n] {
        main.push_str(&format!("import {}\n", p));
    }
    main.push_str("\nstruct Loc {\n    v: int32,\n}\n\n");
    let mut body = String::from("    let acc = 0;\n");
    let mut k_let = 0;
    for (i, p) in names[..n].iter().enumerate() {
        let mut src = format!("package {}\n", p);
        // a library may import an earlier types-only library and mention its types
        let dep = (0..i).find(|j| kinds[*j] == 0 && rng.chance(1, 2));
        if let Some(j) = dep {
            src.push_str(&format!("import {}\n", names[j]));
        }
        src.push('\n');
        match kinds[i] {
            0 => {
                src.push_str(&format!("struct S{p} {{\n    v: int32,\n    t: string,\n}}\n\nenum E{p} {{\n    A{p},\n    B{p}(int32),\n}}\n"));
                if let Some(j) = dep {
                    src.push_str(&format!("\nstruct W{p} {{\n    inner: {d}::S{d},\n}}\n", d = names[j]));
                }
                k_let += 1;
                body.push_str(&format!("    let s{k} = {p}::S{p} {{ v: {c}, t: \"t\" }};\n    let acc = acc + s{k}.v + string_len(s{k}.t);\n", k = k_let, c = 1 + rng.below(9)));
                body.push_str(&format!("    let acc = acc + match {p}::E{p}::B{p}({c}) {{\n        {p}::E{p}::A{p} => 0,\n        {p}::E{p}::B{p}(q) => q,\n    }};\n", c = 1 + rng.below(9)));
            }
            1 => {
                src.push_str(&format!("trait T{p} {{\n    fn m(Self) -> int32;\n}}\n"));
                main.push_str(&format!("impl {p}::T{p} for Loc {{\n    fn m(self: Loc) -> int32 {{\n        self.v + {c}\n    }}\n}}\n\nfn via{p}[T: {p}::T{p}](t: T) -> int32 {{\n    {p}::T{p}::m(t)\n}}\n\nfn dyn{p}(d: dyn {p}::T{p}) -> int32 {{\n    {p}::T{p}::m(d)\n}}\n\n", c = 1 + rng.below(9)));
                body.push_str(&format!("    let acc = acc + via{p}(Loc {{ v: 1 }}) + dyn{p}(Loc {{ v: 2 }});\n"));
            }
            2 => {}
            _ => {
                match dep {
                    Some(j) => src.push_str(&format!("fn f{p}(x: int32) -> int32 {{\n    let s = {d}::S{d} {{ v: x, t: \"\" }};\n    s.v + {c}\n}}\n", d = names[j], c = 1 + rng.below(9))),
                    None => src.push_str(&format!("fn f{p}(x: int32) -> int32 {{\n    x * {c}\n}}\n", c = 2 + rng.below(5))),
                }
                body.push_str(&format!("    let acc = acc + {p}::f{p}(acc);\n"));
            }
        }
        files.push((format!("{}/lib.gom", p), src));
    }
    main.push_str(&format!("fn main() {{\n{}    string_println(int32_to_string(acc));\n}}\n", body));
    files.insert(0, ("main.gom".to_string(), main));
    let kn = ["types", "traits", "empty", "code"];
    let mut tags: Vec<String> = kinds.iter().map(|k| format!("{}-only-package", kn[*k])).collect();
    tags.sort();
    tags.dedup();
    Project { id: format!("kinds-{:03}", idx), kind: "random-kinds", files, tags }
}

// ------------------------------------------------------------------------------------------------
// the per-file import rule and the other diagnostics produced before the typer

/// provider package: one of every kind of item
const SHAPE: &str = "package Shape\n\nstruct Pt {\n    x: int32,\n    y: int32,\n}\n\nenum E {\n    A,\n    B(int32),\n}\n\ntrait Tr {\n    fn m(Self) -> int32;\n}\n\nimpl Tr for Pt {\n    fn m(self: Pt) -> int32 {\n        self.x + self.y\n    }\n}\n\nfn f(a: int32) -> int32 {\n    a + 1\n}\n";

/// helpers that live in the file that DOES import Shape, so that the other file can receive and pass on
/// Shape values without naming the package
const HELPERS: &str = "fn mkPt() -> Shape::Pt {\n    Shape::Pt { x: 3, y: 4 }\n}\n\nfn mkE() -> Shape::E {\n    Shape::E::B(5)\n}\n\nfn usePt(p: Shape::Pt) -> int32 {\n    p.x * 10 + p.y\n}\n\nfn useE(e: Shape::E) -> int32 {\n    match e {\n        Shape::E::A => 0,\n        Shape::E::B(n) => n,\n    }\n}\n\nfn mkDyn() -> dyn Shape::Tr {\n    let d: dyn Shape::Tr = Shape::Pt { x: 3, y: 4 };\n    d\n}\n\nstruct Loc {\n    v: int32,\n}\n\ntrait LTr {\n    fn k(Self) -> int32;\n}\n";

/// every form in which a file can mention an item of another package; each defines `fn b() -> int32`
const USE_FORMS: &[(&str, &str)] = &[
    ("call", "fn b() -> int32 {\n    Shape::f(1)\n}\n"),
    ("type-in-signature", "fn g(p: Shape::Pt) -> int32 {\n    7\n}\n\nfn b() -> int32 {\n    g(mkPt())\n}\n"),
    ("type-in-return", "fn g() -> Shape::Pt {\n    mkPt()\n}\n\nfn b() -> int32 {\n    usePt(g())\n}\n"),
    ("let-annotation", "fn b() -> int32 {\n    let p: Shape::Pt = mkPt();\n    usePt(p)\n}\n"),
    ("field-type", "struct W {\n    p: Shape::Pt,\n}\n\nfn b() -> int32 {\n    let w = W { p: mkPt() };\n    usePt(w.p)\n}\n"),
    ("variant-payload-type", "enum V {\n    N,\n    P(Shape::Pt),\n}\n\nfn b() -> int32 {\n    match V::P(mkPt()) {\n        V::N => 0,\n        V::P(p) => usePt(p),\n    }\n}\n"),
    ("struct-literal", "fn b() -> int32 {\n    usePt(Shape::Pt { x: 1, y: 2 })\n}\n"),
    ("struct-pattern", "fn b() -> int32 {\n    let Shape::Pt { x: x, y: y } = mkPt();\n    x + y\n}\n"),
    ("enum-constructor-expr", "fn b() -> int32 {\n    useE(Shape::E::B(3))\n}\n"),
    ("enum-constructor-nullary", "fn b() -> int32 {\n    useE(Shape::E::A) + 1\n}\n"),
    ("enum-constructor-pattern", "fn b() -> int32 {\n    match mkE() {\n        Shape::E::A => 0,\n        Shape::E::B(n) => n,\n    }\n}\n"),
    ("trait-bound", "fn h[T: Shape::Tr](t: T) -> int32 {\n    9\n}\n\nfn b() -> int32 {\n    h(mkPt())\n}\n"),
    ("dyn-type", "fn d(x: dyn Shape::Tr) -> int32 {\n    8\n}\n\nfn b() -> int32 {\n    callD()\n}\n"),
    ("impl-foreign-trait", "impl Shape::Tr for Loc {\n    fn m(self: Loc) -> int32 {\n        self.v\n    }\n}\n\nfn b() -> int32 {\n    6\n}\n"),
    ("impl-for-foreign-type", "impl LTr for Shape::Pt {\n    fn k(self: Shape::Pt) -> int32 {\n        self.x\n    }\n}\n\nfn b() -> int32 {\n    LTr::k(mkPt())\n}\n"),
    ("ufcs-trait-method", "fn b() -> int32 {\n    Shape::Tr::m(mkPt())\n}\n"),
    ("generic-argument", "enum Opt[T] {\n    Non,\n    Som(T),\n}\n\nfn g(o: Opt[Shape::Pt]) -> int32 {\n    match o {\n        Opt::Non => 0,\n        Opt::Som(p) => usePt(p),\n    }\n}\n\nfn b() -> int32 {\n    g(Opt::Som(mkPt()))\n}\n"),
    ("closure-param-type", "fn b() -> int32 {\n    let c = |p: Shape::Pt| usePt(p);\n    c(mkPt())\n}\n"),
];

/// for every use form: the using file imports Shape / does not (while its sibling does) / nobody does;
/// the using package is Main or a library; the using file comes before or after its sibling
pub fn import_rule_projects() -> Vec<Project> {
    let mut v = Vec::new();
    for (form, text) in USE_FORMS {
        for user in ["Main", "Geo"] {
            for (variant, b_imports, a_imports) in [("imported", true, true), ("sibling-imports", false, true), ("nobody-imports", false, false)] {
                for b_first in [false, true] {
                    if b_first && variant != "sibling-imports" {
                        continue;
                    }
                    let imp = |on: bool| if on { "import Shape\n" } else { "" };
                    // without any import of Shape the helpers cannot be written: only the use form remains
                    let helpers = if a_imports { HELPERS.to_string() } else { "struct Loc {\n    v: int32,\n}\n\ntrait LTr {\n    fn k(Self) -> int32;\n}\n".to_string() };
                    let helpers = if *form == "dyn-type" && a_imports {
                        format!("{}\nfn callD() -> int32 {{\n    let x: dyn Shape::Tr = Shape::Pt {{ x: 3, y: 4 }};\n    d(x)\n}}\n", helpers)
                    } else {
                        helpers
                    };
                    let file_a = format!("package {user}\n{}\n{}", imp(a_imports), helpers);
                    let file_b = format!("package {user}\n{}\n{}", imp(b_imports), text);
                    let mut files: Vec<(String, String)> = vec![("Shape/lib.gom".to_string(), SHAPE.to_string())];
                    let (an, bn) = if b_first { ("m.gom", "b.gom") } else { ("a.gom", "z.gom") };
                    if user == "Main" {
                        files.push(("main.gom".to_string(), format!("package Main\n\nfn main() {{\n    string_println(int32_to_string(b()));\n}}\n")));
                        files.push((an.to_string(), file_a));
                        files.push((bn.to_string(), file_b));
                    } else {
                        files.push(("main.gom".to_string(), "package Main\nimport Geo\n\nfn main() {\n    string_println(int32_to_string(Geo::b()));\n}\n".to_string()));
                        files.push((format!("Geo/{}", an), file_a));
                        files.push((format!("Geo/{}", bn), file_b));
                    }
                    v.push(Project {
                        id: format!("imp-{}-{}-{}{}", form, user, variant, if b_first { "-first" } else { "" }),
                        kind: "import-rule",
                        files,
                        tags: vec![format!("use={}", form), format!("user={}", user), format!("file-imports={}", variant)],
                    });
                }
            }
        }
    }
    v
}

// ------------------------------------------------------------------------------------------------
// type-directed lookups through a value whose type lives in a package the user never names
//
// What a package may *name* is decided by name resolution (the import-rule catalogue above).  What the typer finds
// *by type* - the impl behind `Trait::m(v)` / `v.m()`, an inherent method, a field, the impl that satisfies a bound or
// a `dyn` coercion, the definition behind a match - is looked up in "the environments of the dependencies" of the
// package being checked, and the two pipelines build that set independently (whole: `typecheck_packages`, separate:
// the `.interface` files `check_package` / `build_package` load).  The catalogue crosses every such lookup with every
// way the owner of the type (and of the impl) can be related to the user package: imported by the user's file,
// imported only by a sibling file of the package, reachable only through an import of an import; with the user being
// the root or a library; with the trait impl living beside the type or beside the trait.  Nothing is expected here
// except that both pipelines give the same verdict (and, when they accept, the same behaviour).

/// (name, needs the trait, extra items of the user file, body of `fn b() -> int32`)
const LOOKUP_FORMS: &[(&str, bool, &str, &str)] = &[
    // ---- controls: the value only flows through; no lookup by its type in the user package
    ("flow-call", false, "", "Make::take(Make::mk())"),
    ("flow-let", false, "", "let v = Make::mk();\n    Make::take(v)"),
    ("flow-generic-fn", false, "fn idl[T](x: T) -> T {\n    x\n}\n\n", "Make::take(idl(Make::mk()))"),
    ("flow-closure", false, "", "let c = |v| Make::take(v);\n    c(Make::mk())"),
    ("flow-tuple", false, "", "let t = (Make::mk(), 2);\n    Make::take(t.0) + t.1"),
    ("flow-local-generic-struct", false, "struct Holder[T] {\n    h: T,\n}\n\n", "let h = Holder { h: Make::mk() };\n    Make::take(h.h)"),
    ("flow-match-wildcard", false, "", "match Make::mkKind() {\n        _ => 4,\n    }"),
    ("flow-match-variable", false, "", "match Make::mkKind() {\n        k => Make::takeKind(k),\n    }"),
    // ---- lookups by the type of the value
    ("field", false, "", "Make::mk().value"),
    ("field-of-let", false, "", "let v = Make::mk();\n    v.value + 1"),
    ("field-of-generic", false, "", "Make::mkWrap().it"),
    ("field-nested", false, "", "Make::mkWrap2().it.value"),
    ("inherent-method", false, "", "Make::mk().get()"),
    ("inherent-method-of-let", false, "", "let v = Make::mk();\n    v.get() + 1"),
    ("closure-param-field", false, "", "Make::with(|it| it.value)"),
    ("closure-param-inherent-method", false, "", "Make::with(|it| it.get())"),
    ("trait-ufcs", true, "", "string_len(Tr::Show::show(Make::mk()))"),
    ("trait-ufcs-of-let", true, "", "let v = Make::mk();\n    string_len(Tr::Show::show(v))"),
    ("trait-method-syntax", true, "", "string_len(Make::mk().show())"),
    ("closure-param-trait-ufcs", true, "", "Make::with(|it| string_len(Tr::Show::show(it)))"),
    ("closure-param-trait-method-syntax", true, "", "Make::with(|it| string_len(it.show()))"),
    ("closure-param-dyn-coercion", true, "", "Make::with(|it| {\n        let d: dyn Tr::Show = it;\n        string_len(Tr::Show::show(d))\n    })"),
    ("closure-param-dyn-coercion-arg", true, "fn viaDyn(d: dyn Tr::Show) -> int32 {\n    string_len(Tr::Show::show(d))\n}\n\n", "Make::with(|it| viaDyn(it))"),
    ("closure-param-trait-bound", true, "fn h[T: Tr::Show](t: T) -> int32 {\n    string_len(Tr::Show::show(t))\n}\n\n", "Make::with(|it| h(it))"),
    ("closure-param-field-of-generic", false, "", "Make::withWrap(|w| w.it)"),
    ("trait-bound", true, "fn h[T: Tr::Show](t: T) -> int32 {\n    string_len(Tr::Show::show(t))\n}\n\n", "h(Make::mk())"),
    ("trait-bound-unused", true, "fn h[T: Tr::Show](t: T) -> int32 {\n    9\n}\n\n", "h(Make::mk())"),
    ("dyn-coercion-let", true, "", "let d: dyn Tr::Show = Make::mk();\n    string_len(Tr::Show::show(d))"),
    ("dyn-coercion-arg", true, "fn viaDyn(d: dyn Tr::Show) -> int32 {\n    string_len(Tr::Show::show(d))\n}\n\n", "viaDyn(Make::mk())"),
    ("trait-ufcs-in-generic-struct", true, "", "string_len(Tr::Show::show(Make::mkWrap2().it))"),
];

pub fn lookup_visibility_projects() -> Vec<Project> {
    let mut v = Vec::new();
    for placement in ["impl-beside-type", "impl-beside-trait"] {
        // the owner of the type: struct, enum, generic struct, inherent impl (and the trait impl, when it lives here)
        let imp = "impl Tr::Show for Item {\n    fn show(self: Item) -> string {\n        \"item\" + int32_to_string(self.value)\n    }\n}\n";
        let data_items = "struct Item {\n    value: int32,\n}\n\nenum Kind {\n    Small,\n    Big(int32),\n}\n\nstruct Wrap[T] {\n    it: T,\n}\n\nimpl Item {\n    fn get(self: Item) -> int32 {\n        self.value + 1\n    }\n}\n";
        let (data, tr) = if placement == "impl-beside-type" {
            (
                format!("package Data\nimport Tr\n\n{}\n{}", data_items, imp),
                "package Tr\n\ntrait Show {\n    fn show(Self) -> string;\n}\n".to_string(),
            )
        } else {
            (
                format!("package Data\n\n{}", data_items),
                "package Tr\nimport Data\n\ntrait Show {\n    fn show(Self) -> string;\n}\n\nimpl Show for Data::Item {\n    fn show(self: Data::Item) -> string {\n        \"item\" + int32_to_string(self.value)\n    }\n}\n".to_string(),
            )
        };
        // the only package through which the user package gets hold of values of Data's types
        let make = "package Make\nimport Data\n\nfn mk() -> Data::Item {\n    Data::Item { value: 7 }\n}\n\nfn mkKind() -> Data::Kind {\n    Data::Kind::Big(3)\n}\n\nfn mkWrap() -> Data::Wrap[int32] {\n    Data::Wrap { it: 5 }\n}\n\nfn mkWrap2() -> Data::Wrap[Data::Item] {\n    Data::Wrap { it: Data::Item { value: 6 } }\n}\n\nfn with(f: (Data::Item) -> int32) -> int32 {\n    f(Data::Item { value: 9 })\n}\n\nfn withWrap(f: (Data::Wrap[int32]) -> int32) -> int32 {\n    f(Data::Wrap { it: 8 })\n}\n\nfn take(i: Data::Item) -> int32 {\n    i.value\n}\n\nfn takeKind(k: Data::Kind) -> int32 {\n    match k {\n        Data::Kind::Small => 0,\n        Data::Kind::Big(n) => n,\n    }\n}\n";
        for (form, needs_trait, items, body) in LOOKUP_FORMS {
            if placement == "impl-beside-trait" && !needs_trait {
                continue;
            }
            for user in ["Main", "Lib"] {
                for vis in ["imported", "sibling-file-imports", "transitive-only"] {
                    let mut head = format!("package {user}\nimport Make\nimport Tr\n");
                    if vis == "imported" {
                        head.push_str("import Data\n");
                    }
                    let file_b = format!("{head}\n{items}fn b() -> int32 {{\n    {body}\n}}\n");
                    let sibling = format!("package {user}\nimport Data\n\nfn keep(i: Data::Item) -> int32 {{\n    i.value\n}}\n");
                    let mut files: Vec<(String, String)> = vec![
                        ("Data/lib.gom".to_string(), data.clone()),
                        ("Tr/lib.gom".to_string(), tr.clone()),
                        ("Make/lib.gom".to_string(), make.to_string()),
                    ];
                    if user == "Main" {
                        files.push(("main.gom".to_string(), "package Main\n\nfn main() {\n    string_println(int32_to_string(b()));\n}\n".to_string()));
                        files.push(("use.gom".to_string(), file_b));
                        if vis == "sibling-file-imports" {
                            files.push(("keep.gom".to_string(), sibling));
                        }
                    } else {
                        files.push(("main.gom".to_string(), "package Main\nimport Lib\n\nfn main() {\n    string_println(int32_to_string(Lib::b()));\n}\n".to_string()));
                        files.push(("Lib/use.gom".to_string(), file_b));
                        if vis == "sibling-file-imports" {
                            files.push(("Lib/keep.gom".to_string(), sibling));
                        }
                    }
                    v.push(Project {
                        id: format!("look-{}-{}-{}-{}", form, user, vis, placement),
                        kind: "lookup-visibility",
                        files,
                        tags: vec![format!("lookup={}", form), format!("user={}", user), format!("type-owner={}", vis), placement.to_string()],
                    });
                }
            }
        }
    }
    v
}

/// diagnostics of the stages before the typer (parser, AST lowering, derive), in the entry file, in a
/// sibling file of Main and in a library file
pub fn early_diagnostic_projects() -> Vec<Project> {
    let bad: &[(&str, &str)] = &[
        ("parse-error", "fn broken( -> int32 {\n    1\n}\n"),
        ("parse-error-expr", "fn broken() -> int32 {\n    1 +\n}\n"),
        ("lone-surrogate-escape", "fn broken() -> string {\n    \"\\ud800\"\n}\n"),
        ("literal-applied", "fn broken() -> int32 {\n    1(2)\n}\n"),
        ("string-applied", "fn broken() -> int32 {\n    \"s\"(2)\n}\n"),
        ("extern-language", "extern \"c\" \"m\" sin(x: float64) -> float64\n"),
        ("derive-generic", "#[derive(ToJson)]\nstruct G[T] {\n    x: T,\n}\n"),
        ("derive-generic-enum", "#[derive(ToString)]\nenum G[T] {\n    A(T),\n}\n"),
        ("trait-without-methods", "trait Empty {\n}\n"),
        ("enum-without-variants", "enum Never {\n}\n"),
        ("array-length-overflow", "fn broken(a: [int32; 99999999999999999999999]) -> int32 {\n    1\n}\n"),
        ("tuple-index", "fn broken(t: (int32, int32)) -> int32 {\n    t.99999999999999999999999\n}\n"),
        ("duplicate-pattern-binding", "fn broken(t: (int32, int32)) -> int32 {\n    let (a, a) = t;\n    a\n}\n"),
        ("duplicate-parameter", "fn broken(a: int32, a: int32) -> int32 {\n    a\n}\n"),
        ("unknown-attribute", "#[frobnicate]\nfn broken() -> int32 {\n    1\n}\n"),
        ("unknown-derive", "#[derive(Nope)]\nstruct D {\n    x: int32,\n}\n"),
        ("int-literal-overflow", "fn broken() -> int32 {\n    99999999999999999999999\n}\n"),
        ("float-literal-overflow", "fn broken() -> float32 {\n    99999999999999999999999999999999999999999999999999.0f32\n}\n"),
    ];
    let mut v = Vec::new();
    for (name, text) in bad {
        for place in ["entry", "main-sibling", "library", "library-sibling"] {
            let mut files: Vec<(String, String)> = Vec::new();
            let main_ok = "fn main() {\n    string_println(\"m\");\n}\n";
            match place {
                "entry" => files.push(("main.gom".to_string(), format!("package Main\n\n{}\n{}", text, main_ok))),
                "main-sibling" => {
                    files.push(("main.gom".to_string(), format!("package Main\n\n{}", main_ok)));
                    files.push(("z.gom".to_string(), format!("package Main\n\n{}", text)));
                }
                "library" => {
                    files.push(("main.gom".to_string(), format!("package Main\nimport Lib\n\nfn main() {{\n    string_println(int32_to_string(Lib::ok()));\n}}\n")));
                    files.push(("Lib/lib.gom".to_string(), format!("package Lib\n\nfn ok() -> int32 {{\n    1\n}}\n\n{}", text)));
                }
                _ => {
                    files.push(("main.gom".to_string(), format!("package Main\nimport Lib\n\nfn main() {{\n    string_println(int32_to_string(Lib::ok()));\n}}\n")));
                    files.push(("Lib/a.gom".to_string(), "package Lib\n\nfn ok() -> int32 {\n    1\n}\n".to_string()));
                    files.push(("Lib/b.gom".to_string(), format!("package Lib\n\n{}", text)));
                }
            }
            v.push(Project { id: format!("early-{}-{}", name, place), kind: "early-diagnostic", files, tags: vec![format!("early={}", name), format!("place={}", place)] });
        }
    }
    v
}

// ------------------------------------------------------------------------------------------------
// diagnostics of the stage AFTER the typer
//
// Match compilation (`compile_match::compile_file`) is the last stage that can reject a source, and the only one that
// `build_package` runs and `check_package` does not; the whole-program path runs it once over all packages with the
// environment of the whole project, `build_package` per package with the exports of the direct dependencies.  Its
// diagnostics are: a match on integer literals without a catch-all arm (any integer type, any nesting of the literal
// inside constructor / tuple patterns, any expression position) and an inherent method used as a value instead of
// being called.  The catalogue places every such source in the entry file, a sibling of it, a library file and a
// sibling library file, and - where the form can mention a dependency - lets the matched value / the method come from
// a package the user imports.  Nothing is expected except that both pipelines (and `check` up to the typer) agree.

/// (name, items to add to the file, uses package `Dep`)
const LATE_FORMS: &[(&str, &str, bool)] = &[
    ("int32-match-no-wildcard", "fn late(n: int32) -> int32 {\n    match n {\n        0 => 1,\n        1 => 2,\n    }\n}\n", false),
    ("int8-match-no-wildcard", "fn late(n: int8) -> int32 {\n    match n {\n        0i8 => 1,\n        1i8 => 2,\n    }\n}\n", false),
    ("int16-match-no-wildcard", "fn late(n: int16) -> int32 {\n    match n {\n        0i16 => 1,\n    }\n}\n", false),
    ("int64-match-no-wildcard", "fn late(n: int64) -> int32 {\n    match n {\n        0i64 => 1,\n        7i64 => 2,\n    }\n}\n", false),
    ("uint8-match-no-wildcard", "fn late(n: uint8) -> int32 {\n    match n {\n        0u8 => 1,\n    }\n}\n", false),
    ("uint16-match-no-wildcard", "fn late(n: uint16) -> int32 {\n    match n {\n        0u16 => 1,\n    }\n}\n", false),
    ("uint32-match-no-wildcard", "fn late(n: uint32) -> int32 {\n    match n {\n        0u32 => 1,\n    }\n}\n", false),
    ("uint64-match-no-wildcard", "fn late(n: uint64) -> int32 {\n    match n {\n        0u64 => 1,\n        1u64 => 2,\n    }\n}\n", false),
    ("int-in-variant-payload", "enum LE {\n    A(int32),\n    B,\n}\n\nfn late(e: LE) -> int32 {\n    match e {\n        LE::A(0) => 1,\n        LE::B => 2,\n    }\n}\n", false),
    ("int-in-tuple", "fn late(t: (int32, bool)) -> int32 {\n    match t {\n        (0, true) => 1,\n        (1, _) => 2,\n    }\n}\n", false),
    ("int-in-struct-pattern", "struct LS {\n    a: int32,\n    b: bool,\n}\n\nfn late(s: LS) -> int32 {\n    match s {\n        LS { a: 0, b: _ } => 1,\n    }\n}\n", false),
    ("int-match-in-closure", "fn late(n: int32) -> int32 {\n    let c = |k: int32| match k {\n        0 => 1,\n    };\n    c(n)\n}\n", false),
    ("int-match-in-let-in-arm", "fn late(n: int32) -> int32 {\n    match n {\n        _ => {\n            let r = match n {\n                3 => 4,\n            };\n            r\n        },\n    }\n}\n", false),
    ("int-match-in-generic-fn", "fn late[T](x: T, n: int32) -> int32 {\n    match n {\n        0 => 1,\n    }\n}\n", false),
    ("int-match-in-impl-method", "struct LM {\n    v: int32,\n}\n\nimpl LM {\n    fn pick(self: LM) -> int32 {\n        match self.v {\n            0 => 1,\n        }\n    }\n}\n", false),
    ("int-match-in-trait-impl", "trait LT {\n    fn pick(Self) -> int32;\n}\n\nimpl LT for int32 {\n    fn pick(self: int32) -> int32 {\n        match self {\n            0 => 1,\n        }\n    }\n}\n", false),
    ("inherent-method-as-value", "struct LP {\n    x: int32,\n}\n\nimpl LP {\n    fn get(self: LP) -> int32 {\n        self.x\n    }\n}\n\nfn late(p: LP) -> int32 {\n    let g = LP::get;\n    g(p)\n}\n", false),
    ("inherent-method-as-argument", "struct LP {\n    x: int32,\n}\n\nimpl LP {\n    fn get(self: LP) -> int32 {\n        self.x\n    }\n}\n\nfn ap(f: (LP) -> int32, p: LP) -> int32 {\n    f(p)\n}\n\nfn late(p: LP) -> int32 {\n    ap(LP::get, p)\n}\n", false),
    ("generic-inherent-method-as-value", "struct LW[T] {\n    it: T,\n}\n\nimpl[T] LW[T] {\n    fn get(self: LW[T]) -> T {\n        self.it\n    }\n}\n\nfn late(w: LW[int32]) -> int32 {\n    let g = LW::get;\n    g(w)\n}\n", false),
    // ---- the matched value / the method belongs to an imported package
    ("dep-int-field-match", "fn late() -> int32 {\n    match Dep::mk().x {\n        1 => 1,\n    }\n}\n", true),
    ("dep-int-result-match", "fn late() -> int32 {\n    match Dep::num() {\n        1 => 1,\n        2 => 2,\n    }\n}\n", true),
    ("dep-variant-payload-match", "fn late(e: Dep::E) -> int32 {\n    match e {\n        Dep::E::A(0) => 1,\n        Dep::E::B => 2,\n    }\n}\n", true),
    ("dep-struct-pattern-match", "fn late(p: Dep::P) -> int32 {\n    match p {\n        Dep::P { x: 0 } => 1,\n    }\n}\n", true),
    ("dep-generic-payload-match", "fn late(o: Dep::Opt[int32]) -> int32 {\n    match o {\n        Dep::Opt::Some(0) => 1,\n        Dep::Opt::None => 2,\n    }\n}\n", true),
    ("dep-inherent-method-as-value", "fn late() -> int32 {\n    let g = Dep::P::get;\n    g(Dep::mk())\n}\n", true),
    // ---- controls: the same shapes with the catch-all / the call, accepted by every stage
    ("control-int-match-with-wildcard", "fn late(n: int32) -> int32 {\n    match n {\n        0 => 1,\n        _ => 2,\n    }\n}\n", false),
    ("control-inherent-method-called", "struct LP {\n    x: int32,\n}\n\nimpl LP {\n    fn get(self: LP) -> int32 {\n        self.x\n    }\n}\n\nfn late(p: LP) -> int32 {\n    LP::get(p)\n}\n", false),
    ("control-dep-match-with-wildcard", "fn late(e: Dep::E) -> int32 {\n    match e {\n        Dep::E::A(0) => 1,\n        _ => 2,\n    }\n}\n", true),
];

const LATE_DEP: &str = "package Dep\n\nstruct P {\n    x: int32,\n}\n\nimpl P {\n    fn get(self: P) -> int32 {\n        self.x\n    }\n}\n\nenum E {\n    A(int32),\n    B,\n}\n\nenum Opt[T] {\n    Some(T),\n    None,\n}\n\nfn mk() -> P {\n    P { x: 1 }\n}\n\nfn num() -> int32 {\n    1\n}\n";

pub fn late_diagnostic_projects() -> Vec<Project> {
    let mut v = Vec::new();
    for (name, text, uses_dep) in LATE_FORMS {
        for place in ["entry", "main-sibling", "library", "library-sibling"] {
            let imp = if *uses_dep { "import Dep\n" } else { "" };
            let mut files: Vec<(String, String)> = Vec::new();
            if *uses_dep {
                files.push(("Dep/lib.gom".to_string(), LATE_DEP.to_string()));
            }
            let main_ok = "fn main() {\n    string_println(\"m\");\n}\n";
            let main_lib = "package Main\nimport Lib\n\nfn main() {\n    string_println(int32_to_string(Lib::ok()));\n}\n";
            match place {
                "entry" => files.push(("main.gom".to_string(), format!("package Main\n{}\n{}\n{}", imp, text, main_ok))),
                "main-sibling" => {
                    files.push(("main.gom".to_string(), format!("package Main\n\n{}", main_ok)));
                    files.push(("z.gom".to_string(), format!("package Main\n{}\n{}", imp, text)));
                }
                "library" => {
                    files.push(("main.gom".to_string(), main_lib.to_string()));
                    files.push(("Lib/lib.gom".to_string(), format!("package Lib\n{}\nfn ok() -> int32 {{\n    1\n}}\n\n{}", imp, text)));
                }
                _ => {
                    files.push(("main.gom".to_string(), main_lib.to_string()));
                    files.push(("Lib/a.gom".to_string(), "package Lib\n\nfn ok() -> int32 {\n    1\n}\n".to_string()));
                    files.push(("Lib/b.gom".to_string(), format!("package Lib\n{}\n{}", imp, text)));
                }
            }
            v.push(Project { id: format!("late-{}-{}", name, place), kind: "late-diagnostic", files, tags: vec![format!("late={}", name), format!("place={}", place)] });
        }
    }
    v
}

// ------------------------------------------------------------------------------------------------
// the entry point
//
// `link_cores` decides on its own whether the project has an entry point ("Main package missing main function"); the
// whole-program path has no such test and leaves it to the back end, which renames `main` (and any `…::main`) to
// `main0` and emits `func main() { main0() }`.  The catalogue varies where `main` is and what it looks like.

/// (name, files)
pub fn entry_point_projects() -> Vec<Project> {
    let hello = "fn main() {\n    string_println(\"m\");\n}\n";
    let helper = "fn helper() -> int32 {\n    1\n}\n";
    let lib_ok = "package Lib\n\nfn ok() -> int32 {\n    1\n}\n";
    let forms: Vec<(&str, Vec<(&str, String)>)> = vec![
        ("control-main-in-entry-file", vec![("main.gom", format!("package Main\n\n{hello}"))]),
        ("main-in-sibling-file", vec![("main.gom", format!("package Main\n\n{helper}")), ("z.gom", format!("package Main\n\n{hello}"))]),
        ("no-main", vec![("main.gom", format!("package Main\n\n{helper}"))]),
        ("no-main-no-items", vec![("main.gom", "package Main\n".to_string())]),
        ("no-main-two-files", vec![("main.gom", format!("package Main\n\n{helper}")), ("z.gom", "package Main\n\nfn other() -> int32 {\n    helper()\n}\n".to_string())]),
        ("no-main-with-library", vec![("main.gom", format!("package Main\nimport Lib\n\nfn helper() -> int32 {{\n    Lib::ok()\n}}\n")), ("Lib/lib.gom", lib_ok.to_string())]),
        ("main-only-in-library", vec![("main.gom", format!("package Main\nimport Lib\n\nfn helper() -> int32 {{\n    Lib::ok()\n}}\n")), ("Lib/lib.gom", format!("{lib_ok}\n{hello}"))]),
        ("main-only-as-method", vec![("main.gom", "package Main\n\nstruct App {\n    v: int32,\n}\n\nimpl App {\n    fn main(self: App) -> int32 {\n        self.v\n    }\n}\n".to_string())]),
        ("main-only-as-extern", vec![("main.gom", "package Main\n\nextern \"go\" \"os\" \"Getpid\" main() -> int32\n".to_string())]),
        ("main-with-parameter", vec![("main.gom", "package Main\n\nfn main(x: int32) {\n    string_println(int32_to_string(x));\n}\n".to_string())]),
        ("main-with-result", vec![("main.gom", "package Main\n\nfn main() -> int32 {\n    1\n}\n".to_string())]),
        ("main-generic", vec![("main.gom", "package Main\n\nfn main[T]() {\n    string_println(\"g\");\n}\n".to_string())]),
    ];
    forms
        .into_iter()
        .map(|(name, files)| Project {
            id: format!("entry-{}", name),
            kind: "entry-point",
            files: files.into_iter().map(|(f, c)| (f.to_string(), c)).collect(),
            tags: vec![format!("entry={}", name)],
        })
        .collect()
}

/// witness projects kept under corpus/C14/<name>/ (a directory per project)
pub fn corpus_witnesses() -> Vec<Project> {
    let mut v = Vec::new();
    let root = util::verif_root().join("corpus/C14");
    let Ok(rd) = std::fs::read_dir(&root) else { return v };
    let mut dirs: Vec<PathBuf> = rd.filter_map(|e| e.ok().map(|e| e.path())).filter(|p| p.join("main.gom").exists()).collect();
    dirs.sort();
    fn walk(d: &Path, prefix: &str, out: &mut Vec<(String, String)>) {
        let Ok(rd) = std::fs::read_dir(d) else { return };
        let mut es: Vec<PathBuf> = rd.filter_map(|e| e.ok().map(|e| e.path())).collect();
        es.sort();
        for p in es {
            let name = p.file_name().unwrap().to_string_lossy().to_string();
            if p.is_dir() {
                walk(&p, &format!("{}{}/", prefix, name), out);
            } else if name.ends_with(".gom") {
                if let Ok(c) = std::fs::read_to_string(&p) {
                    out.push((format!("{}{}", prefix, name), c));
                }
            }
        }
    }
    for d in dirs {
        let mut files = Vec::new();
        walk(&d, "", &mut files);
        v.push(Project { id: format!("corpus-C14-{}", d.file_name().unwrap().to_string_lossy()), kind: "witness", files, tags: vec![] });
    }
    v
}

/// package graph read off the source text: `package X` / `import Y` lines, reachable from Main
fn text_graph(p: &Project, root: &Path) -> (BTreeMap<String, BTreeSet<String>>, BTreeMap<String, PathBuf>) {
    let mut all: BTreeMap<String, BTreeSet<String>> = BTreeMap::new();
    let mut dirs: BTreeMap<String, PathBuf> = BTreeMap::new();
    for (rel, content) in &p.files {
        let dir = match rel.rfind('/') {
            Some(i) => root.join(&rel[..i]),
            None => root.to_path_buf(),
        };
        let name = content.lines().find_map(|l| l.strip_prefix("package ")).map(|x| x.trim().to_string()).unwrap_or_else(|| "Main".to_string());
        let e = all.entry(name.clone()).or_default();
        for l in content.lines() {
            if let Some(d) = l.strip_prefix("import ") {
                e.insert(d.trim().to_string());
            }
        }
        dirs.entry(name).or_insert(dir);
    }
    let mut reach: BTreeSet<String> = BTreeSet::new();
    let mut todo = vec!["Main".to_string()];
    while let Some(x) = todo.pop() {
        if !all.contains_key(&x) || !reach.insert(x.clone()) {
            continue;
        }
        for d in &all[&x] {
            todo.push(d.clone());
        }
    }
    let deps = all.into_iter().filter(|(k, _)| reach.contains(k)).collect();
    (deps, dirs)
}

/// exports -> interface JSON (the text the CLI writes) -> exports: what the typer of an importer reads
/// (`exports.apply_to`, `hir_interface`) must be what the exporter wrote.  Compared three ways that do not
/// go through each other: the `Debug` rendering of every field (maps in their iteration order), the compact
/// JSON of the re-read value, and the hash the loader recomputes.
fn exports_roundtrip(unit: &compiler::artifact::InterfaceUnit, json: &str) -> (String, usize) {
    let e = &unit.exports;
    let entries = e.type_env.enums.len() + e.type_env.structs.len() + e.type_env.extern_types.len() + e.trait_env.trait_defs.len()
        + e.trait_env.trait_impls.len() + e.trait_env.inherent_impls.len() + e.value_env.funcs.len() + e.value_env.extern_funcs.len();
    // entries of the package itself (every package's exports also carry the builtins of `GlobalTypeEnv::new()`)
    static BUILTINS: std::sync::OnceLock<usize> = std::sync::OnceLock::new();
    let nb = *BUILTINS.get_or_init(|| {
        let g = compiler::env::GlobalTypeEnv::new();
        g.type_env.enums.len() + g.type_env.structs.len() + g.type_env.extern_types.len() + g.trait_env.trait_defs.len()
            + g.trait_env.trait_impls.len() + g.trait_env.inherent_impls.len() + g.value_env.funcs.len() + g.value_env.extern_funcs.len()
    });
    let entries = entries.saturating_sub(nb);
    let back: compiler::artifact::InterfaceUnit = match serde_json::from_str(json) {
        Ok(u) => u,
        Err(err) => return (format!("parse-error:{}", err.to_string().chars().take(80).collect::<String>()), entries),
    };
    let v = if format!("{:?}", back.exports) != format!("{:?}", unit.exports) {
        "exports-differ"
    } else if format!("{:?}", back.exports.to_genv()) != format!("{:?}", unit.exports.to_genv()) {
        "genv-differs"
    } else if format!("{:?}", back.hir_interface) != format!("{:?}", unit.hir_interface) {
        "hir-interface-differs"
    } else if back.deps != unit.deps || back.package != unit.package {
        "header-differs"
    } else if serde_json::to_string(&back).ok() != serde_json::to_string(unit).ok() {
        "json-differs"
    } else if !back.validate_hash() || back.interface_hash != unit.interface_hash {
        "hash-differs"
    } else {
        "same"
    };
    (v.to_string(), entries)
}

fn fnv64(s: &str) -> String {
    let mut h: u64 = 0xcbf29ce484222325;
    for b in s.as_bytes() {
        h ^= *b as u64;
        h = h.wrapping_mul(0x100000001b3);
    }
    format!("{:016x}", h)
}

/// the eight maps of an environment, each as `(part.field (key value-hash) …)` in iteration order; keys are
/// the `Debug` rendering of the real key, values a 64-bit hash of the `Debug` rendering of the real value
fn env_dump(t: &compiler::env::TypeEnv, tr: &compiler::env::TraitEnv, v: &compiler::env::ValueEnv) -> crate::sexp::S {
    use crate::sexp::{a, l};
    fn m<'a, K: std::fmt::Debug + 'a, V: std::fmt::Debug + 'a>(name: &str, it: impl Iterator<Item = (&'a K, &'a V)>) -> crate::sexp::S {
        let mut items = vec![a(name)];
        for (k, v) in it {
            items.push(l(vec![a(format!("{:?}", k)), a(fnv64(&format!("{:?}", v)))]));
        }
        l(items)
    }
    l(vec![
        m("type_env.enums", t.enums.iter()),
        m("type_env.structs", t.structs.iter()),
        m("type_env.extern_types", t.extern_types.iter()),
        m("trait_env.trait_defs", tr.trait_defs.iter()),
        m("trait_env.trait_impls", tr.trait_impls.iter()),
        m("trait_env.inherent_impls", tr.inherent_impls.iter()),
        m("value_env.funcs", v.funcs.iter()),
        m("value_env.extern_funcs", v.extern_funcs.iter()),
    ])
}

fn genv_dump(g: &compiler::env::GlobalTypeEnv) -> crate::sexp::S {
    env_dump(&g.type_env, &g.trait_env, &g.value_env)
}

struct SepResult {
    linkenv: Option<crate::sexp::S>,
    roundtrip: Vec<(String, (String, usize))>,
    outcome: String,
    go: Option<crate::sexp::S>,
    core: Option<crate::sexp::S>,
    go_text: String,
    iface: Vec<(String, &'static str, String, String)>,
}

fn separate_build(root: &Path, order: &[String], dirs: &BTreeMap<String, PathBuf>, reverse_link: bool) -> SepResult {
    let art = root.join(".artifacts");
    let _ = std::fs::remove_dir_all(&art);
    let _ = std::fs::create_dir_all(&art);
    let mut iface = Vec::new();
    let mut res = SepResult { linkenv: None, roundtrip: Vec::new(), outcome: String::new(), go: None, core: None, go_text: String::new(), iface: Vec::new() };
    for p in order {
        let dir = dirs.get(p).cloned().unwrap_or_else(|| root.join(p));
        let inputs = package_inputs(&dir);
        let opts = || PackageInputs { package: p.clone(), input_files: inputs.clone(), interface_paths: vec![art.clone()] };
        let checked = separate::check_package(opts());
        let built = separate::build_package(opts());
        let verdict = match (&checked, &built) {
            (Ok(ci), Ok(unit)) => {
                let a = serde_json::to_string_pretty(ci).unwrap_or_default();
                let b = serde_json::to_string_pretty(&unit.interface).unwrap_or_default();
                if a == b { "same" } else { "differ" }
            }
            (Ok(_), Err(e)) => if util::stage_of(e) == "compile" { "build-fails-in-compile" } else { "check-ok-build-err" },
            (Err(_), Ok(_)) => "check-err-build-ok",
            (Err(a), Err(b)) => if util::stage_of(a) == util::stage_of(b) { "both-err" } else { "both-err-different-stage" },
        };
        // what each of the two entry points answered, in full (stage and every diagnostic, sorted): the two run the
        // same front end on the same files against the same interfaces, so whatever one reports the other must report
        iface.push((p.clone(), verdict, entry_outcome(&checked), entry_outcome(&built)));
        match built {
            Ok(unit) => {
                let ij = serde_json::to_string_pretty(&unit.interface).unwrap_or_default();
                let cj = serde_json::to_string_pretty(&unit).unwrap_or_default();
                res.roundtrip.push((p.clone(), exports_roundtrip(&unit.interface, &ij)));
                let _ = std::fs::write(art.join(format!("{}.interface", p)), ij);
                let _ = std::fs::write(art.join(format!("{}.core", p)), cj);
            }
            Err(e) => {
                res.outcome = format!("err\t{}\t{}\t{}", util::stage_of(&e), p, esc_line(&diag_class(&e)));
                res.iface = iface;
                return res;
            }
        }
    }
    // artefacts re-read from their JSON files
    let mut units = Vec::new();
    let link_order: Vec<&String> = if reverse_link { order.iter().rev().collect() } else { order.iter().collect() };
    for p in link_order {
        match separate::read_core(&art.join(format!("{}.core", p))) {
            Ok(u) => units.push(u),
            Err(e) => {
                res.outcome = format!("err\tread-core\t{}\t{}", p, esc_line(&diag_class(&e)));
                res.iface = iface;
                return res;
            }
        }
    }
    // the exports the link reads (re-read from JSON), in the order the cores are handed to `link_cores`
    let pkgs_dump: Vec<crate::sexp::S> = units
        .iter()
        .map(|u| {
            let e = &u.interface.exports;
            crate::sexp::l(vec![crate::sexp::a(u.package.clone()), env_dump(&e.type_env, &e.trait_env, &e.value_env)])
        })
        .collect();
    match separate::link_cores(units) {
        Ok(lo) => {
            res.linkenv = Some(crate::sexp::l(vec![crate::sexp::l(pkgs_dump), genv_dump(&lo.genv)]));
            res.outcome = "ok".to_string();
            res.go_text = lo.go.to_pretty(&lo.goenv, 120);
            res.go = Some(godump::gfile(&lo.go));
            res.core = Some(c01::prog(dump::core_file(&lo.core), &c01::impls_table(&lo.genv)));
        }
        Err(e) => res.outcome = format!("err\t{}\tlink\t{}", util::stage_of(&e), esc_line(&diag_class(&e))),
    }
    res.iface = iface;
    let _ = std::fs::remove_dir_all(&art);
    res
}

fn run_project(p: &Project, root: &Path, cap: usize, rng: &mut Rng, out: &mut String) {
    c13::materialize(root, p, 0);
    let id = &p.id;
    let entry = root.join("main.gom");
    let src = std::fs::read_to_string(&entry).unwrap_or_default();
    let all_src: String = p.files.iter().map(|(f, c)| format!("// ---- {}\n{}\n", f, c)).collect();
    writeln!(out, "{}\tSRC\t{}", id, esc_line(&all_src)).unwrap();
    // ---- whole program
    let whole = std::panic::catch_unwind(std::panic::AssertUnwindSafe(|| pipeline::compile(&entry, &src)));
    let mut whole_go_text = String::new();
    match whole {
        Ok(Ok(c)) => {
            writeln!(out, "{}\tWHOLE\tok", id).unwrap();
            whole_go_text = c.go.to_pretty(&c.goenv, 120);
            writeln!(out, "{}\tSTAGE\tw.core\t{}", id, c01::prog(dump::core_file(&c.core), &c01::impls_table(&c.genv)).to_text()).unwrap();
            writeln!(out, "{}\tSTAGE\tw.go\t{}", id, godump::gfile(&c.go).to_text()).unwrap();
            writeln!(out, "{}\tGENV\tw\t{}", id, genv_dump(&c.genv).to_text()).unwrap();
        }
        Ok(Err(e)) => writeln!(out, "{}\tWHOLE\terr\t{}\t{}", id, util::stage_of(&e), esc_line(&diag_class(&e))).unwrap(),
        Err(pn) => writeln!(out, "{}\tWHOLE\tpanic\t{}", id, esc_line(&util::panic_message(pn))).unwrap(),
    }
    // ---- package graph (the same discovery the whole-program path uses)
    let graph = std::panic::catch_unwind(std::panic::AssertUnwindSafe(|| -> Result<_, CompilationError> {
        let ast = pipeline::parse_ast_file(&entry, &src)?;
        let g = packages::discover_packages(root, Some(&entry), Some(ast))?;
        packages::topo_sort_packages(&g)?;
        Ok(g)
    }));
    // the packages a user would build: what the compiler's own discovery finds or, when that fails (or to
    // cross-check it), the packages reachable from Main through the `import` lines of the sources
    let (tdeps, tdirs) = text_graph(p, root);
    let (deps, dirs, discovery): (BTreeMap<String, BTreeSet<String>>, BTreeMap<String, PathBuf>, String) = match graph {
        Ok(Ok(g)) => (
            g.packages.iter().map(|(k, v)| (k.clone(), v.imports.iter().cloned().collect())).collect(),
            g.package_dirs.iter().map(|(k, v)| (k.clone(), v.clone())).collect(),
            g.discovery_order.join(","),
        ),
        Ok(Err(e)) => {
            writeln!(out, "{}\tGRAPH\terr\t{}\t{}", id, util::stage_of(&e), esc_line(&diag_class(&e))).unwrap();
            (tdeps, tdirs, "text".to_string())
        }
        Err(pn) => {
            writeln!(out, "{}\tGRAPH\tpanic\t{}", id, esc_line(&util::panic_message(pn))).unwrap();
            (tdeps, tdirs, "text".to_string())
        }
    };
    // a package never waits for itself (check/build skip a self-import)
    let deps: BTreeMap<String, BTreeSet<String>> = deps.into_iter().map(|(k, v)| { let vv = v.into_iter().filter(|d| *d != k).collect(); (k, vv) }).collect();
    let (mut orders, total) = topo_orders(&deps, cap, rng);
    if orders.is_empty() {
        // an import cycle: no order satisfies it; try the packages by name with Main last
        let mut o: Vec<String> = deps.keys().filter(|k| *k != "Main").cloned().collect();
        o.push("Main".to_string());
        orders.push(o);
    }
    writeln!(
        out,
        "{}\tPROJECT\t{}\t{}\tpkgs={}\torders={}/{}\tdiscovery={}",
        id,
        p.kind,
        p.tags.join(","),
        deps.len(),
        orders.len(),
        total,
        discovery
    )
    .unwrap();
    let mut seen: Vec<String> = Vec::new();
    for (k, order) in orders.iter().enumerate() {
        let ord = order.clone();
        let rootb = root.to_path_buf();
        let dirsb = dirs.clone();
        let r = std::panic::catch_unwind(std::panic::AssertUnwindSafe(|| separate_build(&rootb, &ord, &dirsb, k % 2 == 1)));
        match r {
            Ok(res) => {
                for (pkg, verdict, chk, bld) in &res.iface {
                    writeln!(out, "{}\tIFACE\t{}\t{}\t{}\t{}\t{}", id, k, pkg, verdict, chk, bld).unwrap();
                }
                if k < 2 {
                    if let Some(le) = &res.linkenv {
                        writeln!(out, "{}\tGENV\ts\t{}\t{}", id, k, le.to_text()).unwrap();
                    }
                }
                for (pkg, (verdict, entries)) in &res.roundtrip {
                    writeln!(out, "{}\tRT\t{}\t{}\t{}\t{}", id, k, pkg, verdict, entries).unwrap();
                }
                if res.outcome == "ok" {
                    let idx = match seen.iter().position(|t| *t == res.go_text) {
                        Some(i) => i,
                        None => {
                            seen.push(res.go_text.clone());
                            let i = seen.len() - 1;
                            writeln!(out, "{}\tSTAGE\ts{}.core\t{}", id, i, res.core.as_ref().unwrap().to_text()).unwrap();
                            writeln!(out, "{}\tSTAGE\ts{}.go\t{}", id, i, res.go.as_ref().unwrap().to_text()).unwrap();
                            i
                        }
                    };
                    writeln!(out, "{}\tSEP\t{}\t{}\tok\ts{}\t{}", id, k, order.join(","), idx, if res.go_text == whole_go_text { "go-text-equal" } else { "go-text-differs" }).unwrap();
                } else {
                    writeln!(out, "{}\tSEP\t{}\t{}\t{}", id, k, order.join(","), res.outcome).unwrap();
                }
            }
            Err(pn) => writeln!(out, "{}\tSEP\t{}\t{}\tpanic\t{}", id, k, order.join(","), esc_line(&util::panic_message(pn))).unwrap(),
        }
    }
}

fn util_hash(s: &str) -> u64 {
    s.bytes().fold(1469598103934665603u64, |h, b| (h ^ b as u64).wrapping_mul(1099511628211))
}

pub fn main(args: &util::Args) {
    util::quiet_panics();
    let quick = args.tier != "thorough";
    let mut out = String::new();
    let root = util::scratch_dir("c14").join("proj");
    let mut rng = Rng::new(args.seed).fork(0xC14);
    let mut projects: Vec<Project> = c13::corpus_projects(true, &mut Rng::new(1)).into_iter().filter(|p| p.kind == "corpus-package").collect();
    projects.extend(templates(quick));
    projects.extend(corpus_witnesses());
    projects.extend(import_rule_projects());
    projects.extend(early_diagnostic_projects());
    projects.extend(late_diagnostic_projects());
    projects.extend(entry_point_projects());
    projects.extend(lookup_visibility_projects());
    // the package worlds of C16 whose directories are all in order (chains, diamonds, DAGs, impl triples): qualified
    // and type-directed references to own / imported / transitively reachable / unrelated packages, trait and inherent
    // impls in every owner arrangement; here only the agreement of the two pipelines is judged
    {
        let want = if quick { 60 } else { 600 };
        let mut wr = Rng::new(args.seed ^ 0xC16);
        let mut taken = 0;
        let mut i = 0;
        while taken < want && i < 100 * want {
            let mut r = wr.fork(i as u64);
            let w = crate::c16::gen_world(i, &mut r);
            i += 1;
            let plain = w.pkgs.iter().all(|p| matches!(p.state, crate::c16::State::Ok));
            let placed: usize = w.pkgs.iter().map(|p| p.uses.len() + p.impls.len()).sum();
            if !plain || !matches!(w.shape, "chain" | "diamond" | "dag" | "pair") || placed == 0 || w.pkgs.len() < 3 {
                continue;
            }
            taken += 1;
            projects.push(Project { id: format!("c16w-{:04}", i - 1), kind: "c16-world", files: crate::c16::sources(&w), tags: vec![format!("world={}", w.shape)] });
        }
    }
    for i in 0..(if quick { 16 } else { 120 }) {
        projects.push(random_kinds_project(i, args.seed));
    }
    let ngen = args.n.unwrap_or(if quick { 40 } else { 240 });
    for i in 0..ngen {
        projects.push(c13::gen_project(i, args.seed));
        if i % 2 == 0 {
            let mut g = c13::gen_project(i, args.seed);
            g.id = format!("{}g", g.id);
            add_generics(&mut g);
            projects.push(g);
        }
    }
    // the environment every link starts from (`GlobalTypeEnv::new()`: the builtins)
    writeln!(out, "genv0\tGENV\t0\t{}", genv_dump(&compiler::env::GlobalTypeEnv::new()).to_text()).unwrap();
    let cap = if quick { 6 } else { 120 };
    // `gv c14 --only <kind-or-id-prefix>`: development aid
    if let Some(only) = args.rest.iter().position(|x| x == "--only").and_then(|i| args.rest.get(i + 1)) {
        projects.retain(|p| p.kind == only.as_str() || p.id.starts_with(only.as_str()));
    }
    for p in &projects {
        // deeply nested sources recurse deeply in every pass
        if std::env::var("GV_TRACE").is_ok() { eprintln!("project {}", p.id); }
        let (pp, rootb, mut r2) = (p.clone(), root.clone(), rng.fork(util_hash(&p.id)));
        let piece = std::thread::Builder::new()
            .stack_size(2 << 30)
            .spawn(move || {
                let mut o = String::new();
                run_project(&pp, &rootb, cap, &mut r2, &mut o);
                o
            })
            .unwrap()
            .join()
            .unwrap_or_else(|_| format!("{}\tWHOLE\tpanic\tthread died\n", p.id));
        out.push_str(&piece);
    }
    let _ = std::fs::remove_dir_all(util::scratch_dir("c14"));
    let _ = std::fs::create_dir_all(&args.out);
    std::fs::write(args.out.join("c14.cases.tsv"), out).unwrap();
}
