//! C14 — separate compilation is equivalent to whole-program compilation.
//!
//! Every project (the 8 corpus package projects, the generated multi-package projects of C13 with
//! and without cross-package generic types) is compiled
//!   * whole: `pipeline::compile`;
//!   * separately, once per topological order of its package graph: per package `check_package`
//!     and `build_package` against the `.interface` files written so far; `.interface` / `.core`
//!     written as the CLI writes them, then re-read (`read_core`) and `link_cores`.
//! Printed: acceptance of both ways (stage of the first error), the Go AST and the linked Core of
//! both ways (distinct texts only), and for every package whether `check` and `build` produced the
//! same interface bytes.
use crate::c01;
use crate::c13::{self, Project};
use crate::dump;
use crate::godump;
use crate::rng::Rng;
use crate::sexp::esc_line;
use crate::util;
use compiler::pipeline::packages;
use compiler::pipeline::pipeline::{self, CompilationError};
use compiler::pipeline::separate::{self, PackageInputs};
use std::collections::{BTreeMap, BTreeSet};
use std::fmt::Write as _;
use std::path::{Path, PathBuf};

fn diag_class(e: &CompilationError) -> String {
    let msgs: Vec<String> = e.diagnostics().iter().map(|d| d.message().to_string()).collect();
    msgs.join(" | ")
}

/// all linear extensions of the dependency order (dependencies first), at most `cap`
fn topo_orders(deps: &BTreeMap<String, BTreeSet<String>>, cap: usize, rng: &mut Rng) -> (Vec<Vec<String>>, usize) {
    fn go(deps: &BTreeMap<String, BTreeSet<String>>, done: &mut Vec<String>, out: &mut Vec<Vec<String>>, limit: usize) {
        if out.len() >= limit {
            return;
        }
        if done.len() == deps.len() {
            out.push(done.clone());
            return;
        }
        for (p, ds) in deps {
            if done.contains(p) || !ds.iter().all(|d| done.contains(d) || !deps.contains_key(d)) {
                continue;
            }
            done.push(p.clone());
            go(deps, done, out, limit);
            done.pop();
        }
    }
    let mut all = Vec::new();
    go(deps, &mut Vec::new(), &mut all, 5000);
    let total = all.len();
    if all.len() > cap {
        // keep the first and the last (the two extremes of the enumeration) and a seeded sample
        let mut keep = vec![all[0].clone(), all[all.len() - 1].clone()];
        while keep.len() < cap {
            let c = all[rng.below(all.len())].clone();
            if !keep.contains(&c) {
                keep.push(c);
            }
        }
        all = keep;
    }
    (all, total)
}

fn package_inputs(dir: &Path) -> Vec<PathBuf> {
    let mut inputs: Vec<PathBuf> = std::fs::read_dir(dir)
        .map(|rd| rd.filter_map(|e| e.ok().map(|e| e.path())).filter(|q| q.extension().is_some_and(|x| x == "gom")).collect())
        .unwrap_or_default();
    inputs.sort();
    inputs
}

/// cross-package generic types and functions, appended to a generated project: every package
/// gets `enum O<p>[T]`, `struct B<p>[T]`, `fn id<p>[T]`, `fn un<p>[T]`, and uses the ones of its imports
fn add_generics(p: &mut Project) {
    // package name -> imports (read back from the generated text)
    let mut pkgs: BTreeMap<String, BTreeSet<String>> = BTreeMap::new();
    for (rel, content) in &p.files {
        let name = content.lines().find_map(|l| l.strip_prefix("package ")).unwrap_or("Main").trim().to_string();
        let e = pkgs.entry(name).or_default();
        for l in content.lines() {
            if let Some(d) = l.strip_prefix("import ") {
                e.insert(d.trim().to_string());
            }
        }
        let _ = rel;
    }
    for (name, imps) in &pkgs {
        if name == "Zq" {
            continue;
        }
        let q = name;
        let mut s = String::new();
        writeln!(s, "\nenum O{q}[T] {{\n    N{q},\n    J{q}(T),\n}}\n").unwrap();
        writeln!(s, "struct B{q}[T] {{\n    it: T,\n    n: int32,\n}}\n").unwrap();
        writeln!(s, "fn id{q}[T](x: T) -> T {{\n    x\n}}\n").unwrap();
        writeln!(s, "fn un{q}[T](o: O{q}[T], d: T) -> T {{\n    match o {{\n        O{q}::N{q} => d,\n        O{q}::J{q}(v) => v,\n    }}\n}}\n").unwrap();
        writeln!(s, "fn bx{q}[T](x: T) -> B{q}[T] {{\n    B{q} {{ it: x, n: 1 }}\n}}\n").unwrap();
        let mut sum = format!("un{q}(O{q}::J{q}(x), 0) + un{q}(O{q}::N{q}, 3) + bx{q}(id{q}(x)).it + string_len(un{q}(O{q}::J{q}(\"ab\"), \"\"))");
        for d in imps {
            // a generic type of the dependency instantiated here at a local type and at a dependency type
            write!(sum, " + {d}::un{d}({d}::O{d}::J{d}(x), 1) + {d}::bx{d}({d}::id{d}(S{q} {{ v: x }})).it.v + ek{q}{d}({d}::un{d}({d}::O{d}::N{d}, {d}::E{d}::K1(x))) + {d}::gen{d}(x)").unwrap();
            writeln!(s, "fn ek{q}{d}(e: {d}::E{d}) -> int32 {{\n    match e {{\n        {d}::E{d}::K0 => 0,\n        {d}::E{d}::K1(y) => y,\n    }}\n}}\n").unwrap();
        }
        writeln!(s, "fn gen{q}(x: int32) -> int32 {{\n    {sum}\n}}\n").unwrap();
        // attach to the package's first file
        let first = p.files.iter_mut().filter(|(_, c)| c.lines().any(|l| l.trim() == format!("package {}", q))).min_by(|a, b| a.0.cmp(&b.0));
        if let Some((_, content)) = first {
            content.push_str(&s);
        }
    }
    for (_, content) in p.files.iter_mut() {
        if content.contains("fn main() {\n") {
            *content = content.replace("fn main() {\n", "fn main() {\n    string_println(int32_to_string(genMain(4)));\n");
        }
    }
    p.tags.push("generics".to_string());
}

struct SepResult {
    outcome: String,
    go: Option<crate::sexp::S>,
    core: Option<crate::sexp::S>,
    go_text: String,
    iface: Vec<(String, &'static str)>,
}

fn separate_build(root: &Path, order: &[String], dirs: &BTreeMap<String, PathBuf>, reverse_link: bool) -> SepResult {
    let art = root.join(".artifacts");
    let _ = std::fs::remove_dir_all(&art);
    let _ = std::fs::create_dir_all(&art);
    let mut iface = Vec::new();
    let mut res = SepResult { outcome: String::new(), go: None, core: None, go_text: String::new(), iface: Vec::new() };
    for p in order {
        let dir = dirs.get(p).cloned().unwrap_or_else(|| root.join(p));
        let inputs = package_inputs(&dir);
        let opts = || PackageInputs { package: p.clone(), input_files: inputs.clone(), interface_paths: vec![art.clone()] };
        let checked = separate::check_package(opts());
        let built = separate::build_package(opts());
        match (&checked, &built) {
            (Ok(ci), Ok(unit)) => {
                let a = serde_json::to_string_pretty(ci).unwrap_or_default();
                let b = serde_json::to_string_pretty(&unit.interface).unwrap_or_default();
                iface.push((p.clone(), if a == b { "same" } else { "differ" }));
            }
            (Ok(_), Err(e)) => iface.push((p.clone(), if util::stage_of(e) == "compile" { "build-fails-in-compile" } else { "check-ok-build-err" })),
            (Err(_), Ok(_)) => iface.push((p.clone(), "check-err-build-ok")),
            (Err(a), Err(b)) => iface.push((p.clone(), if util::stage_of(a) == util::stage_of(b) { "both-err" } else { "both-err-different-stage" })),
        }
        match built {
            Ok(unit) => {
                let ij = serde_json::to_string_pretty(&unit.interface).unwrap_or_default();
                let cj = serde_json::to_string_pretty(&unit).unwrap_or_default();
                let _ = std::fs::write(art.join(format!("{}.interface", p)), ij);
                let _ = std::fs::write(art.join(format!("{}.core", p)), cj);
            }
            Err(e) => {
                res.outcome = format!("err\t{}\t{}\t{}", util::stage_of(&e), p, esc_line(&diag_class(&e)));
                res.iface = iface;
                return res;
            }
        }
    }
    // artefacts re-read from their JSON files
    let mut units = Vec::new();
    let link_order: Vec<&String> = if reverse_link { order.iter().rev().collect() } else { order.iter().collect() };
    for p in link_order {
        match separate::read_core(&art.join(format!("{}.core", p))) {
            Ok(u) => units.push(u),
            Err(e) => {
                res.outcome = format!("err\tread-core\t{}\t{}", p, esc_line(&diag_class(&e)));
                res.iface = iface;
                return res;
            }
        }
    }
    match separate::link_cores(units) {
        Ok(lo) => {
            res.outcome = "ok".to_string();
            res.go_text = lo.go.to_pretty(&lo.goenv, 120);
            res.go = Some(godump::gfile(&lo.go));
            res.core = Some(c01::prog(dump::core_file(&lo.core), &c01::impls_table(&lo.genv)));
        }
        Err(e) => res.outcome = format!("err\t{}\tlink\t{}", util::stage_of(&e), esc_line(&diag_class(&e))),
    }
    res.iface = iface;
    let _ = std::fs::remove_dir_all(&art);
    res
}

fn run_project(p: &Project, root: &Path, cap: usize, rng: &mut Rng, out: &mut String) {
    c13::materialize(root, p, 0);
    let id = &p.id;
    let entry = root.join("main.gom");
    let src = std::fs::read_to_string(&entry).unwrap_or_default();
    let all_src: String = p.files.iter().map(|(f, c)| format!("// ---- {}\n{}\n", f, c)).collect();
    writeln!(out, "{}\tSRC\t{}", id, esc_line(&all_src)).unwrap();
    // ---- whole program
    let whole = std::panic::catch_unwind(std::panic::AssertUnwindSafe(|| pipeline::compile(&entry, &src)));
    let mut whole_go_text = String::new();
    match whole {
        Ok(Ok(c)) => {
            writeln!(out, "{}\tWHOLE\tok", id).unwrap();
            whole_go_text = c.go.to_pretty(&c.goenv, 120);
            writeln!(out, "{}\tSTAGE\tw.core\t{}", id, c01::prog(dump::core_file(&c.core), &c01::impls_table(&c.genv)).to_text()).unwrap();
            writeln!(out, "{}\tSTAGE\tw.go\t{}", id, godump::gfile(&c.go).to_text()).unwrap();
        }
        Ok(Err(e)) => writeln!(out, "{}\tWHOLE\terr\t{}\t{}", id, util::stage_of(&e), esc_line(&diag_class(&e))).unwrap(),
        Err(pn) => writeln!(out, "{}\tWHOLE\tpanic\t{}", id, esc_line(&util::panic_message(pn))).unwrap(),
    }
    // ---- package graph (the same discovery the whole-program path uses)
    let graph = std::panic::catch_unwind(std::panic::AssertUnwindSafe(|| -> Result<_, CompilationError> {
        let ast = pipeline::parse_ast_file(&entry, &src)?;
        let g = packages::discover_packages(root, Some(&entry), Some(ast))?;
        packages::topo_sort_packages(&g)?;
        Ok(g)
    }));
    let g = match graph {
        Ok(Ok(g)) => g,
        Ok(Err(e)) => {
            writeln!(out, "{}\tGRAPH\terr\t{}\t{}", id, util::stage_of(&e), esc_line(&diag_class(&e))).unwrap();
            return;
        }
        Err(pn) => {
            writeln!(out, "{}\tGRAPH\tpanic\t{}", id, esc_line(&util::panic_message(pn))).unwrap();
            return;
        }
    };
    let deps: BTreeMap<String, BTreeSet<String>> = g.packages.iter().map(|(k, v)| (k.clone(), v.imports.iter().cloned().collect())).collect();
    let dirs: BTreeMap<String, PathBuf> = g.package_dirs.iter().map(|(k, v)| (k.clone(), v.clone())).collect();
    let (orders, total) = topo_orders(&deps, cap, rng);
    writeln!(
        out,
        "{}\tPROJECT\t{}\t{}\tpkgs={}\torders={}/{}\tdiscovery={}",
        id,
        p.kind,
        p.tags.join(","),
        deps.len(),
        orders.len(),
        total,
        g.discovery_order.join(",")
    )
    .unwrap();
    let mut seen: Vec<String> = Vec::new();
    for (k, order) in orders.iter().enumerate() {
        let ord = order.clone();
        let rootb = root.to_path_buf();
        let dirsb = dirs.clone();
        let r = std::panic::catch_unwind(std::panic::AssertUnwindSafe(|| separate_build(&rootb, &ord, &dirsb, k % 2 == 1)));
        match r {
            Ok(res) => {
                for (pkg, verdict) in &res.iface {
                    writeln!(out, "{}\tIFACE\t{}\t{}\t{}", id, k, pkg, verdict).unwrap();
                }
                if res.outcome == "ok" {
                    let idx = match seen.iter().position(|t| *t == res.go_text) {
                        Some(i) => i,
                        None => {
                            seen.push(res.go_text.clone());
                            let i = seen.len() - 1;
                            writeln!(out, "{}\tSTAGE\ts{}.core\t{}", id, i, res.core.as_ref().unwrap().to_text()).unwrap();
                            writeln!(out, "{}\tSTAGE\ts{}.go\t{}", id, i, res.go.as_ref().unwrap().to_text()).unwrap();
                            i
                        }
                    };
                    writeln!(out, "{}\tSEP\t{}\t{}\tok\ts{}\t{}", id, k, order.join(","), idx, if res.go_text == whole_go_text { "go-text-equal" } else { "go-text-differs" }).unwrap();
                } else {
                    writeln!(out, "{}\tSEP\t{}\t{}\t{}", id, k, order.join(","), res.outcome).unwrap();
                }
            }
            Err(pn) => writeln!(out, "{}\tSEP\t{}\t{}\tpanic\t{}", id, k, order.join(","), esc_line(&util::panic_message(pn))).unwrap(),
        }
    }
}

pub fn main(args: &util::Args) {
    util::quiet_panics();
    let quick = args.tier != "thorough";
    let mut out = String::new();
    let root = util::scratch_dir("c14").join("proj");
    let mut rng = Rng::new(args.seed).fork(0xC14);
    let mut projects: Vec<Project> = c13::corpus_projects(true, &mut Rng::new(1)).into_iter().filter(|p| p.kind == "corpus-package").collect();
    let ngen = args.n.unwrap_or(if quick { 40 } else { 240 });
    for i in 0..ngen {
        projects.push(c13::gen_project(i, args.seed));
        if i % 2 == 0 {
            let mut g = c13::gen_project(i, args.seed);
            g.id = format!("{}g", g.id);
            add_generics(&mut g);
            projects.push(g);
        }
    }
    let cap = if quick { 6 } else { 120 };
    for p in &projects {
        run_project(p, &root, cap, &mut rng, &mut out);
    }
    let _ = std::fs::remove_dir_all(util::scratch_dir("c14"));
    let _ = std::fs::create_dir_all(&args.out);
    std::fs::write(args.out.join("c14.cases.tsv"), out).unwrap();
}
